//! Framework shared by all checks: work-unit scheduling over worker *processes*, a
//! shared-memory progress cell per worker (crash / hang attribution), a shared lock-free
//! de-duplication table, violation grouping, known findings, replay files and the
//! evidence writer.
//!
//! A check is an exhaustive enumerator: `units(tier)` independent work units, each of which
//! enumerates its cases in a fixed deterministic order and hands every case to
//! [`Ctx::case`]. Nothing in here is random.

use std::collections::{BTreeMap, BTreeSet, HashSet};
use std::io::{BufRead, BufReader, Write};
use std::panic::{catch_unwind, AssertUnwindSafe};
use std::process::{Command, Stdio};
use std::sync::atomic::{AtomicU64, Ordering};
use std::sync::{Arc, Mutex};
use std::time::{Duration, Instant};

#[derive(Clone, Copy, PartialEq, Eq, Debug)]
pub enum Tier {
    Quick,
    Thorough,
}

impl Tier {
    pub fn name(self) -> &'static str {
        match self {
            Tier::Quick => "quick",
            Tier::Thorough => "thorough",
        }
    }
    pub fn parse(s: &str) -> Option<Tier> {
        match s {
            "quick" => Some(Tier::Quick),
            "thorough" => Some(Tier::Thorough),
            _ => None,
        }
    }
    pub fn is_thorough(self) -> bool {
        self == Tier::Thorough
    }
}

/// Description of one case: enough to group it (`shape`), to order counterexamples
/// (`rank`: smaller = simpler) and to reproduce it by hand (`text`).
pub struct CaseDesc {
    pub shape: String,
    pub text: String,
    pub rank: u64,
}

pub trait Check: Sync {
    fn id(&self) -> &'static str;
    /// level written into the evidence file
    fn level(&self) -> &'static str {
        "model_checking"
    }
    /// alphabet / bound / oracle + what makes a case distinct and non-trivial
    fn rule(&self, tier: Tier) -> String;
    fn assumptions(&self, _tier: Tier) -> Vec<String> {
        vec![]
    }
    /// number of work units
    fn units(&self, tier: Tier) -> u64;
    /// enumerate work unit `u`
    fn run_unit(&self, tier: Tier, u: u64, ctx: &mut Ctx);
    /// log2 of the number of slots of the shared de-duplication table (0 = none)
    fn dedup_bits(&self, _tier: Tier) -> u32 {
        0
    }
    /// reachability keys that a non-vacuous run must have hit at least once
    fn expect_reach(&self, _tier: Tier) -> Vec<String> {
        vec![]
    }
    /// per-case watchdog in seconds
    fn watchdog_s(&self, tier: Tier) -> u64 {
        if tier.is_thorough() {
            120
        } else {
            60
        }
    }
    /// extra key/values for the coverage object (bounds that were completed etc.)
    fn coverage_extra(&self, _tier: Tier) -> Vec<(String, String)> {
        vec![]
    }
    /// optional extra stage that runs after the sweep of the supervisor (e.g. the same enumeration at a reduced
    /// bound under another executor); its findings are merged into the verdict and the evidence
    fn post_run(&self, _tier: Tier) -> Option<PostRun> {
        None
    }
    /// true: the complete (thorough) bounds are cheap enough (seconds) to be enumerated on every change, the quick tier
    /// then enumerates them too; the tier label of the evidence stays what was asked for
    fn quick_is_thorough(&self) -> bool {
        false
    }
}

#[derive(Default)]
pub struct PostRun {
    pub coverage: Vec<(String, String)>,
    /// (signature, detail, input text)
    pub violations: Vec<(String, String, String)>,
    pub machinery_errors: Vec<String>,
    pub assumptions: Vec<String>,
}

/// result of an in-process run (no worker processes, no shared memory): used by executors that cannot map memory
pub struct Inproc {
    pub cases: u64,
    pub evals: u64,
    pub violations: Vec<(String, String, String)>,
}

/// run `f` with an in-process context
pub fn inproc(id: &'static str, f: impl FnOnce(&mut Ctx)) -> Inproc {
    install_panic_hook();
    let mut ctx = Ctx::new(id, None, 0, Mode::Normal, Box::new(std::io::sink()));
    f(&mut ctx);
    let violations = ctx.violations.drain(..).map(|(sig, detail, d, _, _)| (sig, detail, d.text)).collect();
    Inproc { cases: ctx.cnt.cases, evals: ctx.cnt.evals, violations }
}

// ------------------------------------------------------------------------------------------
// shared memory

const SHM_HDR: usize = 8192;
const CELL: usize = 128;
const MAX_WORKERS: usize = 48;

pub struct Shm {
    ptr: *mut u8,
    len: usize,
    pub fd: i32,
    dedup_mask: u64,
}
unsafe impl Send for Shm {}
unsafe impl Sync for Shm {}

impl Shm {
    fn size_for(bits: u32) -> usize {
        SHM_HDR + if bits == 0 { 0 } else { 8usize << bits }
    }
    pub fn create(bits: u32) -> Shm {
        unsafe {
            let name = b"epmc-shm\0";
            let fd = libc::memfd_create(name.as_ptr() as *const libc::c_char, 0);
            assert!(fd >= 0, "memfd_create failed");
            let len = Self::size_for(bits);
            assert_eq!(libc::ftruncate(fd, len as libc::off_t), 0, "ftruncate");
            Self::map(fd, bits)
        }
    }
    pub fn map(fd: i32, bits: u32) -> Shm {
        unsafe {
            let len = Self::size_for(bits);
            let p = libc::mmap(
                std::ptr::null_mut(),
                len,
                libc::PROT_READ | libc::PROT_WRITE,
                libc::MAP_SHARED,
                fd,
                0,
            );
            assert!(p != libc::MAP_FAILED, "mmap of shared region failed");
            Shm {
                ptr: p as *mut u8,
                len,
                fd,
                dedup_mask: if bits == 0 { 0 } else { (1u64 << bits) - 1 },
            }
        }
    }
    fn a(&self, off: usize) -> &AtomicU64 {
        assert!(off + 8 <= self.len);
        unsafe { &*(self.ptr.add(off) as *const AtomicU64) }
    }
    pub fn next_unit(&self) -> &AtomicU64 {
        self.a(0)
    }
    pub fn stop(&self) -> &AtomicU64 {
        self.a(8)
    }
    fn cell(&self, w: usize, k: usize) -> &AtomicU64 {
        assert!(w < MAX_WORKERS);
        self.a(256 + w * CELL + k * 8)
    }
    /// returns true if `h` was not in the table before
    pub fn insert(&self, h: u64) -> bool {
        if self.dedup_mask == 0 {
            return true;
        }
        let h = if h == 0 { 0x9e37_79b9_7f4a_7c15 } else { h };
        let mut slot = (h.wrapping_mul(0x9e37_79b9_7f4a_7c15) >> 7) & self.dedup_mask;
        let mut probes = 0u64;
        loop {
            let a = self.a(SHM_HDR + (slot as usize) * 8);
            let cur = a.load(Ordering::Relaxed);
            if cur == h {
                return false;
            }
            if cur == 0 {
                match a.compare_exchange(0, h, Ordering::Relaxed, Ordering::Relaxed) {
                    Ok(_) => return true,
                    Err(x) if x == h => return false,
                    Err(_) => {}
                }
            }
            slot = (slot + 1) & self.dedup_mask;
            probes += 1;
            assert!(probes <= self.dedup_mask, "dedup table full");
        }
    }
    fn set_at(&self, w: usize, name: &str) {
        let b = name.as_bytes();
        let n = b.len().min(63);
        unsafe {
            let p = self.ptr.add(256 + w * CELL + 64);
            std::ptr::copy_nonoverlapping(b.as_ptr(), p.add(1), n);
            *p = n as u8;
        }
    }
    fn get_at(&self, w: usize) -> String {
        unsafe {
            let p = self.ptr.add(256 + w * CELL + 64);
            let n = (*p as usize).min(63);
            String::from_utf8_lossy(std::slice::from_raw_parts(p.add(1), n)).into_owned()
        }
    }
}

// ------------------------------------------------------------------------------------------
// hashing helpers (FNV-1a 64, good enough for de-duplication of short byte strings)

#[derive(Clone, Copy)]
pub struct Fnv(pub u64);
impl Fnv {
    pub fn new() -> Fnv {
        Fnv(0xcbf2_9ce4_8422_2325)
    }
    #[inline]
    pub fn byte(&mut self, b: u8) {
        self.0 ^= b as u64;
        self.0 = self.0.wrapping_mul(0x0000_0100_0000_01b3);
    }
    #[inline]
    pub fn bytes(&mut self, bs: &[u8]) {
        for b in bs {
            self.byte(*b);
        }
    }
    #[inline]
    pub fn u64(&mut self, v: u64) {
        self.bytes(&v.to_le_bytes());
    }
    pub fn finish(self) -> u64 {
        // final avalanche (murmur finaliser) so that the low bits are usable as slot index
        let mut h = self.0;
        h ^= h >> 33;
        h = h.wrapping_mul(0xff51_afd7_ed55_8ccd);
        h ^= h >> 33;
        h = h.wrapping_mul(0xc4ce_b9fe_1a85_ec53);
        h ^= h >> 33;
        h
    }
}
pub fn fnv_str(s: &str) -> u64 {
    let mut f = Fnv::new();
    f.bytes(s.as_bytes());
    f.finish()
}

pub fn hex(b: &[u8]) -> String {
    const H: &[u8; 16] = b"0123456789abcdef";
    let mut s = String::with_capacity(b.len() * 2);
    for x in b {
        s.push(H[(x >> 4) as usize] as char);
        s.push(H[(x & 15) as usize] as char);
    }
    s
}
pub fn unhex(s: &str) -> Vec<u8> {
    let s: Vec<u8> = s.bytes().filter(|c| c.is_ascii_hexdigit()).collect();
    s.chunks(2)
        .map(|c| u8::from_str_radix(std::str::from_utf8(c).unwrap(), 16).unwrap())
        .collect()
}

pub fn jstr(s: &str) -> String {
    let mut o = String::with_capacity(s.len() + 2);
    o.push('"');
    for c in s.chars() {
        match c {
            '"' => o.push_str("\\\""),
            '\\' => o.push_str("\\\\"),
            '\n' => o.push_str("\\n"),
            '\r' => o.push_str("\\r"),
            '\t' => o.push_str("\\t"),
            c if (c as u32) < 0x20 => o.push_str(&format!("\\u{:04x}", c as u32)),
            c => o.push(c),
        }
    }
    o.push('"');
    o
}

// line protocol escaping (worker -> supervisor): one record per line, fields tab separated
fn esc(s: &str) -> String {
    s.replace('\\', "\\\\").replace('\t', "\\t").replace('\n', "\\n")
}
fn unesc(s: &str) -> String {
    let mut o = String::with_capacity(s.len());
    let mut it = s.chars();
    while let Some(c) = it.next() {
        if c == '\\' {
            match it.next() {
                Some('t') => o.push('\t'),
                Some('n') => o.push('\n'),
                Some('\\') => o.push('\\'),
                Some(x) => o.push(x),
                None => {}
            }
        } else {
            o.push(c);
        }
    }
    o
}

// ------------------------------------------------------------------------------------------
// panic capture

thread_local! {
    static LAST_PANIC: std::cell::RefCell<String> = std::cell::RefCell::new(String::new());
}

/// path of this binary; if the file was replaced while the process runs (a rebuild during a long run), Linux reports
/// "<path> (deleted)": the path itself is then what has to be started
pub fn own_exe() -> std::path::PathBuf {
    let p = std::env::current_exe().unwrap_or_default();
    match p.to_str().and_then(|s| s.strip_suffix(" (deleted)")) {
        Some(s) => std::path::PathBuf::from(s),
        None => p,
    }
}

pub fn install_panic_hook() {
    std::panic::set_hook(Box::new(|info| {
        let loc = info
            .location()
            .map(|l| {
                // location relative to the crate (independent of where the checked tree lives): signatures stay comparable
                let f = l.file();
                let f = f.find("etherparse/src/").map(|i| &f[i..]).unwrap_or(f);
                format!("{}:{}", f, l.line())
            })
            .unwrap_or_else(|| "?".into());
        let msg = if let Some(s) = info.payload().downcast_ref::<&str>() {
            s.to_string()
        } else if let Some(s) = info.payload().downcast_ref::<String>() {
            s.clone()
        } else {
            "<non-string panic>".to_string()
        };
        // leave a trace for the supervisor (only the tail is kept); needed when the panic cannot unwind
        eprintln!("PANIC at {}: {}", loc, crate::fw::truncate(&msg, 300));
        LAST_PANIC.with(|p| *p.borrow_mut() = format!("{} @ {}", msg, loc));
    }));
}
pub fn take_panic() -> String {
    LAST_PANIC.with(|p| std::mem::take(&mut *p.borrow_mut()))
}

/// run `f`, turning a panic into `Err(message @ location)`
pub fn guarded<R>(f: impl FnOnce() -> R) -> Result<R, String> {
    match catch_unwind(AssertUnwindSafe(f)) {
        Ok(r) => Ok(r),
        Err(_) => Err(take_panic()),
    }
}

// ------------------------------------------------------------------------------------------
// worker side

#[derive(Clone, Copy, PartialEq, Eq)]
enum Mode {
    Normal,
    /// re-enumerate `unit`, skip execution of cases `<= idx`, report case `idx` as crashed
    Resume { unit: u64, idx: u64, signal: i32 },
    /// execute exactly one case (replay)
    Single { unit: u64, idx: u64 },
}

#[derive(Default, Clone)]
struct Counters {
    states: u64,
    transitions: u64,
    evals: u64,
    nontrivial: u64,
    dups: u64,
    cases: u64,
}

pub struct Ctx<'s> {
    id: &'static str,
    shm: Option<&'s Shm>,
    wid: usize,
    mode: Mode,
    unit: u64,
    idx: u64,
    cnt: Counters,
    outcomes: HashSet<String>,
    new_outcomes: Vec<String>,
    reach: BTreeMap<String, u64>,
    samples: Vec<String>,
    sample_next: u64,
    total_cases: u64,
    largest: (u64, String),
    violations: Vec<(String, String, CaseDesc, u64, u64)>,
    out: Box<dyn Write + 's>,
    pub single_report: Vec<String>,
    cur_at: &'static str,
    unit_ms: u64,
}

pub struct Case {
    evals: u64,
    states: u64,
    nontrivial: u64,
    outcome: Option<String>,
    reach: Vec<String>,
    fails: Vec<(String, String)>,
    at: &'static str,
    shm_at: Option<(*const Shm, usize)>,
}

impl Case {
    /// count one call into the implementation
    #[inline]
    pub fn eval(&mut self) {
        self.evals += 1;
    }
    #[inline]
    pub fn evals(&mut self, n: u64) {
        self.evals += n;
    }
    /// this case stands for `n` distinct states (batched value-space enumeration)
    #[inline]
    pub fn states(&mut self, n: u64) {
        self.states = n;
    }
    #[inline]
    pub fn nontrivial(&mut self) {
        if self.nontrivial == 0 {
            self.nontrivial = 1;
        }
    }
    #[inline]
    pub fn nontrivial_n(&mut self, n: u64) {
        self.nontrivial = n;
    }
    /// outcome signature of this case (layer sequence x error class ...)
    pub fn outcome(&mut self, s: impl Into<String>) {
        self.outcome = Some(s.into());
    }
    /// reachability key (error kind x layer ...), counted
    pub fn reach(&mut self, k: impl Into<String>) {
        self.reach.push(k.into());
    }
    /// name of the entry point that is about to be called (crash attribution)
    #[inline]
    pub fn at(&mut self, name: &'static str) {
        self.at = name;
        if let Some((shm, w)) = self.shm_at {
            unsafe { (*shm).set_at(w, name) };
        }
    }
    pub fn cur_at(&self) -> &'static str {
        self.at
    }
    /// report a violation: `sig` groups (no concrete values), `detail` explains
    pub fn fail(&mut self, sig: impl Into<String>, detail: impl Into<String>) {
        if self.fails.len() < 8 {
            self.fails.push((sig.into(), detail.into()));
        }
    }
    pub fn failed(&self) -> bool {
        !self.fails.is_empty()
    }
}

impl<'s> Ctx<'s> {
    fn new(
        id: &'static str,
        shm: Option<&'s Shm>,
        wid: usize,
        mode: Mode,
        out: Box<dyn Write + 's>,
    ) -> Ctx<'s> {
        Ctx {
            id,
            shm,
            wid,
            mode,
            unit: 0,
            idx: 0,
            cnt: Counters::default(),
            outcomes: HashSet::new(),
            new_outcomes: vec![],
            reach: BTreeMap::new(),
            samples: vec![],
            sample_next: 0,
            total_cases: 0,
            largest: (0, String::new()),
            violations: vec![],
            out,
            single_report: vec![],
            cur_at: "",
            unit_ms: 0,
        }
    }

    /// true when the enumeration of the current unit can be abandoned (replay found its case)
    pub fn done(&self) -> bool {
        match self.mode {
            Mode::Single { unit, idx } => self.unit == unit && self.idx > idx,
            _ => false,
        }
    }

    /// Hand one case to the framework.
    /// * `key`: de-duplication key (hash of the canonical form of the case), `None` = never merged
    /// * `describe`: only called for samples, violations and crashes
    /// * `body`: executes the case on the implementation and applies the oracle
    #[inline]
    pub fn case<D, F>(&mut self, key: Option<u64>, describe: D, body: F)
    where
        D: Fn() -> CaseDesc,
        F: FnOnce(&mut Case),
    {
        let idx = self.idx;
        self.idx += 1;
        match self.mode {
            Mode::Normal => {}
            Mode::Resume { unit, idx: ridx, signal } => {
                if self.unit == unit {
                    if idx < ridx {
                        // executed (and reported) before the crash; keep the dedup table consistent
                        return;
                    }
                    if idx == ridx {
                        let d = describe();
                        let at = self.shm.map(|s| s.get_at(self.wid)).unwrap_or_default();
                        let what = if signal == -1 {
                            "hang (watchdog)".to_string()
                        } else {
                            format!("fatal signal {}", signal)
                        };
                        let sig = format!("crash:{}:{}", what, at);
                        let detail = format!(
                            "worker died with {} while executing this case (last entry point: {}; shape {})",
                            what, at, d.shape
                        );
                        self.violations.push((sig, detail, d, self.unit, idx));
                        self.cnt.transitions += 1;
                        self.cnt.states += 1;
                        self.mode = Mode::Normal;
                        // the next case may crash as well: get this record out right now
                        self.flush_violations();
                        return;
                    }
                }
            }
            Mode::Single { unit, idx: sidx } => {
                if !(self.unit == unit && idx == sidx) {
                    return;
                }
            }
        }
        if let (Some(k), Some(shm), Mode::Normal) = (key, self.shm, self.mode) {
            if !shm.insert(k) {
                self.cnt.dups += 1;
                self.cnt.transitions += 1;
                return;
            }
        }
        if let Some(shm) = self.shm {
            shm.cell(self.wid, 0).store(self.unit, Ordering::Relaxed);
            shm.cell(self.wid, 1).store(idx, Ordering::Relaxed);
            shm.cell(self.wid, 2).fetch_add(1, Ordering::Relaxed);
        }
        let mut c = Case {
            evals: 0,
            states: 1,
            nontrivial: 0,
            outcome: None,
            reach: vec![],
            fails: vec![],
            at: "",
            shm_at: self.shm.map(|s| (s as *const Shm, self.wid)),
        };
        let r = catch_unwind(AssertUnwindSafe(|| body(&mut c)));
        if r.is_err() {
            let msg = take_panic();
            // location only (no values) for the signature
            let loc = msg.rsplit(" @ ").next().unwrap_or("?").to_string();
            // keep the signature independent of where the tree under test lives
            let loc = match loc.find("etherparse/src/") {
                Some(p) => loc[p..].to_string(),
                None => loc,
            };
            c.fails.push((
                format!("panic:{}:{}", c.at, loc),
                format!("panic escaped at entry point `{}`: {}", c.at, msg),
            ));
        }
        self.cur_at = c.at;
        self.cnt.cases += 1;
        self.cnt.transitions += c.states;
        self.cnt.states += c.states;
        self.cnt.evals += c.evals;
        self.cnt.nontrivial += c.nontrivial;
        if let Some(o) = c.outcome.take() {
            if !self.outcomes.contains(&o) {
                self.outcomes.insert(o.clone());
                self.new_outcomes.push(o);
            }
        }
        for k in c.reach.drain(..) {
            *self.reach.entry(k).or_insert(0) += 1;
        }
        if let Mode::Single { .. } = self.mode {
            let d = describe();
            self.single_report.push(format!("case: {}", d.text));
            if c.fails.is_empty() {
                self.single_report.push("result: no violation".into());
            }
            for (s, dt) in &c.fails {
                self.single_report.push(format!("violation sig={} :: {}", s, dt));
            }
        }
        if !c.fails.is_empty() {
            for (sig, detail) in c.fails.drain(..) {
                if self.violations.len() < 4096 {
                    let d = describe();
                    self.violations.push((sig, detail, d, self.unit, idx));
                }
            }
        }
        // samples: the first case of the worker, then at doubling distances
        self.total_cases += 1;
        if self.total_cases >= self.sample_next && self.samples.len() < 6 {
            self.sample_next = if self.sample_next == 0 { 997 } else { self.sample_next * 16 };
            let d = describe();
            self.samples.push(format!("unit {} case {}: {}", self.unit, idx, d.text));
        }
    }

    /// remember the largest case seen (shown as a sample)
    pub fn note_size(&mut self, size: u64, describe: impl Fn() -> String) {
        if size > self.largest.0 {
            self.largest = (size, describe());
        }
    }

    fn flush_unit(&mut self) {
        let c = std::mem::take(&mut self.cnt);
        let _ = writeln!(
            self.out,
            "U\t{}\t{}\t{}\t{}\t{}\t{}\t{}",
            self.unit, c.states, c.transitions, c.evals, c.nontrivial, c.dups, self.unit_ms
        );
        for o in self.new_outcomes.drain(..) {
            let _ = writeln!(self.out, "O\t{}", esc(&o));
        }
        for (k, v) in std::mem::take(&mut self.reach) {
            let _ = writeln!(self.out, "R\t{}\t{}", esc(&k), v);
        }
        self.flush_violations();
        for s in self.samples.drain(..) {
            let _ = writeln!(self.out, "S\t{}", esc(&s));
        }
        let _ = self.out.flush();
    }
    fn flush_violations(&mut self) {
        for (sig, detail, d, unit, idx) in self.violations.drain(..) {
            let _ = writeln!(
                self.out,
                "V\t{}\t{}\t{}\t{}\t{}\t{}\t{}",
                esc(&sig),
                d.rank,
                unit,
                idx,
                esc(&d.shape),
                esc(&d.text),
                esc(&detail)
            );
        }
        let _ = self.out.flush();
    }
    fn flush_end(&mut self) {
        if self.largest.0 > 0 {
            let _ = writeln!(self.out, "L\t{}\t{}", self.largest.0, esc(&self.largest.1));
        }
        let _ = writeln!(self.out, "E");
        let _ = self.out.flush();
    }
}

pub fn worker_main(check: &dyn Check, tier: Tier, args: &[String]) -> i32 {
    // args: wid shm_fd dedup_bits [resume_unit resume_idx signal]
    let wid: usize = args[0].parse().unwrap();
    let fd: i32 = args[1].parse().unwrap();
    let bits: u32 = args[2].parse().unwrap();
    let shm = Shm::map(fd, bits);
    let mode = if args.len() >= 6 {
        Mode::Resume {
            unit: args[3].parse().unwrap(),
            idx: args[4].parse().unwrap(),
            signal: args[5].parse().unwrap(),
        }
    } else {
        Mode::Normal
    };
    install_panic_hook();
    let stdout = std::io::stdout();
    let out = Box::new(std::io::BufWriter::new(stdout.lock()));
    let mut ctx = Ctx::new(check.id(), Some(&shm), wid, mode, out);
    let units = check.units(tier);
    if let Mode::Resume { unit, .. } = mode {
        ctx.unit = unit;
        ctx.idx = 0;
        check.run_unit(tier, unit, &mut ctx);
        ctx.mode = Mode::Normal;
        ctx.flush_unit();
    }
    loop {
        if shm.stop().load(Ordering::Relaxed) != 0 {
            break;
        }
        let u = shm.next_unit().fetch_add(1, Ordering::Relaxed);
        if u >= units {
            break;
        }
        ctx.unit = u;
        ctx.idx = 0;
        let t_unit = Instant::now();
        // mark "between cases" so that a crash in enumeration code is not attributed to a case
        shm.cell(wid, 0).store(u, Ordering::Relaxed);
        shm.cell(wid, 1).store(u64::MAX, Ordering::Relaxed);
        shm.cell(wid, 2).fetch_add(1, Ordering::Relaxed);
        check.run_unit(tier, u, &mut ctx);
        ctx.unit_ms = t_unit.elapsed().as_millis() as u64;
        ctx.flush_unit();
    }
    ctx.flush_end();
    let _ = ctx.id;
    0
}

/// enumerate every unit without executing anything and return the number of generated cases per unit
/// (planning aid for choosing bounds; uses threads, no isolation needed because nothing is executed)
pub fn count_cases(check: &(dyn Check + Sync), tier: Tier) -> Vec<u64> {
    let units = check.units(tier);
    let next = AtomicU64::new(0);
    let out = Mutex::new(vec![0u64; units as usize]);
    let n = std::thread::available_parallelism().map(|n| n.get()).unwrap_or(4);
    std::thread::scope(|sc| {
        for _ in 0..n {
            sc.spawn(|| loop {
                let u = next.fetch_add(1, Ordering::Relaxed);
                if u >= units {
                    break;
                }
                let mut ctx = Ctx::new(check.id(), None, 0, Mode::Single { unit: u64::MAX, idx: 0 }, Box::new(std::io::sink()));
                ctx.unit = u;
                ctx.idx = 0;
                check.run_unit(tier, u, &mut ctx);
                out.lock().unwrap()[u as usize] = ctx.idx;
            });
        }
    });
    out.into_inner().unwrap()
}

/// run exactly one case in this process (no isolation), twice, and demand identical reports
pub fn single_case(check: &dyn Check, tier: Tier, unit: u64, idx: u64) -> (Vec<String>, bool) {
    install_panic_hook();
    let mut reports = vec![];
    for _ in 0..2 {
        let mut ctx = Ctx::new(
            check.id(),
            None,
            0,
            Mode::Single { unit, idx },
            Box::new(std::io::sink()),
        );
        ctx.unit = unit;
        ctx.idx = 0;
        check.run_unit(tier, unit, &mut ctx);
        reports.push(ctx.single_report.clone());
    }
    let same = reports[0] == reports[1];
    (reports.remove(0), same)
}

// ------------------------------------------------------------------------------------------
// supervisor side

#[derive(Default)]
struct Agg {
    states: u64,
    transitions: u64,
    evals: u64,
    nontrivial: u64,
    dups: u64,
    units_done: BTreeSet<u64>,
    outcomes: BTreeSet<String>,
    reach: BTreeMap<String, u64>,
    samples: Vec<String>,
    largest: (u64, String),
    // sig -> (rank, unit, idx, shape, text, detail, count)
    viol: BTreeMap<String, (u64, u64, u64, String, String, String, u64)>,
    ended: HashSet<usize>,
    unit_ms: Vec<(u64, u64, u64, u64)>,
    stderr_tail: BTreeMap<usize, Vec<String>>,
}

fn absorb(agg: &mut Agg, wid: usize, line: &str) {
    let f: Vec<&str> = line.split('\t').collect();
    match f[0] {
        "U" if f.len() >= 7 => {
            agg.units_done.insert(f[1].parse().unwrap_or(0));
            agg.states += f[2].parse::<u64>().unwrap_or(0);
            agg.transitions += f[3].parse::<u64>().unwrap_or(0);
            agg.evals += f[4].parse::<u64>().unwrap_or(0);
            agg.nontrivial += f[5].parse::<u64>().unwrap_or(0);
            agg.dups += f[6].parse::<u64>().unwrap_or(0);
            if f.len() >= 8 {
                agg.unit_ms.push((f[7].parse::<u64>().unwrap_or(0), f[1].parse().unwrap_or(0), f[2].parse::<u64>().unwrap_or(0), f[3].parse::<u64>().unwrap_or(0)));
            }
        }
        "O" if f.len() >= 2 => {
            agg.outcomes.insert(unesc(f[1]));
        }
        "R" if f.len() >= 3 => {
            *agg.reach.entry(unesc(f[1])).or_insert(0) += f[2].parse::<u64>().unwrap_or(0);
        }
        "S" if f.len() >= 2 => {
            if agg.samples.len() < 12 {
                agg.samples.push(unesc(f[1]));
            }
        }
        "L" if f.len() >= 3 => {
            let n: u64 = f[1].parse().unwrap_or(0);
            if n > agg.largest.0 {
                agg.largest = (n, unesc(f[2]));
            }
        }
        "V" if f.len() >= 8 => {
            let sig = unesc(f[1]);
            let rank: u64 = f[2].parse().unwrap_or(u64::MAX);
            let unit: u64 = f[3].parse().unwrap_or(0);
            let idx: u64 = f[4].parse().unwrap_or(0);
            let e = agg.viol.entry(sig).or_insert((
                u64::MAX,
                0,
                0,
                String::new(),
                String::new(),
                String::new(),
                0,
            ));
            e.6 += 1;
            if (rank, unit, idx) < (e.0, e.1, e.2) {
                e.0 = rank;
                e.1 = unit;
                e.2 = idx;
                e.3 = unesc(f[5]);
                e.4 = unesc(f[6]);
                e.5 = unesc(f[7]);
            }
        }
        "E" => {
            agg.ended.insert(wid);
        }
        _ => {}
    }
}

pub struct Known {
    /// (property, sig, text)
    pub findings: Vec<(String, String, String)>,
}

pub fn load_known(path: &str) -> Known {
    let mut findings = vec![];
    if let Ok(s) = std::fs::read_to_string(path) {
        for l in s.lines() {
            let l = l.trim();
            if let Some(rest) = l.strip_prefix("finding:") {
                // finding: property=C07 sig="...." :: text
                let rest = rest.trim();
                let prop = rest
                    .split_whitespace()
                    .find_map(|w| w.strip_prefix("property="))
                    .unwrap_or("")
                    .to_string();
                let sig = rest
                    .find("sig=\"")
                    .and_then(|p| {
                        let r = &rest[p + 5..];
                        r.find("\" ::").map(|q| r[..q].to_string())
                    })
                    .unwrap_or_default();
                let text = rest.split(" :: ").nth(1).unwrap_or("").to_string();
                if !prop.is_empty() && !sig.is_empty() {
                    findings.push((prop, sig, text));
                }
            }
        }
    }
    Known { findings }
}

pub fn verif_dir() -> String {
    std::env::var("VERIF_DIR").unwrap_or_else(|_| "/verif".to_string())
}

pub fn supervisor_main(check: &dyn Check, tier: Tier) -> i32 {
    // `label`: the tier that was asked for (evidence, summary line, post-run stage, wall cap); `tier`: the bounds that are enumerated
    let label = tier;
    let tier = if check.quick_is_thorough() { Tier::Thorough } else { tier };
    let t0 = Instant::now();
    let id = check.id();
    let vdir = verif_dir();
    let seed: i64 = std::env::var("VERIF_SEED").ok().and_then(|s| s.parse().ok()).unwrap_or(0);
    let nworkers: usize = std::env::var("VERIF_WORKERS")
        .ok()
        .and_then(|s| s.parse().ok())
        .unwrap_or_else(|| std::thread::available_parallelism().map(|n| n.get()).unwrap_or(4))
        .clamp(1, MAX_WORKERS);
    let wall_cap = Duration::from_secs(
        std::env::var("VERIF_WALL_CAP_S").ok().and_then(|s| s.parse().ok()).unwrap_or(
            if label.is_thorough() { 6 * 3600 } else { 900 },
        ),
    );
    let units = check.units(tier);
    let bits = check.dedup_bits(tier);
    let shm = Arc::new(Shm::create(bits));
    let exe = own_exe();
    let agg = Arc::new(Mutex::new(Agg::default()));
    let watchdog = Duration::from_secs(check.watchdog_s(tier));

    struct W {
        child: std::process::Child,
        last_beat: u64,
        last_change: Instant,
        readers: Vec<std::thread::JoinHandle<()>>,
    }
    let spawn = |wid: usize, resume: Option<(u64, u64, i32)>| -> W {
        let mut cmd = Command::new(&exe);
        cmd.arg("worker").arg(id).arg(tier.name()).arg(wid.to_string()).arg(shm.fd.to_string()).arg(bits.to_string());
        if let Some((u, i, s)) = resume {
            cmd.arg(u.to_string()).arg(i.to_string()).arg(s.to_string());
        }
        cmd.stdin(Stdio::null()).stdout(Stdio::piped()).stderr(Stdio::piped());
        let mut child = cmd.spawn().expect("spawn worker");
        let so = child.stdout.take().unwrap();
        let se = child.stderr.take().unwrap();
        let a1 = agg.clone();
        let r1 = std::thread::spawn(move || {
            for line in BufReader::new(so).lines() {
                match line {
                    Ok(l) => absorb(&mut a1.lock().unwrap(), wid, &l),
                    Err(_) => break,
                }
            }
        });
        let a2 = agg.clone();
        let r2 = std::thread::spawn(move || {
            for line in BufReader::new(se).lines() {
                match line {
                    Ok(l) => {
                        let mut a = a2.lock().unwrap();
                        let t = a.stderr_tail.entry(wid).or_default();
                        t.push(l);
                        if t.len() > 12 {
                            t.remove(0);
                        }
                    }
                    Err(_) => break,
                }
            }
        });
        W { child, last_beat: u64::MAX, last_change: Instant::now(), readers: vec![r1, r2] }
    };

    let mut workers: Vec<Option<W>> = (0..nworkers).map(|w| Some(spawn(w, None))).collect();
    let mut crashes = 0u64;
    let mut machinery_errors: Vec<String> = vec![];
    let mut cap_hit = false;
    let crash_cap = 200u64;
    loop {
        let mut alive = 0;
        for wid in 0..nworkers {
            let mut respawn: Option<Option<(u64, u64, i32)>> = None;
            if let Some(w) = workers[wid].as_mut() {
                match w.child.try_wait() {
                    Ok(Some(st)) => {
                        for r in w.readers.drain(..) {
                            let _ = r.join();
                        }
                        use std::os::unix::process::ExitStatusExt;
                        let ended = agg.lock().unwrap().ended.contains(&wid);
                        if let Some(sig) = st.signal() {
                            let unit = shm.cell(wid, 0).load(Ordering::Relaxed);
                            let idx = shm.cell(wid, 1).load(Ordering::Relaxed);
                            crashes += 1;
                            if idx == u64::MAX {
                                let tail = agg.lock().unwrap().stderr_tail.get(&wid).cloned().unwrap_or_default();
                                machinery_errors.push(format!(
                                    "worker {} died with signal {} outside of a case (unit {}): {}",
                                    wid, sig, unit, tail.join(" | ")
                                ));
                                respawn = Some(None);
                            } else if crashes > crash_cap {
                                machinery_errors.push(format!("more than {} worker crashes, giving up", crash_cap));
                                workers[wid] = None;
                                continue;
                            } else {
                                respawn = Some(Some((unit, idx, sig)));
                            }
                        } else if st.success() && ended {
                            workers[wid] = None;
                            continue;
                        } else {
                            let tail = agg.lock().unwrap().stderr_tail.get(&wid).cloned().unwrap_or_default();
                            machinery_errors.push(format!(
                                "worker {} exited abnormally ({:?}): {}",
                                wid, st, tail.join(" | ")
                            ));
                            workers[wid] = None;
                            continue;
                        }
                    }
                    Ok(None) => {
                        alive += 1;
                        let beat = shm.cell(wid, 2).load(Ordering::Relaxed);
                        if beat != w.last_beat {
                            w.last_beat = beat;
                            w.last_change = Instant::now();
                        } else if w.last_change.elapsed() > watchdog {
                            let unit = shm.cell(wid, 0).load(Ordering::Relaxed);
                            let idx = shm.cell(wid, 1).load(Ordering::Relaxed);
                            let _ = w.child.kill();
                            let _ = w.child.wait();
                            for r in w.readers.drain(..) {
                                let _ = r.join();
                            }
                            crashes += 1;
                            if idx == u64::MAX {
                                machinery_errors.push(format!(
                                    "worker {} hung outside of a case (unit {})", wid, unit
                                ));
                                respawn = Some(None);
                            } else {
                                respawn = Some(Some((unit, idx, -1)));
                            }
                        }
                    }
                    Err(e) => {
                        machinery_errors.push(format!("try_wait: {}", e));
                        workers[wid] = None;
                        continue;
                    }
                }
            }
            if let Some(r) = respawn {
                if machinery_errors.len() > 20 {
                    workers[wid] = None;
                } else {
                    workers[wid] = Some(spawn(wid, r));
                    alive += 1;
                }
            }
        }
        if alive == 0 {
            break;
        }
        if t0.elapsed() > wall_cap && !cap_hit {
            cap_hit = true;
            shm.stop().store(1, Ordering::Relaxed);
        }
        std::thread::sleep(Duration::from_millis(20));
    }

    let agg: Agg = {
        let mut guard = agg.lock().unwrap();
        std::mem::take(&mut *guard)
    };
    let exhaustive = !cap_hit && agg.units_done.len() as u64 == units && crashes == 0;
    if !cap_hit && (agg.units_done.len() as u64) < units && crashes == 0 && machinery_errors.is_empty() {
        machinery_errors.push(format!("only {} of {} units reported", agg.units_done.len(), units));
    }

    // vacuity guard
    for k in check.expect_reach(tier) {
        if !agg.reach.contains_key(&k) && !cap_hit {
            machinery_errors.push(format!("vacuity guard: expected outcome class `{}` was never reached", k));
        }
    }

    // optional second stage
    let post = check.post_run(label);
    let mut agg = agg;
    let mut post_cov: Vec<(String, String)> = vec![];
    let mut post_assumptions: Vec<String> = vec![];
    if let Some(p) = post {
        for (sig, detail, text) in p.violations {
            let e = agg.viol.entry(sig).or_insert((u64::MAX, 0, 0, String::new(), String::new(), String::new(), 0));
            e.6 += 1;
            if e.4.is_empty() {
                e.0 = 0;
                e.3 = "post-run stage".into();
                e.4 = text;
                e.5 = detail;
            }
        }
        machinery_errors.extend(p.machinery_errors);
        post_cov = p.coverage;
        post_assumptions = p.assumptions;
    }
    // violations vs known findings
    let known = load_known(&format!("{}/known_findings.txt", vdir));
    let mut new_viol = vec![];
    let mut known_hit = vec![];
    for (sig, v) in agg.viol.iter() {
        if let Some(k) = known.findings.iter().find(|k| k.0 == id && &k.1 == sig) {
            known_hit.push((sig.clone(), k.2.clone(), v.6));
        } else {
            new_viol.push((sig.clone(), v.clone()));
        }
    }
    let rdir = format!("{}/replays/{}", vdir, id);
    let mut out_lines = vec![];
    if !new_viol.is_empty() {
        let _ = std::fs::create_dir_all(&rdir);
    }
    for (sig, v) in &new_viol {
        let path = format!("{}/{:016x}.json", rdir, fnv_str(sig));
        let body = format!(
            "{{\n \"property\": {},\n \"tier\": {},\n \"sig\": {},\n \"unit\": {},\n \"case\": {},\n \"rank\": {},\n \"cases_with_this_sig\": {},\n \"shape\": {},\n \"input\": {},\n \"detail\": {},\n \"replay_cmd\": {}\n}}\n",
            jstr(id), jstr(tier.name()), jstr(sig), v.1, v.2, v.0, v.6, jstr(&v.3), jstr(&v.4), jstr(&v.5),
            jstr(&format!("./check replay {}", path))
        );
        let _ = std::fs::write(&path, body);
        out_lines.push(format!("VIOLATION property={} replay={}", id, path));
        out_lines.push(format!("  sig: {}", sig));
        out_lines.push(format!("  detail: {}", v.5));
        out_lines.push(format!("  input: {}", truncate(&v.4, 600)));
        out_lines.push(format!("  ({} cases share this signature)", v.6));
    }
    for (sig, text, n) in &known_hit {
        out_lines.push(format!("KNOWN-FINDING: property={} {} [sig={} cases={}]", id, text, sig, n));
    }

    // evidence
    let wall = t0.elapsed().as_secs_f64();
    let mut samples: Vec<String> = agg.samples.iter().take(8).cloned().collect();
    if agg.largest.0 > 0 {
        samples.push(format!("largest ({}): {}", agg.largest.0, agg.largest.1));
    }
    if samples.is_empty() {
        samples.push("(no case was executed)".into());
    }
    let mut ev = String::new();
    ev.push_str("{\n");
    ev.push_str(&format!(" \"property_id\": {},\n", jstr(id)));
    ev.push_str(&format!(" \"tier\": {},\n", jstr(label.name())));
    ev.push_str(&format!(" \"seed\": {},\n", seed));
    ev.push_str(&format!(" \"level\": {},\n", jstr(check.level())));
    ev.push_str(" \"coverage\": {\n");
    ev.push_str(&format!("  \"states\": {},\n", agg.states));
    ev.push_str(&format!("  \"transitions\": {},\n", agg.transitions));
    ev.push_str(&format!("  \"traces_validated_against_impl\": {},\n", agg.states));
    ev.push_str(&format!("  \"evaluations\": {},\n", agg.evals));
    ev.push_str(&format!("  \"distinct_nontrivial\": {},\n", agg.nontrivial));
    ev.push_str(&format!("  \"duplicates_merged\": {},\n", agg.dups));
    ev.push_str(&format!("  \"distinct_outcomes\": {},\n", agg.outcomes.len()));
    ev.push_str(&format!("  \"work_units\": {},\n", units));
    ev.push_str(&format!("  \"work_units_completed\": {},\n", agg.units_done.len()));
    ev.push_str(&format!("  \"exhaustive\": {},\n", exhaustive));
    ev.push_str(&format!("  \"cap_hit\": {},\n", cap_hit));
    ev.push_str(&format!("  \"worker_crashes\": {},\n", crashes));
    for (k, v) in check.coverage_extra(tier).into_iter().chain(post_cov.into_iter()) {
        ev.push_str(&format!("  {}: {},\n", jstr(&k), jstr(&v)));
    }
    ev.push_str(&format!("  \"rule\": {},\n", jstr(&check.rule(tier))));
    ev.push_str("  \"reach\": {");
    let mut first = true;
    for (k, v) in agg.reach.iter() {
        if !first {
            ev.push(',');
        }
        first = false;
        ev.push_str(&format!("\n   {}: {}", jstr(k), v));
    }
    ev.push_str("\n  },\n");
    ev.push_str("  \"outcome_signatures\": [");
    for (i, o) in agg.outcomes.iter().take(400).enumerate() {
        if i > 0 {
            ev.push(',');
        }
        ev.push_str(&format!("\n   {}", jstr(o)));
    }
    ev.push_str("\n  ],\n");
    ev.push_str("  \"samples\": [");
    for (i, s) in samples.iter().enumerate() {
        if i > 0 {
            ev.push(',');
        }
        ev.push_str(&format!("\n   {}", jstr(&truncate(s, 1500))));
    }
    ev.push_str("\n  ]\n },\n");
    ev.push_str(" \"assumptions\": [");
    let mut assumptions = check.assumptions(tier);
    if check.quick_is_thorough() && !label.is_thorough() {
        assumptions.push("the complete bounds of this check take seconds: the quick tier enumerates the same space as the thorough tier".into());
    }
    assumptions.extend(post_assumptions);
    assumptions.push("the enumeration is deterministic; VERIF_SEED is recorded but unused because nothing is random".into());
    if bits > 0 {
        assumptions.push("cases are merged on a 64-bit hash of their canonical byte form; a hash collision would silently skip one case".into());
    }
    for (i, s) in assumptions.iter().enumerate() {
        if i > 0 {
            ev.push(',');
        }
        ev.push_str(&format!("\n  {}", jstr(s)));
    }
    ev.push_str("\n ],\n");
    ev.push_str(&format!(" \"known_findings_observed\": {},\n", known_hit.len()));
    ev.push_str(&format!(" \"machinery_errors\": {},\n", machinery_errors.len()));
    ev.push_str(&format!(" \"wall_s\": {:.3},\n", wall));
    ev.push_str(&format!(" \"violations\": {}\n", new_viol.len()));
    ev.push_str("}\n");
    let _ = std::fs::create_dir_all(format!("{}/evidence", vdir));
    let epath = format!("{}/evidence/{}.json", vdir, id);
    if let Err(e) = std::fs::write(&epath, ev) {
        machinery_errors.push(format!("cannot write {}: {}", epath, e));
    }

    for l in &out_lines {
        println!("{}", l);
    }
    println!(
        "{} {}: units={}/{} states={} transitions={} evaluations={} nontrivial={} outcomes={} dups={} crashes={} exhaustive={} wall={:.1}s",
        id, label.name(), agg.units_done.len(), units, agg.states, agg.transitions, agg.evals, agg.nontrivial,
        agg.outcomes.len(), agg.dups, crashes, exhaustive, wall
    );
    if std::env::var("VERIF_PROFILE").is_ok() {
        let mut v = agg.unit_ms.clone();
        v.sort();
        v.reverse();
        let total: u64 = v.iter().map(|x| x.0).sum();
        println!("profile: total unit time {} ms over {} units; slowest:", total, v.len());
        if let Ok(b) = std::env::var("VERIF_PROFILE_BOUNDS") {
            let bs: Vec<u64> = b.split(',').filter_map(|x| x.parse().ok()).collect();
            let mut lo = 0u64;
            for hi in bs.iter().chain(std::iter::once(&u64::MAX)) {
                let (mut ms, mut st, mut tr) = (0u64, 0u64, 0u64);
                for x in v.iter().filter(|x| x.1 >= lo && x.1 < *hi) {
                    ms += x.0;
                    st += x.2;
                    tr += x.3;
                }
                println!("  units [{},{}): {} ms, {} states, {} transitions", lo, hi, ms, st, tr);
                lo = *hi;
            }
        }
        for (ms, u, st, tr) in v.iter().take(25) {
            println!("  unit {:5}: {:7} ms  states {:9} transitions {:9}", u, ms, st, tr);
        }
    }
    if !machinery_errors.is_empty() && new_viol.is_empty() {
        for m in &machinery_errors {
            eprintln!("MACHINERY-ERROR: {}", m);
        }
        return 2;
    }
    for m in &machinery_errors {
        eprintln!("MACHINERY-ERROR: {}", m);
    }
    if !new_viol.is_empty() {
        1
    } else {
        0
    }
}

pub fn truncate(s: &str, n: usize) -> String {
    if s.len() <= n {
        s.to_string()
    } else {
        let mut e = n;
        while !s.is_char_boundary(e) {
            e -= 1;
        }
        format!("{}…(+{} bytes)", &s[..e], s.len() - e)
    }
}

/// minimal reader for the replay files written above (flat JSON object of strings/numbers)
pub fn read_replay(path: &str) -> Option<(String, String, u64, u64)> {
    let s = std::fs::read_to_string(path).ok()?;
    let get_str = |k: &str| -> Option<String> {
        let p = s.find(&format!("\"{}\": \"", k))?;
        let r = &s[p + k.len() + 5..];
        let mut out = String::new();
        let mut it = r.chars();
        while let Some(c) = it.next() {
            match c {
                '\\' => {
                    if let Some(n) = it.next() {
                        out.push(n);
                    }
                }
                '"' => break,
                c => out.push(c),
            }
        }
        Some(out)
    };
    let get_num = |k: &str| -> Option<u64> {
        let p = s.find(&format!("\"{}\": ", k))?;
        let r = &s[p + k.len() + 4..];
        let e = r.find(|c: char| !c.is_ascii_digit()).unwrap_or(r.len());
        r[..e].parse().ok()
    };
    Some((get_str("property")?, get_str("tier")?, get_num("unit")?, get_num("case")?))
}
