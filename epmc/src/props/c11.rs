//! C11 — fragments reassemble to the original payload in any arrival order.
//!
//! Explicit-state exploration of delivery histories. The transition function calls the REAL
//! `IpDefragPool::process_sliced_packet` / `return_buf` / `retain` (first model) and the real
//! `IpDefragBuf::add` (second model); next to the real object an independent reference
//! (byte map + end per stream) is advanced and compared after EVERY delivery.
//!
//! Layout of the work units (see `C11::layout`):
//!   * 2 units: second model (`IpDefragBuf::add`, clean / dirty start buffer), BFS with a visited set
//!   * 1 unit per scenario of the pool model; inside a unit one case per first event, the
//!     visited set is shared by the cases of the unit (so every canonical state is expanded once)
//!   * cross-check units: the same scenario explored by the hand-rolled DFS and by `stateright`
//!     (DFS and BFS checker); the unique state and transition counts must coincide.
//!
//! Packets are assembled byte by byte below (Ethernet II, 802.1Q/802.1ad tags, IPv4 header,
//! IPv6 header + fragment extension header); `PacketBuilder` is not used.

use crate::fw::*;
use etherparse::defrag::*;
use etherparse::*;
use std::collections::{BTreeMap, HashSet};
use std::hash::{Hash, Hasher};

pub struct C11;

/// timestamp type = label of the datagram whose stream the packet belongs to (a function of the
/// stream key, so it is not extra state); channel id = u8
type Pool = IpDefragPool<u8, u8>;
const STALE: u8 = 0xEE;

// ---------------------------------------------------------------------------------------------
// packet assembly (no etherparse code involved)

#[derive(Clone, Debug, PartialEq, Eq, PartialOrd, Ord, Hash)]
struct SKey {
    vlans: Vec<u16>,
    v6: bool,
    src: Vec<u8>,
    dst: Vec<u8>,
    ident: u32,
    proto: u8,
    chan: u8,
    /// "jitter": the fragments differ in header bits that are NOT part of the stream identity and that a receiver has
    /// to ignore (IPv4 DSCP/ECN and TTL, IPv6 traffic class / flow label / hop limit, the reserved byte and the two
    /// reserved bits of the IPv6 fragment header (RFC 8200 4.5: "ignored on reception"), VLAN PCP/DEI)
    jit: bool,
    /// IPv4 only: every fragment carries a 12 byte authentication header (protocol field 51, AH next header = `proto`).
    /// `SlicedPacket` presents the bytes behind it as IP payload with `proto` as protocol number, and that is what the
    /// pool is documented to work on
    ah: bool,
}

#[derive(Clone, Copy, Debug, PartialEq, Eq)]
enum Link {
    Eth,
    Ip,
}

fn csum16(h: &[u8]) -> u16 {
    let mut s = 0u32;
    for c in h.chunks(2) {
        s += u16::from_be_bytes([c[0], if c.len() > 1 { c[1] } else { 0 }]) as u32;
    }
    while s >> 16 != 0 {
        s = (s & 0xffff) + (s >> 16);
    }
    !(s as u16)
}

/// IPv4 header (20 bytes, no options) + payload
fn ipv4_bytes(k: &SKey, off_units: u16, mf: bool, payload: &[u8]) -> Vec<u8> {
    assert!(!k.v6 && off_units < 0x2000);
    let tl = (20 + if k.ah { 12 } else { 0 } + payload.len()) as u16;
    let j = if k.jit { (off_units as u8).wrapping_mul(5).wrapping_add(if mf { 0 } else { 0x83 }) } else { 0 };
    let mut h = vec![0x45, j];
    h.extend_from_slice(&tl.to_be_bytes());
    h.extend_from_slice(&(k.ident as u16).to_be_bytes());
    let fo = off_units | if mf { 0x2000 } else { 0 };
    h.extend_from_slice(&fo.to_be_bytes());
    h.push(64 - (j & 31));
    h.push(if k.ah { 51 } else { k.proto });
    h.extend_from_slice(&[0, 0]);
    h.extend_from_slice(&k.src);
    h.extend_from_slice(&k.dst);
    let c = csum16(&h);
    h[10..12].copy_from_slice(&c.to_be_bytes());
    if k.ah {
        // next header, payload len (in 4 byte units - 2), reserved, SPI, sequence number; no ICV
        h.extend_from_slice(&[k.proto, 1, 0, 0, 0, 0, 1, 0, 0, 0, 0, off_units as u8]);
    }
    h.extend_from_slice(payload);
    h
}

/// IPv6 header + (optionally) fragment extension header + payload
fn ipv6_bytes(k: &SKey, frag: Option<(u16, bool)>, payload: &[u8]) -> Vec<u8> {
    assert!(k.v6);
    // jitter scenarios: the unfragmentable part carries a hop-by-hop options header in front of the fragment header
    // (RFC 8200 4.5: per-fragment headers precede the fragment header in every fragment)
    let hbh = k.jit && frag.is_some();
    let pl = (payload.len() + if frag.is_some() { 8 } else { 0 } + if hbh { 8 } else { 0 }) as u16;
    let j = match (k.jit, frag) {
        (true, Some((o, mf))) => (o as u8).wrapping_mul(5).wrapping_add(if mf { 0 } else { 0x83 }),
        (true, None) => 0x5a,
        _ => 0,
    };
    let mut h = vec![0x60 | (j >> 4), (j << 4) | (j & 0x0f), j, j ^ 0xff];
    if !k.jit {
        h[3] = 0;
    }
    h.extend_from_slice(&pl.to_be_bytes());
    h.push(if hbh { 0 } else if frag.is_some() { 44 } else { k.proto });
    h.push(64 - (j & 31));
    h.extend_from_slice(&k.src);
    h.extend_from_slice(&k.dst);
    if hbh {
        // next header = fragment, length 0 (8 bytes), one PadN option of 6 bytes
        h.extend_from_slice(&[44, 0, 1, 4, 0, 0, 0, 0]);
    }
    if let Some((off_units, mf)) = frag {
        assert!(off_units < 0x2000);
        h.push(k.proto);
        // reserved byte and reserved bits 1..2 of the offset word: all ones on the last fragment (M = 0) and on every
        // second other fragment when jitter is on
        let res = k.jit && (!mf || off_units % 2 == 0);
        h.push(if res { 0xff } else { 0 });
        let v = (off_units << 3) | if mf { 1 } else { 0 } | if res { 0b110 } else { 0 };
        h.extend_from_slice(&v.to_be_bytes());
        h.extend_from_slice(&k.ident.to_be_bytes());
    }
    h.extend_from_slice(payload);
    h
}

/// Ethernet II + VLAN tags in front of an IP packet (or nothing for `Link::Ip`)
fn frame(k: &SKey, link: Link, ip: Vec<u8>) -> Vec<u8> {
    if link == Link::Ip {
        assert!(k.vlans.is_empty());
        return ip;
    }
    let mut f = vec![0x02, 0, 0, 0, 0, 0x02, 0x02, 0, 0, 0, 0, 0x01];
    let n = k.vlans.len();
    for (i, v) in k.vlans.iter().enumerate() {
        let et: u16 = if n >= 2 && i == 0 { 0x88a8 } else { 0x8100 };
        f.extend_from_slice(&et.to_be_bytes());
        let pcp_dei: u16 = if k.jit { (((ip.len() as u16) % 8) << 13) | (((i as u16) & 1) << 12) } else { 0 };
        f.extend_from_slice(&((v & 0x0fff) | pcp_dei).to_be_bytes());
    }
    f.extend_from_slice(&(if k.v6 { 0x86ddu16 } else { 0x0800 }).to_be_bytes());
    f.extend_from_slice(&ip);
    f
}

fn frag_packet(k: &SKey, link: Link, off: u16, mf: bool, payload: &[u8]) -> Vec<u8> {
    assert!(off % 8 == 0);
    let ip = if k.v6 { ipv6_bytes(k, Some((off / 8, mf)), payload) } else { ipv4_bytes(k, off / 8, mf, payload) };
    frame(k, link, ip)
}

/// the key as the crate prints it (only used to find a stream in the sorted snapshot)
fn keystr(k: &SKey) -> String {
    let mut id = IpFragId::<u8> {
        vlan_ids: Default::default(),
        ip: if k.v6 {
            IpFragVersionSpecId::Ipv6 { source: k.src.clone().try_into().unwrap(), destination: k.dst.clone().try_into().unwrap(), identification: k.ident }
        } else {
            IpFragVersionSpecId::Ipv4 { source: k.src.clone().try_into().unwrap(), destination: k.dst.clone().try_into().unwrap(), identification: k.ident as u16 }
        },
        payload_ip_number: IpNumber(k.proto),
        channel_id: k.chan,
    };
    for v in &k.vlans {
        id.vlan_ids.push(VlanId::try_new(*v).unwrap());
    }
    format!("{:?}", id)
}

// ---------------------------------------------------------------------------------------------
// datagrams, events, scenarios

#[derive(Clone)]
struct Dg {
    label: &'static str,
    key: SKey,
    link: Link,
    base: u8,
    payload: Vec<u8>,
    /// fragment lengths in bytes
    parts: Vec<usize>,
    ts: u8,
}

fn pat(base: u8, pos: usize) -> u8 {
    base.wrapping_add(pos as u8)
}

#[derive(Clone)]
struct PktEv {
    bytes: Vec<u8>,
    link: Link,
    key: SKey,
    off: u16,
    mf: bool,
    payload: Vec<u8>,
    ts: u8,
    /// Some(d): genuine fragment of datagram d
    dg: Option<usize>,
}

#[derive(Clone)]
struct PassPkt {
    name: &'static str,
    bytes: Vec<u8>,
    link: Link,
    chan: u8,
}

#[derive(Clone)]
enum Ev {
    Pkt(PktEv),
    Pass(Vec<PassPkt>),
    ReturnBuf,
    /// None = evict everything, Some(t) = evict the streams with timestamp t
    Evict(Option<u8>),
}

#[derive(Clone)]
struct Scn {
    group: String,
    name: String,
    dgs: Vec<Dg>,
    evs: Vec<Ev>,
    /// name of event (with values), kind of event (without values)
    names: Vec<String>,
    kinds: Vec<String>,
    mult: Vec<u8>,
    depth: usize,
    keystrs: BTreeMap<SKey, String>,
    /// payload a FRESH pool returns for the in-order delivery of each datagram (differential base)
    fresh: Vec<Option<Vec<u8>>>,
}

impl Scn {
    fn new(group: &str, name: String, depth: usize) -> Scn {
        Scn { group: group.into(), name, dgs: vec![], evs: vec![], names: vec![], kinds: vec![], mult: vec![], depth, keystrs: BTreeMap::new(), fresh: vec![] }
    }
    fn push(&mut self, ev: Ev, name: String, kind: String, mult: u8) {
        if let Ev::Pkt(p) = &ev {
            if !self.keystrs.contains_key(&p.key) {
                self.keystrs.insert(p.key.clone(), keystr(&p.key));
            }
        }
        self.evs.push(ev);
        self.names.push(name);
        self.kinds.push(kind);
        self.mult.push(mult);
    }
    /// add a datagram and its genuine fragments
    fn add_dg(&mut self, dg: Dg, mult: u8) {
        let d = self.dgs.len();
        let mut off = 0usize;
        let n = dg.parts.len();
        for (i, l) in dg.parts.iter().enumerate() {
            let mf = i + 1 < n;
            let payload = dg.payload[off..off + l].to_vec();
            let bytes = frag_packet(&dg.key, dg.link, off as u16, mf, &payload);
            self.push(
                Ev::Pkt(PktEv { bytes, link: dg.link, key: dg.key.clone(), off: off as u16, mf, payload, ts: dg.ts, dg: Some(d) }),
                format!("{}{}[{}..{}{}]", dg.label, i, off, off + l, if mf { ",MF" } else { ",last" }),
                format!("{}-frag", dg.label),
                mult,
            );
            off += l;
        }
        assert_eq!(off, dg.payload.len());
        self.dgs.push(dg);
    }
    /// fault fragments aimed at the stream of datagram `d`
    fn add_faults(&mut self, d: usize) {
        let dg = self.dgs[d].clone();
        // (name, offset, len, more_fragments)
        let faults: [(&str, usize, usize, bool); 5] = [
            ("end-high", 32, 16, false), // a second "last" fragment ending at 48
            ("end-low", 8, 8, false),    // a "last" fragment ending at 16 (below the real end / below buffered data)
            ("beyond", 40, 8, true),     // data behind the end of the datagram
            ("unaligned", 8, 5, true),   // non-last fragment whose length is not a multiple of 8
            ("too-big", 65528, 8, true), // offset + len = 65536
        ];
        for (nm, off, len, mf) in faults {
            let payload: Vec<u8> = (off..off + len).map(|p| pat(dg.base, p)).collect();
            let bytes = frag_packet(&dg.key, dg.link, off as u16, mf, &payload);
            self.push(
                Ev::Pkt(PktEv { bytes, link: dg.link, key: dg.key.clone(), off: off as u16, mf, payload, ts: dg.ts, dg: None }),
                format!("{}!{}[{}..{}{}]", dg.label, nm, off, off + len, if mf { ",MF" } else { ",last" }),
                format!("fault:{}", nm),
                1,
            );
        }
    }
    /// packets that are no fragments: all of them are delivered by ONE event (none may change the pool)
    fn add_pass(&mut self, k4: &SKey, link4: Link, k6: &SKey, link6: Link) {
        let udp = |n: usize| -> Vec<u8> {
            let mut u = vec![0x12, 0x34, 0x00, 0x35];
            u.extend_from_slice(&((8 + n) as u16).to_be_bytes());
            u.extend_from_slice(&[0, 0]);
            u.extend((0..n).map(|i| 0x40 + i as u8));
            u
        };
        let mut k4u = k4.clone();
        k4u.proto = 17;
        let mut k6u = k6.clone();
        k6u.proto = 17;
        let mut v = vec![
            PassPkt { name: "ipv4-unfragmented(same id as A)", bytes: frame(&k4u, link4, ipv4_bytes(&k4u, 0, false, &udp(16))), link: link4, chan: k4.chan },
            PassPkt { name: "ipv6-without-fragment-header", bytes: frame(&k6u, link6, ipv6_bytes(&k6u, None, &udp(16))), link: link6, chan: k6.chan },
            PassPkt { name: "ipv6-atomic-fragment(offset 0, M=0)", bytes: frame(&k6u, link6, ipv6_bytes(&k6u, Some((0, false)), &udp(16))), link: link6, chan: k6.chan },
        ];
        // ARP request and a frame with an unknown ether type
        let mut arp = vec![0xff, 0xff, 0xff, 0xff, 0xff, 0xff, 0x02, 0, 0, 0, 0, 0x01, 0x08, 0x06];
        arp.extend_from_slice(&[0, 1, 8, 0, 6, 4, 0, 1, 2, 0, 0, 0, 0, 1, 10, 0, 0, 1, 0, 0, 0, 0, 0, 0, 10, 0, 0, 2]);
        v.push(PassPkt { name: "arp", bytes: arp, link: Link::Eth, chan: k4.chan });
        let mut unk = vec![0x02, 0, 0, 0, 0, 0x02, 0x02, 0, 0, 0, 0, 0x01, 0x88, 0xb5];
        unk.extend_from_slice(&[1, 2, 3, 4, 5, 6, 7, 8]);
        v.push(PassPkt { name: "unknown-ether-type", bytes: unk, link: Link::Eth, chan: k4.chan });
        self.push(Ev::Pass(v), "pass(5 non-fragment packets)".into(), "pass".into(), 1);
    }
    fn describe(&self) -> String {
        let mut s = format!("scenario {} (depth <= {}): ", self.name, self.depth);
        for d in &self.dgs {
            s.push_str(&format!("datagram {} key={:?} via {:?} payload={} cut {:?}; ", d.label, d.key, d.link, hex(&d.payload), d.parts));
        }
        s.push_str("events: ");
        for (i, e) in self.evs.iter().enumerate() {
            match e {
                Ev::Pkt(p) => s.push_str(&format!("#{} {} x{} chan={} pkt={}; ", i, self.names[i], self.mult[i], p.key.chan, hex(&p.bytes))),
                Ev::Pass(v) => {
                    s.push_str(&format!("#{} pass x{}: ", i, self.mult[i]));
                    for p in v {
                        s.push_str(&format!("{}={} ", p.name, hex(&p.bytes)));
                    }
                    s.push_str("; ");
                }
                _ => s.push_str(&format!("#{} {} x{}; ", i, self.names[i], self.mult[i])),
            }
        }
        s
    }
    fn hist_str(&self, hist: &[usize]) -> String {
        hist.iter().map(|e| self.names[*e].clone()).collect::<Vec<_>>().join(" -> ")
    }
}

/// ordered compositions of `units` into `k` positive parts, lexicographic
fn compositions(units: usize, k: usize) -> Vec<Vec<usize>> {
    if k == 1 {
        return vec![vec![units]];
    }
    let mut out = vec![];
    for first in 1..=units - (k - 1) {
        for mut rest in compositions(units - first, k - 1) {
            let mut v = vec![first];
            v.append(&mut rest);
            out.push(v);
        }
    }
    out
}

const DISCR: [&str; 9] = ["ident", "proto", "vlan-outer", "vlan-inner", "chan", "src", "dst", "v6-ident-hi", "proto-behind-ah"];

#[derive(Clone, Debug, PartialEq)]
enum Group {
    /// A and B differ in exactly the named key component
    Pair(usize),
    /// IPv4 datagram A + IPv6 datagram C (+ pass-through packets)
    V6,
    /// A (IPv4) + fault fragments on A's stream
    Fault4,
    /// C (IPv6) + fault fragments on C's stream
    Fault6,
}

#[derive(Clone, Debug)]
struct Desc {
    group: Group,
    len: usize,
    units: Vec<usize>,
}

thread_local! {
    /// set by `build_scn`: scenarios over the 37 byte payload use header jitter, those over the 40 byte payload do not
    static JIT: std::cell::Cell<bool> = std::cell::Cell::new(false);
}

fn key_a() -> SKey {
    SKey { vlans: vec![], v6: false, src: vec![10, 0, 0, 1], dst: vec![10, 0, 0, 2], ident: 0x1234, proto: 17, chan: 1, jit: JIT.with(|j| j.get()), ah: false }
}
fn key_c() -> SKey {
    let mut s = vec![0xfd, 0, 0, 0, 0, 0, 0, 0, 0, 0, 0, 0, 0, 0, 0, 1];
    let mut d = s.clone();
    d[15] = 2;
    s[14] = 0;
    SKey { vlans: vec![], v6: true, src: s, dst: d, ident: 0x0001_1234, proto: 17, chan: 1, jit: JIT.with(|j| j.get()), ah: false }
}

fn parts_bytes(units: &[usize], len: usize) -> Vec<usize> {
    let mut p: Vec<usize> = units.iter().map(|u| u * 8).collect();
    let total: usize = p.iter().sum();
    *p.last_mut().unwrap() -= total - len;
    p
}

fn build_scn(d: &Desc, tier: Tier) -> Scn {
    let th = tier.is_thorough();
    let depth = if th { 10 } else { 7 };
    JIT.with(|j| j.set(d.len == 37));
    let parts = parts_bytes(&d.units, d.len);
    let cut = d.units.iter().map(|u| u.to_string()).collect::<Vec<_>>().join("+");
    let mk = |label: &'static str, key: SKey, link: Link, base: u8, len: usize, parts: Vec<usize>, ts: u8| Dg { label, key, link, base, payload: (0..len).map(|i| pat(base, i)).collect(), parts, ts };
    match &d.group {
        Group::Pair(di) => {
            let dn = DISCR[*di];
            let mut s = Scn::new(&format!("pair:{}", dn), format!("pair:{}:len{}:cut{}", dn, d.len, cut), depth);
            let (mut ka, link) = if dn == "v6-ident-hi" { (key_c(), Link::Eth) } else { (key_a(), Link::Eth) };
            // baseline VLAN stacking varies with the discriminator so that all stackings occur
            ka.vlans = match dn {
                "proto" | "dst" | "vlan-outer" => vec![5],
                "chan" | "vlan-inner" => vec![5, 7],
                _ => vec![],
            };
            if dn == "proto-behind-ah" {
                ka.ah = true;
            }
            let mut kb = ka.clone();
            match dn {
                "proto-behind-ah" => kb.proto = 6,
                "ident" => kb.ident = 0x1235,
                "proto" => kb.proto = 6,
                "vlan-outer" => kb.vlans = vec![6],
                "vlan-inner" => kb.vlans = vec![5, 8],
                "chan" => kb.chan = 2,
                "src" => kb.src[3] = 3,
                "dst" => kb.dst[3] = 9,
                "v6-ident-hi" => kb.ident = 0x0002_1234,
                _ => unreachable!(),
            }
            let (la, lb): (&'static str, &'static str) = ("A", "B");
            s.add_dg(mk(la, ka.clone(), link, 0x10, d.len, parts.clone(), 0), 2);
            s.add_dg(mk(lb, kb, link, 0x80, d.len, parts.clone(), 1), 2);
            if th && parts.len() <= 3 {
                // third datagram: the other IP version, two fragments (4-piece cuts already give 8 fragments)
                let mut kc = if ka.v6 { key_a() } else { key_c() };
                kc.vlans = ka.vlans.clone();
                s.add_dg(mk("C", kc, link, 0xc0, 16, vec![8, 8], 2), 2);
            }
            s.push(Ev::ReturnBuf, "return_buf(oldest, filled 0xEE)".into(), "return-buf".into(), 2);
            s.push(Ev::Evict(None), "retain(|_| false)".into(), "evict-all".into(), 1);
            s.push(Ev::Evict(Some(1)), "retain(|t| t != B)".into(), "evict-B".into(), 1);
            if dn == "proto-behind-ah" && !ah_premise_holds(&s) {
                // the scenario is defined relative to what slicing hands to the pool; slicing itself is C03's subject
                s.evs.clear();
                s.names.clear();
                s.kinds.clear();
                s.mult.clear();
                s.dgs.clear();
                s.name.push_str(":SKIPPED(SlicedPacket does not present the bytes behind the authentication header as IP payload)");
            }
            finish(s)
        }
        Group::V6 => {
            let mut s = Scn::new("v4+v6", format!("v4+v6:len{}:cut{}", d.len, cut), depth);
            let ka = key_a();
            let kc = key_c();
            s.add_dg(mk("A", ka.clone(), Link::Eth, 0x10, d.len, parts.clone(), 0), 2);
            // the IPv6 datagram is delivered through SlicedPacket::from_ip (no link layer)
            s.add_dg(mk("C", kc.clone(), Link::Ip, 0xc0, d.len, parts.clone(), 2), 2);
            s.add_pass(&ka, Link::Eth, &kc, Link::Ip);
            s.push(Ev::ReturnBuf, "return_buf(oldest, filled 0xEE)".into(), "return-buf".into(), 2);
            s.push(Ev::Evict(None), "retain(|_| false)".into(), "evict-all".into(), 1);
            s.push(Ev::Evict(Some(2)), "retain(|t| t != C)".into(), "evict-C".into(), 1);
            finish(s)
        }
        Group::Fault4 | Group::Fault6 => {
            let v6 = d.group == Group::Fault6;
            let mut s = Scn::new(if v6 { "fault6" } else { "fault4" }, format!("{}:len{}:cut{}", if v6 { "fault6" } else { "fault4" }, d.len, cut), depth);
            let mut k = if v6 { key_c() } else { key_a() };
            k.vlans = if v6 { vec![5] } else { vec![] };
            let link = if v6 { Link::Eth } else { Link::Ip };
            s.add_dg(mk(if v6 { "C" } else { "A" }, k.clone(), link, if v6 { 0xc0 } else { 0x10 }, d.len, parts.clone(), 0), 2);
            s.add_faults(0);
            if th {
                // a bystander stream that must never be touched by the faults
                let mut kb = k.clone();
                kb.ident += 1;
                s.add_dg(mk("B", kb, link, 0x80, 16, vec![8, 8], 1), 1);
            }
            s.push(Ev::ReturnBuf, "return_buf(oldest, filled 0xEE)".into(), "return-buf".into(), 1);
            s.push(Ev::Evict(None), "retain(|_| false)".into(), "evict-all".into(), 1);
            finish(s)
        }
    }
}

/// premise of the "proto-behind-ah" scenarios: `SlicedPacket` presents, for every fragment, the bytes behind the
/// authentication header as IP payload and the AH's next header as its protocol number
fn ah_premise_holds(s: &Scn) -> bool {
    s.evs.iter().all(|e| match e {
        Ev::Pkt(p) => guarded(|| {
            let sl = match p.link {
                Link::Eth => SlicedPacket::from_ethernet(&p.bytes),
                Link::Ip => SlicedPacket::from_ip(&p.bytes),
            };
            match sl.as_ref().ok().and_then(|x| x.ip_payload()) {
                Some(ip) => ip.payload == &p.payload[..] && ip.ip_number.0 == p.key.proto && ip.fragmented,
                None => false,
            }
        })
        .unwrap_or(false),
        _ => true,
    })
}

fn descs(tier: Tier) -> Vec<Desc> {
    let maxp = if tier.is_thorough() { 4 } else { 3 };
    let mut out = vec![];
    // big scenarios first (dynamic scheduling then balances better)
    for k in (2..=maxp).rev() {
        for len in [40usize, 37] {
            for units in compositions(5, k) {
                for di in 0..DISCR.len() {
                    out.push(Desc { group: Group::Pair(di), len, units: units.clone() });
                }
                out.push(Desc { group: Group::V6, len, units: units.clone() });
                out.push(Desc { group: Group::Fault4, len, units: units.clone() });
                out.push(Desc { group: Group::Fault6, len, units: units.clone() });
            }
        }
    }
    out
}

/// differential base: every datagram delivered in order to a FRESH pool
fn finish(mut s: Scn) -> Scn {
    for d in 0..s.dgs.len() {
        let mut pool = Pool::new();
        let mut got = None;
        for e in &s.evs {
            if let Ev::Pkt(p) = e {
                if p.dg == Some(d) {
                    let r = guarded(|| {
                        let sl = match p.link {
                            Link::Eth => SlicedPacket::from_ethernet(&p.bytes),
                            Link::Ip => SlicedPacket::from_ip(&p.bytes),
                        };
                        match sl {
                            Ok(sl) => pool.process_sliced_packet(&sl, p.ts, p.key.chan).ok().flatten(),
                            Err(_) => None,
                        }
                    });
                    if let Ok(Some(pl)) = r {
                        got = Some(pl.payload);
                    }
                }
            }
        }
        s.fresh.push(got);
    }
    s
}

// ---------------------------------------------------------------------------------------------
// reference pool (independent of the crate): byte map + end per stream

#[derive(Clone)]
struct RStream {
    bytes: BTreeMap<u16, u8>,
    end: Option<u16>,
    /// largest offset+len of an accepted fragment
    max_end: u16,
    /// Some(d) while every accepted fragment is a genuine fragment of datagram d
    pure: Option<usize>,
    ts: u8,
    // --- path information (not part of the state key) ---
    started_at: usize,
    reused: bool,
}

impl RStream {
    /// an end was accepted although data behind it was already buffered: the crate accepts this
    /// silently; the property does not say what has to happen (DESIGN.md C11 "Reading")
    fn tainted(&self) -> bool {
        matches!(self.end, Some(e) if self.max_end > e)
    }
    fn complete(&self) -> bool {
        match self.end {
            Some(e) => (0..e).all(|p| self.bytes.contains_key(&p)),
            None => false,
        }
    }
    fn runs(&self) -> Vec<(u16, u16)> {
        let mut out: Vec<(u16, u16)> = vec![];
        for p in self.bytes.keys() {
            match out.last_mut() {
                Some(l) if l.1 == *p => l.1 = p + 1,
                _ => out.push((*p, p + 1)),
            }
        }
        out
    }
    fn add(&mut self, off: u16, mf: bool, payload: &[u8]) {
        for (i, b) in payload.iter().enumerate() {
            self.bytes.insert(off + i as u16, *b);
        }
        let fe = off + payload.len() as u16;
        self.max_end = self.max_end.max(fe);
        if !mf && self.end.is_none() {
            self.end = Some(fe);
        }
    }
}

/// error classes that apply to a fragment given what the stream already knows
fn classify(end: Option<u16>, off: u16, mf: bool, len: usize) -> Vec<&'static str> {
    let mut c = vec![];
    let fe = off as u64 + len as u64;
    if fe > 65535 {
        c.push("too-big");
    }
    if mf && len % 8 != 0 {
        c.push("unaligned");
    }
    if let Some(e) = end {
        if fe > e as u64 || (!mf && fe != e as u64) {
            c.push("conflicting-end");
        }
    }
    c
}

fn class_of(e: &IpDefragError) -> &'static str {
    match e {
        IpDefragError::UnalignedFragmentPayloadLen { .. } => "unaligned",
        IpDefragError::SegmentTooBig { .. } => "too-big",
        IpDefragError::ConflictingEnd { .. } => "conflicting-end",
        IpDefragError::AllocationFailure { .. } => "allocation-failure",
    }
}

#[derive(Clone, Default)]
struct RefPool {
    streams: BTreeMap<SKey, RStream>,
}

// ---------------------------------------------------------------------------------------------
// snapshot of the real pool (verification hook), bytes outside the filled ranges masked out:
// `IpDefragBuf::add` grows `data` with `set_len` over uninitialised capacity, so those bytes are
// arbitrary by design and must not influence the state key

#[derive(Clone, PartialEq, Eq, Debug)]
struct SnapStream {
    key: String,
    ipn: u8,
    data: Vec<u8>,
    sections: Vec<(u16, u16)>,
    end: Option<u16>,
}

fn mask(data: &[u8], sections: &[(u16, u16)]) -> Vec<u8> {
    let mut m = vec![0u8; data.len()];
    for (s, e) in sections {
        let s = (*s as usize).min(data.len());
        let e = (*e as usize).min(data.len());
        if s < e {
            m[s..e].copy_from_slice(&data[s..e]);
        }
    }
    m
}

/// sorted, empty ranges dropped, touching/overlapping ranges joined
fn norm_runs(sections: &[(u16, u16)]) -> Vec<(u16, u16)> {
    let mut v: Vec<(u16, u16)> = sections.iter().copied().filter(|(s, e)| s < e).collect();
    v.sort();
    let mut out: Vec<(u16, u16)> = vec![];
    for (s, e) in v {
        match out.last_mut() {
            Some(l) if l.1 >= s => l.1 = l.1.max(e),
            _ => out.push((s, e)),
        }
    }
    out
}

#[derive(Clone, PartialEq, Eq, Debug, Default)]
struct Snap {
    active: Vec<SnapStream>,
    free_data: usize,
    free_sec: usize,
}

fn snap(pool: &Pool) -> Snap {
    let (act, fd, fs) = pool.verif_snapshot();
    Snap {
        active: act
            .into_iter()
            .map(|(key, ipn, data, secs, end)| {
                let sections: Vec<(u16, u16)> = secs.iter().map(|r| (r.start, r.end)).collect();
                SnapStream { key, ipn, data: mask(&data, &sections), sections, end }
            })
            .collect(),
        free_data: fd,
        free_sec: fs,
    }
}

#[derive(Clone)]
struct Node {
    pool: Pool,
    held: Vec<IpDefragPayloadVec>,
    rf: RefPool,
    rem: Vec<u8>,
    snap: Snap,
    depth: usize,
    // --- path information (not part of the state key) ---
    done: u32,
    done_dgs: u32,
}

impl Node {
    fn init(scn: &Scn) -> Node {
        let pool = Pool::new();
        let snap = snap(&pool);
        Node { pool, held: vec![], rf: RefPool::default(), rem: scn.mult.clone(), snap, depth: 0, done: 0, done_dgs: 0 }
    }
    fn enabled(&self, scn: &Scn, e: usize) -> bool {
        if self.rem[e] == 0 {
            return false;
        }
        match &scn.evs[e] {
            Ev::ReturnBuf => !self.held.is_empty(),
            Ev::Evict(_) => !self.rf.streams.is_empty(),
            _ => true,
        }
    }
    /// canonical state: implementation snapshot + reference + held payloads + remaining events
    fn key_bytes(&self) -> Vec<u8> {
        let mut k = Vec::with_capacity(256);
        let u16o = |k: &mut Vec<u8>, v: Option<u16>| match v {
            Some(x) => {
                k.push(1);
                k.extend_from_slice(&x.to_le_bytes());
            }
            None => k.push(0),
        };
        k.extend_from_slice(&self.rem);
        k.push(0xfe);
        k.push(self.snap.active.len() as u8);
        for s in &self.snap.active {
            k.extend_from_slice(&(s.key.len() as u16).to_le_bytes());
            k.extend_from_slice(s.key.as_bytes());
            k.push(s.ipn);
            k.extend_from_slice(&(s.data.len() as u32).to_le_bytes());
            k.extend_from_slice(&s.data);
            k.push(s.sections.len() as u8);
            for (a, b) in &s.sections {
                k.extend_from_slice(&a.to_le_bytes());
                k.extend_from_slice(&b.to_le_bytes());
            }
            u16o(&mut k, s.end);
        }
        k.extend_from_slice(&(self.snap.free_data as u16).to_le_bytes());
        k.extend_from_slice(&(self.snap.free_sec as u16).to_le_bytes());
        k.push(0xfd);
        k.push(self.rf.streams.len() as u8);
        for (sk, st) in &self.rf.streams {
            k.push(sk.vlans.len() as u8);
            for v in &sk.vlans {
                k.extend_from_slice(&v.to_le_bytes());
            }
            k.push(sk.v6 as u8);
            k.extend_from_slice(&sk.src);
            k.extend_from_slice(&sk.dst);
            k.extend_from_slice(&sk.ident.to_le_bytes());
            k.push(sk.proto);
            k.push(sk.chan);
            u16o(&mut k, st.end);
            k.extend_from_slice(&st.max_end.to_le_bytes());
            k.push(match st.pure {
                Some(d) => d as u8,
                None => 0xff,
            });
            k.push(st.ts);
            k.extend_from_slice(&(st.bytes.len() as u16).to_le_bytes());
            for (p, b) in &st.bytes {
                k.extend_from_slice(&p.to_le_bytes());
                k.push(*b);
            }
        }
        k.push(0xfc);
        k.push(self.held.len() as u8);
        for h in &self.held {
            k.extend_from_slice(&(h.payload.len() as u32).to_le_bytes());
        }
        k
    }
    fn key128(&self) -> (u64, u64) {
        hash128(&self.key_bytes())
    }
}

fn hash128(b: &[u8]) -> (u64, u64) {
    let mut f = Fnv::new();
    f.bytes(b);
    // SipHash-1-3 with the fixed zero key (deterministic)
    #[allow(deprecated)]
    let mut s = std::hash::SipHasher::new();
    s.write(b);
    (f.finish(), s.finish())
}

// ---------------------------------------------------------------------------------------------
// one transition: deliver event `e` to the real pool and to the reference, apply the oracle

#[derive(Default)]
struct Info {
    reach: Vec<&'static str>,
    err: Option<&'static str>,
    completed: bool,
    tainted: bool,
    evicted: bool,
}
type Fail = (String, String);

fn fail<T>(sig: impl Into<String>, detail: impl Into<String>) -> Result<T, Fail> {
    Err((sig.into(), detail.into()))
}

fn panic_fail<T>(api: &str, msg: String) -> Result<T, Fail> {
    let loc = msg.rsplit(" @ ").next().unwrap_or("?").to_string();
    fail(format!("panic:{}:{}", api, loc), format!("{} panicked: {}", api, msg))
}

fn slice_pkt<'a>(bytes: &'a [u8], link: Link) -> Result<SlicedPacket<'a>, Fail> {
    let r = guarded(|| match link {
        Link::Eth => SlicedPacket::from_ethernet(bytes),
        Link::Ip => SlicedPacket::from_ip(bytes),
    });
    match r {
        Ok(Ok(s)) => Ok(s),
        Ok(Err(e)) => fail("harness:packet-not-sliceable", format!("SlicedPacket rejected the hand-assembled packet {}: {:?}", hex(bytes), e)),
        Err(m) => panic_fail("SlicedPacket::from_*", m),
    }
}

/// implementation state == reference state (streams present, and for streams without a silently
/// accepted end-below-data: end, filled ranges and the bytes in them)
fn check_state(scn: &Scn, sn: &Snap, rf: &RefPool) -> Result<(), Fail> {
    let mut exp: Vec<(&str, &SKey, &RStream)> = rf.streams.iter().map(|(k, s)| (scn.keystrs[k].as_str(), k, s)).collect();
    exp.sort_by(|a, b| a.0.cmp(b.0));
    let same = sn.active.len() == exp.len() && sn.active.iter().zip(exp.iter()).all(|(a, b)| a.key == b.0);
    if !same {
        return fail(
            "active-streams-differ-from-reference",
            format!("pool has active streams [{}], reference expects [{}]", sn.active.iter().map(|s| s.key.clone()).collect::<Vec<_>>().join(" | "), exp.iter().map(|s| s.0.to_string()).collect::<Vec<_>>().join(" | ")),
        );
    }
    for (ss, (_, k, rs)) in sn.active.iter().zip(exp.iter()) {
        if ss.ipn != k.proto {
            return fail("stream-ip-number-differs", format!("stream {} has ip number {}, packets carried {}", ss.key, ss.ipn, k.proto));
        }
        if rs.tainted() {
            continue;
        }
        if ss.end != rs.end {
            return fail("stream-end-differs-from-reference", format!("stream {}: end {:?}, reference {:?}", ss.key, ss.end, rs.end));
        }
        let runs = norm_runs(&ss.sections);
        if runs != rs.runs() {
            return fail("stream-filled-ranges-differ-from-reference", format!("stream {}: sections {:?} (joined {:?}), reference {:?}", ss.key, ss.sections, runs, rs.runs()));
        }
        for (p, b) in &rs.bytes {
            if ss.data.get(*p as usize) != Some(b) {
                return fail("stream-bytes-differ-from-reference", format!("stream {}: data[{}] = {:?}, reference {:#04x}; data={} ", ss.key, p, ss.data.get(*p as usize), b, hex(&ss.data)));
            }
        }
    }
    Ok(())
}

/// every stream of `before` except `except` is bit-identical in `after`
fn others_untouched(before: &Snap, after: &Snap, except: Option<&str>, what: &str) -> Result<(), Fail> {
    for s in &before.active {
        if Some(s.key.as_str()) == except {
            continue;
        }
        match after.active.iter().find(|a| a.key == s.key) {
            Some(a) if a == s => {}
            other => {
                return fail(format!("other-stream-changed:{}", what), format!("stream {} was {:?} before and is {:?} after a delivery that does not belong to it", s.key, s, other));
            }
        }
    }
    Ok(())
}

/// classify the arrival history of the stream that just completed (reachability only)
fn history_reach(scn: &Scn, hist: &[usize], started_at: usize, key: &SKey, info: &mut Info) {
    if hist.is_empty() || started_at >= hist.len() {
        return;
    }
    let mut offs: Vec<u16> = vec![];
    let mut seen: Vec<usize> = vec![];
    let mut dup = false;
    let mut inter = false;
    for e in &hist[started_at..] {
        if let Ev::Pkt(p) = &scn.evs[*e] {
            if &p.key == key {
                if seen.contains(e) {
                    dup = true;
                }
                seen.push(*e);
                offs.push(p.off);
            } else if !seen.is_empty() {
                inter = true;
            }
        }
    }
    let increasing = offs.windows(2).all(|w| w[0] < w[1]);
    let reordered = offs.windows(2).any(|w| w[1] < w[0]);
    if increasing && !dup {
        info.reach.push("complete-in-order");
    }
    if reordered {
        info.reach.push("complete-reordered");
    }
    if dup {
        info.reach.push("complete-with-duplicate");
    }
    if inter {
        info.reach.push("two-streams-interleaved");
    }
}

fn step(scn: &Scn, p: &Node, e: usize, hist: &[usize]) -> Result<(Node, Info), Fail> {
    let mut info = Info::default();
    let mut pool = p.pool.clone();
    let mut rf = p.rf.clone();
    let mut held = p.held.clone();
    let mut done = p.done;
    let mut done_dgs = p.done_dgs;
    let before = &p.snap;
    let after: Snap;
    match &scn.evs[e] {
        Ev::Pkt(pe) => {
            let sl = slice_pkt(&pe.bytes, pe.link)?;
            let res = match guarded(|| pool.process_sliced_packet(&sl, pe.ts, pe.key.chan)) {
                Ok(r) => r,
                Err(m) => return panic_fail("IpDefragPool::process_sliced_packet", m),
            };
            let ks = scn.keystrs[&pe.key].as_str();
            let classes = classify(rf.streams.get(&pe.key).and_then(|s| s.end), pe.off, pe.mf, pe.payload.len());
            if !classes.is_empty() {
                match &res {
                    Err(err) => {
                        let c = class_of(err);
                        if !classes.contains(&c) {
                            return fail(format!("wrong-error-class:expected-{}", classes.join("|")), format!("fragment [{}..{}) mf={} on stream {}: got {:?}, applicable classes {:?}", pe.off, pe.off as usize + pe.payload.len(), pe.mf, ks, err, classes));
                        }
                        info.err = Some(c);
                        info.reach.push(match c {
                            "unaligned" => "err-unaligned",
                            "too-big" => "err-too-big",
                            _ => "err-conflicting-end",
                        });
                        if !rf.streams.contains_key(&pe.key) {
                            info.reach.push("err-on-new-stream");
                        }
                    }
                    Ok(r) => {
                        return fail(
                            format!("inconsistent-fragment-accepted:{}", classes.join("|")),
                            format!("fragment [{}..{}) mf={} on stream {} (known end {:?}) must be rejected ({:?}) but returned Ok({})", pe.off, pe.off as usize + pe.payload.len(), pe.mf, ks, rf.streams.get(&pe.key).and_then(|s| s.end), classes, if r.is_some() { "Some(payload)" } else { "None" }),
                        );
                    }
                }
            } else {
                let opt = match res {
                    Ok(o) => o,
                    Err(err) => return fail("consistent-fragment-rejected", format!("fragment [{}..{}) mf={} on stream {} is consistent with everything delivered before but got {:?}", pe.off, pe.off as usize + pe.payload.len(), pe.mf, ks, err)),
                };
                let existed = rf.streams.contains_key(&pe.key);
                if !existed {
                    rf.streams.insert(pe.key.clone(), RStream { bytes: BTreeMap::new(), end: None, max_end: 0, pure: pe.dg, ts: pe.ts, started_at: hist.len().saturating_sub(1), reused: before.free_data > 0 });
                    if before.free_data > 0 {
                        info.reach.push("buffer-reused");
                    }
                    if let Some(d) = pe.dg {
                        if done_dgs & (1 << d) != 0 {
                            info.reach.push("duplicate-after-completion-starts-fresh-stream");
                        }
                    }
                }
                let st = rf.streams.get_mut(&pe.key).unwrap();
                if st.pure != pe.dg {
                    st.pure = None;
                }
                st.add(pe.off, pe.mf, &pe.payload);
                let tainted = st.tainted();
                let complete = st.complete();
                let st = st.clone();
                let want: Vec<u8> = match st.end {
                    Some(en) if complete => (0..en).map(|q| st.bytes[&q]).collect(),
                    _ => vec![],
                };
                if !tainted {
                    match (complete, opt) {
                        (true, None) => {
                            return fail("no-payload-on-delivery-of-last-missing-byte", format!("stream {}: [0,{}) is completely covered after this delivery but Ok(None) was returned", ks, st.end.unwrap()));
                        }
                        (false, Some(pl)) => {
                            return fail(
                                if existed { "payload-returned-before-last-missing-byte" } else { "payload-returned-by-first-fragment-of-a-stream" },
                                format!("stream {}: end {:?}, filled {:?}, yet a payload of {} bytes was returned: {}", ks, st.end, st.runs(), pl.payload.len(), hex(&pl.payload)),
                            );
                        }
                        (false, None) => {}
                        (true, Some(pl)) => {
                            if pl.payload != want {
                                let stale = pl.payload.iter().any(|b| *b == STALE);
                                return fail(if stale { "payload-mismatch:stale-buffer-byte-leaked" } else { "payload-mismatch" }, format!("stream {}: returned {} expected {}", ks, hex(&pl.payload), hex(&want)));
                            }
                            if pl.ip_number.0 != pe.key.proto {
                                return fail("payload-ip-number-mismatch", format!("stream {}: returned ip_number {} expected {}", ks, pl.ip_number.0, pe.key.proto));
                            }
                            if let Some(d) = st.pure {
                                if pl.payload != scn.dgs[d].payload {
                                    return fail("payload-differs-from-original-datagram", format!("datagram {}: returned {} original {}", scn.dgs[d].label, hex(&pl.payload), hex(&scn.dgs[d].payload)));
                                }
                                if scn.fresh[d].as_ref() != Some(&pl.payload) {
                                    return fail("differential:fresh-pool-vs-reached-state", format!("datagram {}: a fresh pool returned {:?}, this pool state returned {}", scn.dgs[d].label, scn.fresh[d].as_ref().map(|x| hex(x)), hex(&pl.payload)));
                                }
                                done_dgs |= 1 << d;
                            }
                            history_reach(scn, hist, st.started_at, &pe.key, &mut info);
                            if pe.key.v6 {
                                info.reach.push("ipv6-complete");
                            } else {
                                info.reach.push("ipv4-complete");
                            }
                            if st.reused {
                                info.reach.push("complete-in-reused-buffer");
                            }
                            if !pe.key.vlans.is_empty() {
                                info.reach.push("complete-with-vlan");
                            }
                            info.completed = true;
                            done += 1;
                            held.push(pl);
                            rf.streams.remove(&pe.key);
                        }
                    }
                } else {
                    // relaxed oracle: never a payload that differs from every consistent interpretation
                    info.tainted = true;
                    info.reach.push("end-below-buffered-data-accepted");
                    if let Some(pl) = opt {
                        if !complete || pl.payload != want {
                            return fail("tainted-stream:payload-matches-no-consistent-interpretation", format!("stream {} (end {:?} accepted below buffered data, filled {:?}): returned {} ; only consistent payload {}", ks, st.end, st.runs(), hex(&pl.payload), if complete { hex(&want) } else { "none (holes)".into() }));
                        }
                        if pl.ip_number.0 != pe.key.proto {
                            return fail("payload-ip-number-mismatch", format!("stream {}: returned ip_number {} expected {}", ks, pl.ip_number.0, pe.key.proto));
                        }
                        info.reach.push("tainted-stream-completed");
                        info.completed = true;
                        done += 1;
                        held.push(pl);
                        rf.streams.remove(&pe.key);
                    }
                }
            }
            after = snap(&pool);
            others_untouched(before, &after, Some(ks), if info.err.is_some() { "rejected-fragment" } else { "fragment" })?;
            check_state(scn, &after, &rf)?;
        }
        Ev::Pass(pkts) => {
            let mut cur = before.clone();
            for pp in pkts {
                let sl = slice_pkt(&pp.bytes, pp.link)?;
                let res = match guarded(|| pool.process_sliced_packet(&sl, 9, pp.chan)) {
                    Ok(r) => r,
                    Err(m) => return panic_fail("IpDefragPool::process_sliced_packet", m),
                };
                match res {
                    Ok(None) => {}
                    Ok(Some(pl)) => return fail("unfragmented-packet-returned-payload", format!("{}: returned {}", pp.name, hex(&pl.payload))),
                    Err(err) => return fail("unfragmented-packet-rejected", format!("{}: {:?}", pp.name, err)),
                }
                let s2 = snap(&pool);
                if s2 != cur {
                    return fail("unfragmented-packet-changed-pool", format!("{}: snapshot before {:?} after {:?}", pp.name, cur, s2));
                }
                cur = s2;
            }
            info.reach.push("unfragmented-passthrough");
            after = cur;
        }
        Ev::ReturnBuf => {
            let mut v = held.remove(0);
            let cap = v.payload.capacity();
            v.payload.clear();
            v.payload.resize(cap, STALE);
            if let Err(m) = guarded(|| pool.return_buf(v)) {
                return panic_fail("IpDefragPool::return_buf", m);
            }
            after = snap(&pool);
            others_untouched(before, &after, None, "return_buf")?;
            check_state(scn, &after, &rf)?;
            if after.free_data != before.free_data + 1 {
                return fail("return_buf:buffer-not-pooled", format!("pooled data buffers before {} after {}", before.free_data, after.free_data));
            }
            info.reach.push("buffer-returned");
        }
        Ev::Evict(sel) => {
            let sel = *sel;
            let r = guarded(|| match sel {
                None => pool.retain(|_| false),
                Some(t) => pool.retain(move |x| *x != t),
            });
            if let Err(m) = r {
                return panic_fail("IpDefragPool::retain", m);
            }
            let victims: Vec<SKey> = rf.streams.iter().filter(|(_, s)| sel.is_none() || sel == Some(s.ts)).map(|(k, _)| k.clone()).collect();
            for k in &victims {
                rf.streams.remove(k);
            }
            after = snap(&pool);
            check_state(scn, &after, &rf)?;
            for s in &after.active {
                if before.active.iter().find(|b| b.key == s.key) != Some(s) {
                    return fail("other-stream-changed:retain", format!("stream {} survived retain but changed: {:?}", s.key, s));
                }
            }
            let k = victims.len();
            if after.free_data != before.free_data + k || after.free_sec != before.free_sec + k {
                return fail("evicted-buffers-not-pooled", format!("{} streams evicted; pooled data buffers {} -> {}, pooled section buffers {} -> {}", k, before.free_data, after.free_data, before.free_sec, after.free_sec));
            }
            if k > 0 {
                info.evicted = true;
                info.reach.push("evicted");
                if !after.active.is_empty() {
                    info.reach.push("evicted-partially");
                }
            }
        }
    }
    if info.completed {
        // the completed stream is gone (check_state compared the key sets); nothing else to do
    }
    let mut rem = p.rem.clone();
    rem[e] -= 1;
    Ok((Node { pool, held, rf, rem, snap: after, depth: p.depth + 1, done, done_dgs }, info))
}

// ---------------------------------------------------------------------------------------------
// hand-rolled DFS with a visited set (the deciding engine)

#[derive(Default)]
struct Stats {
    states: u64,
    nontrivial: u64,
    transitions: u64,
    max_done: u32,
    errs: std::collections::BTreeSet<&'static str>,
    taint: bool,
    evict: bool,
    reach: BTreeMap<&'static str, u64>,
    /// sig -> (history length, detail)
    fails: BTreeMap<String, (usize, String)>,
}

struct Explorer<'a> {
    scn: &'a Scn,
    visited: &'a mut HashSet<(u64, u64)>,
    st: Stats,
    hist: Vec<usize>,
}

fn at_name(ev: &Ev) -> &'static str {
    match ev {
        Ev::Pkt(_) | Ev::Pass(_) => "IpDefragPool::process_sliced_packet",
        Ev::ReturnBuf => "IpDefragPool::return_buf",
        Ev::Evict(_) => "IpDefragPool::retain",
    }
}

impl<'a> Explorer<'a> {
    fn note_state(&mut self, n: &Node) -> bool {
        if self.visited.insert(n.key128()) {
            self.st.states += 1;
            if !n.snap.active.is_empty() || n.snap.free_data + n.snap.free_sec > 0 || !n.held.is_empty() {
                self.st.nontrivial += 1;
            }
            true
        } else {
            false
        }
    }
    /// execute transition `e` from `n`; recurse into the successor if it is new
    fn deliver(&mut self, n: &Node, e: usize, case: &mut Case) {
        self.hist.push(e);
        self.st.transitions += 1;
        case.at(at_name(&self.scn.evs[e]));
        match step(self.scn, n, e, &self.hist) {
            Err((sig, detail)) => {
                let len = self.hist.len();
                let full = format!("{} || history ({} deliveries): {}", detail, len, self.scn.hist_str(&self.hist));
                match self.st.fails.get(&sig) {
                    Some((l, _)) if *l <= len => {}
                    _ => {
                        self.st.fails.insert(sig, (len, full));
                    }
                }
            }
            Ok((child, info)) => {
                for r in &info.reach {
                    *self.st.reach.entry(r).or_insert(0) += 1;
                }
                if let Some(c) = info.err {
                    self.st.errs.insert(c);
                }
                self.st.taint |= info.tainted;
                self.st.evict |= info.evicted;
                self.st.max_done = self.st.max_done.max(child.done);
                if self.note_state(&child) && child.depth < self.scn.depth {
                    self.expand(&child, case);
                }
            }
        }
        self.hist.pop();
    }
    fn expand(&mut self, n: &Node, case: &mut Case) {
        for e in 0..self.scn.evs.len() {
            if n.enabled(self.scn, e) {
                self.deliver(n, e, case);
            }
        }
    }
}

/// complete exploration of one scenario with a private visited set: (distinct states, transitions, violations)
fn explore_all(scn: &Scn, case: &mut Case) -> Stats {
    let mut visited = HashSet::new();
    let mut x = Explorer { scn, visited: &mut visited, st: Stats::default(), hist: vec![] };
    let init = Node::init(scn);
    x.note_state(&init);
    x.expand(&init, case);
    x.st
}

// ---------------------------------------------------------------------------------------------
// the same transition system as a stateright model (cross-check of the exploration engine)

#[derive(Clone)]
struct SrState {
    node: Node,
    key: (u64, u64),
    bad: bool,
}
impl Hash for SrState {
    fn hash<H: Hasher>(&self, h: &mut H) {
        self.key.hash(h);
        self.bad.hash(h);
    }
}
impl PartialEq for SrState {
    fn eq(&self, o: &SrState) -> bool {
        self.key == o.key && self.bad == o.bad
    }
}

struct SrModel {
    scn: Scn,
}

impl stateright::Model for SrModel {
    type State = SrState;
    type Action = usize;
    fn init_states(&self) -> Vec<SrState> {
        let node = Node::init(&self.scn);
        let key = node.key128();
        vec![SrState { node, key, bad: false }]
    }
    fn actions(&self, s: &SrState, out: &mut Vec<usize>) {
        if s.bad || s.node.depth >= self.scn.depth {
            return;
        }
        for e in 0..self.scn.evs.len() {
            if s.node.enabled(&self.scn, e) {
                out.push(e);
            }
        }
    }
    fn next_state(&self, s: &SrState, e: usize) -> Option<SrState> {
        match step(&self.scn, &s.node, e, &[]) {
            Ok((node, _)) => {
                let key = node.key128();
                Some(SrState { node, key, bad: false })
            }
            Err(_) => Some(SrState { node: s.node.clone(), key: (s.key.0 ^ (e as u64 + 1), s.key.1), bad: true }),
        }
    }
    fn properties(&self) -> Vec<stateright::Property<Self>> {
        vec![stateright::Property::always("oracle holds after every delivery", |_, s: &SrState| !s.bad)]
    }
}

/// (unique states, transitions, violation found) by stateright
fn stateright_counts(scn: &Scn, bfs: bool) -> (u64, u64, bool) {
    use stateright::{Checker, Model};
    let m = SrModel { scn: scn.clone() };
    if bfs {
        let c = m.checker().spawn_bfs().join();
        (c.unique_state_count() as u64, c.state_count() as u64 - 1, !c.discoveries().is_empty())
    } else {
        let c = m.checker().spawn_dfs().join();
        (c.unique_state_count() as u64, c.state_count() as u64 - 1, !c.discoveries().is_empty())
    }
}

// ---------------------------------------------------------------------------------------------
// second model: IpDefragBuf::add driven directly

const B_OFFS: [u16; 5] = [0, 8, 16, 24, 65528];
const B_LENS: [usize; 6] = [0, 1, 7, 8, 9, 16];

fn bpat(pos: usize) -> u8 {
    ((pos % 251) + 1) as u8
}

#[derive(Clone)]
struct BState {
    buf: IpDefragBuf,
    rf: RStream,
    path: Vec<u8>,
}

fn buf_view(b: &IpDefragBuf) -> Vec<u8> {
    let mut k = vec![];
    let d = b.data();
    k.extend_from_slice(&(d.len() as u32).to_le_bytes());
    match b.end() {
        Some(e) => {
            k.push(1);
            k.extend_from_slice(&e.to_le_bytes());
        }
        None => k.push(0),
    }
    k.push(b.sections().len() as u8);
    for r in b.sections() {
        k.extend_from_slice(&r.start.to_le_bytes());
        k.extend_from_slice(&r.end.to_le_bytes());
        let s = (r.start as usize).min(d.len());
        let e = (r.end as usize).min(d.len());
        if s < e {
            k.extend_from_slice(&d[s..e]);
        }
    }
    k.push(b.is_complete() as u8);
    k
}

fn triple(t: usize) -> (u16, usize, bool) {
    (B_OFFS[t / 12], B_LENS[(t / 2) % 6], t % 2 == 1)
}

fn buf_path_str(path: &[u8]) -> String {
    path.iter()
        .map(|t| {
            let (o, l, m) = triple(*t as usize);
            format!("add(off={},more={},len={})", o, m, l)
        })
        .collect::<Vec<_>>()
        .join(" -> ")
}

fn run_buf(variant: usize, depth: usize, case: &mut Case) -> Stats {
    let mut st = Stats::default();
    let init_buf = if variant == 0 {
        IpDefragBuf::new(IpNumber(17), Vec::new(), Vec::new())
    } else {
        // recycled buffers full of stale content
        IpDefragBuf::new(IpNumber(17), vec![STALE; 96], vec![IpFragRange { start: 0, end: 96 }; 3])
    };
    let rf0 = RStream { bytes: BTreeMap::new(), end: None, max_end: 0, pure: None, ts: 0, started_at: 0, reused: false };
    let mut visited: HashSet<(u64, u64)> = HashSet::new();
    let key_of = |s: &BState| -> (u64, u64) {
        let mut k = buf_view(&s.buf);
        k.push(0xfd);
        match s.rf.end {
            Some(e) => k.extend_from_slice(&e.to_le_bytes()),
            None => k.push(0xff),
        }
        k.extend_from_slice(&s.rf.max_end.to_le_bytes());
        for (a, b) in s.rf.runs() {
            k.extend_from_slice(&a.to_le_bytes());
            k.extend_from_slice(&b.to_le_bytes());
        }
        hash128(&k)
    };
    let init = BState { buf: init_buf, rf: rf0, path: vec![] };
    visited.insert(key_of(&init));
    st.states += 1;
    let mut frontier = vec![init];
    let mut fixpoint = false;
    case.at("IpDefragBuf::add");
    for _level in 1..=depth {
        let mut next = vec![];
        for s in &frontier {
            for t in 0..60usize {
                let (off, len, mf) = triple(t);
                let payload: Vec<u8> = (0..len).map(|i| bpat(off as usize + i)).collect();
                st.transitions += 1;
                let mut c = s.clone();
                c.path.push(t as u8);
                let view_before = buf_view(&s.buf);
                let fo = IpFragOffset::try_new(off / 8).unwrap();
                let res = guarded(|| c.buf.add(fo, mf, &payload));
                let bad = |sig: &str, detail: String, st: &mut Stats| {
                    let full = format!("{} || history: {} (start buffer: {})", detail, buf_path_str(&c.path), if variant == 0 { "empty" } else { "recycled, 96 x 0xEE" });
                    match st.fails.get(sig) {
                        Some((l, _)) if *l <= c.path.len() => {}
                        _ => {
                            st.fails.insert(sig.to_string(), (c.path.len(), full));
                        }
                    }
                };
                let res = match res {
                    Ok(r) => r,
                    Err(m) => {
                        bad("panic:IpDefragBuf::add", m, &mut st);
                        continue;
                    }
                };
                let classes = classify(c.rf.end, off, mf, len);
                match (&res, classes.is_empty()) {
                    (Err(e), false) => {
                        let cl = class_of(e);
                        if !classes.contains(&cl) {
                            bad(&format!("buf:wrong-error-class:expected-{}", classes.join("|")), format!("got {:?}", e), &mut st);
                            continue;
                        }
                        st.errs.insert(cl);
                        *st.reach.entry(match cl {
                            "unaligned" => "buf-err-unaligned",
                            "too-big" => "buf-err-too-big",
                            _ => "buf-err-conflicting-end",
                        })
                        .or_insert(0) += 1;
                        if buf_view(&c.buf) != view_before {
                            bad("buf:rejected-fragment-changed-state", format!("end {:?} sections {:?}", c.buf.end(), c.buf.sections()), &mut st);
                            continue;
                        }
                    }
                    (Ok(()), false) => {
                        bad(&format!("buf:inconsistent-fragment-accepted:{}", classes.join("|")), format!("known end {:?}; applicable {:?}", c.rf.end, classes), &mut st);
                        continue;
                    }
                    (Err(e), true) => {
                        bad("buf:consistent-fragment-rejected", format!("got {:?}", e), &mut st);
                        continue;
                    }
                    (Ok(()), true) => c.rf.add(off, mf, &payload),
                }
                // state comparison
                let tainted = c.rf.tainted();
                let rc = c.rf.complete();
                let ic = match guarded(|| c.buf.is_complete()) {
                    Ok(x) => x,
                    Err(m) => {
                        bad("panic:IpDefragBuf::is_complete", m, &mut st);
                        continue;
                    }
                };
                let d = c.buf.data();
                let prefix_ok = |en: u16| -> bool { d.len() >= en as usize && (0..en).all(|p| c.rf.bytes.get(&p) == d.get(p as usize)) };
                if !tainted {
                    if c.buf.end() != c.rf.end {
                        bad("buf:end-differs-from-reference", format!("end() {:?} reference {:?}", c.buf.end(), c.rf.end), &mut st);
                        continue;
                    }
                    if ic != rc {
                        bad(if ic { "buf:is_complete-true-with-missing-bytes" } else { "buf:is_complete-false-although-all-bytes-present" }, format!("end {:?} sections {:?} reference filled {:?}", c.buf.end(), c.buf.sections(), c.rf.runs()), &mut st);
                        continue;
                    }
                    let secs: Vec<(u16, u16)> = c.buf.sections().iter().map(|r| (r.start, r.end)).collect();
                    if norm_runs(&secs) != c.rf.runs() {
                        bad("buf:filled-ranges-differ-from-reference", format!("sections {:?} reference {:?}", secs, c.rf.runs()), &mut st);
                        continue;
                    }
                    if c.rf.bytes.iter().any(|(p, b)| d.get(*p as usize) != Some(b)) {
                        bad("buf:bytes-differ-from-reference", format!("sections {:?}", secs), &mut st);
                        continue;
                    }
                    if ic && d.len() != c.rf.end.unwrap() as usize {
                        bad("buf:complete-data-length-differs-from-end", format!("data().len() {} end {:?}", d.len(), c.rf.end), &mut st);
                        continue;
                    }
                    if ic {
                        *st.reach.entry("buf-complete").or_insert(0) += 1;
                        st.max_done = 1;
                    }
                } else {
                    st.taint = true;
                    *st.reach.entry("buf-end-below-buffered-data-accepted").or_insert(0) += 1;
                    if ic && !(rc && prefix_ok(c.rf.end.unwrap())) {
                        bad("buf:tainted:complete-data-matches-no-consistent-interpretation", format!("end {:?} sections {:?} reference filled {:?}", c.buf.end(), c.buf.sections(), c.rf.runs()), &mut st);
                        continue;
                    }
                }
                if visited.insert(key_of(&c)) {
                    st.states += 1;
                    if !c.rf.bytes.is_empty() || c.rf.end.is_some() {
                        st.nontrivial += 1;
                    }
                    next.push(c);
                }
            }
        }
        if next.is_empty() {
            fixpoint = true;
            break;
        }
        frontier = next;
    }
    if fixpoint {
        *st.reach.entry("buf-fixpoint").or_insert(0) += 1;
    }
    st
}

// ---------------------------------------------------------------------------------------------

fn report(st: Stats, prefix: &str, case: &mut Case) {
    case.states(st.states);
    case.evals(st.transitions);
    case.nontrivial_n(st.nontrivial);
    for k in st.reach.keys() {
        case.reach(*k);
    }
    case.outcome(format!("{}|completed<={}|errors={}|end-below-data={}|evicted={}", prefix, st.max_done, if st.errs.is_empty() { "-".to_string() } else { st.errs.iter().copied().collect::<Vec<_>>().join("+") }, st.taint, st.evict));
    let mut f: Vec<(String, (usize, String))> = st.fails.into_iter().collect();
    f.sort_by_key(|x| x.1 .0);
    for (sig, (_, detail)) in f {
        case.fail(sig, detail);
    }
}

fn xcheck_descs(tier: Tier) -> Vec<Desc> {
    let mut v = vec![
        Desc { group: Group::Pair(0), len: 40, units: vec![2, 3] },
        Desc { group: Group::Fault4, len: 37, units: vec![4, 1] },
    ];
    if tier.is_thorough() {
        v.push(Desc { group: Group::Pair(3), len: 37, units: vec![1, 2, 2] });
        v.push(Desc { group: Group::V6, len: 40, units: vec![2, 1, 2] });
        v.push(Desc { group: Group::Fault6, len: 40, units: vec![1, 3, 1] });
        v.push(Desc { group: Group::Pair(4), len: 40, units: vec![3, 2] });
    }
    v
}

// ---------------------------------------------------------------------------------------------
// Miri stage (thorough tier): the same two transition systems at a reduced bound, executed by the Miri interpreter
// (monitor for uninitialised reads behind `Vec::set_len`, out-of-bounds, provenance), see DESIGN.md 10.2

fn miri_pool_depth() -> usize {
    std::env::var("EPMC_MIRI_C11_DEPTH").ok().and_then(|s| s.parse().ok()).unwrap_or(4)
}
const MIRI_BUF_DEPTH: usize = 2;

fn miri_descs() -> Vec<Desc> {
    let mut v = vec![];
    for (len, units) in [(40usize, vec![2usize, 3]), (37, vec![4, 1]), (37, vec![1, 2, 2])] {
        for di in [0usize, 2, 4, 7] {
            v.push(Desc { group: Group::Pair(di), len, units: units.clone() });
        }
        v.push(Desc { group: Group::V6, len, units: units.clone() });
        v.push(Desc { group: Group::Fault4, len, units: units.clone() });
        v.push(Desc { group: Group::Fault6, len, units: units.clone() });
    }
    v
}

/// the case list of the Miri stage: `MIRI-CASE <n> pool <scenario> <first event>` / `MIRI-CASE <n> buf <variant>`
pub fn miri_list() -> String {
    let mut out = String::new();
    let mut n = 0u64;
    for (i, d) in miri_descs().iter().enumerate() {
        let mut scn = build_scn(d, Tier::Quick);
        scn.depth = miri_pool_depth();
        let init = Node::init(&scn);
        for e in 0..scn.evs.len() {
            if init.enabled(&scn, e) {
                out.push_str(&format!("MIRI-CASE {} pool {} {} ({}: first event {})\n", n, i, e, scn.name, scn.names[e]));
                n += 1;
            }
        }
    }
    for v in 0..BUF_UNITS {
        out.push_str(&format!("MIRI-CASE {} buf {} (IpDefragBuf::add, depth <= {})\n", n, v, MIRI_BUF_DEPTH));
        n += 1;
    }
    out
}

/// `epmc miri C11 <case file> <shard> <nshards>`: meant to be executed by `cargo +nightly miri run`
pub fn miri_main(file: &str, shard: (u64, u64)) -> i32 {
    let text = std::fs::read_to_string(file).unwrap_or_default();
    let ds = miri_descs();
    let mut states = 0u64;
    let r = inproc("C11", |ctx| {
        for l in text.lines() {
            let f: Vec<&str> = l.split(' ').collect();
            if f.len() < 4 || f[0] != "MIRI-CASE" {
                continue;
            }
            let n: u64 = f[1].parse().unwrap_or(0);
            if n % shard.1 != shard.0 {
                continue;
            }
            println!("MIRI-EXEC {}", n);
            match f[2] {
                "pool" => {
                    let (i, e): (usize, usize) = (f[3].parse().unwrap_or(0), f.get(4).and_then(|x| x.parse().ok()).unwrap_or(0));
                    if i >= ds.len() {
                        continue;
                    }
                    let mut scn = build_scn(&ds[i], Tier::Quick);
                    scn.depth = miri_pool_depth();
                    let init = Node::init(&scn);
                    let states_ref = &mut states;
                    ctx.case(
                        None,
                        || CaseDesc { shape: format!("miri:{}", scn.group), text: l.to_string(), rank: n },
                        |case| {
                            let mut visited: HashSet<(u64, u64)> = HashSet::new();
                            let mut x = Explorer { scn: &scn, visited: &mut visited, st: Stats::default(), hist: vec![] };
                            x.deliver(&init, e, case);
                            *states_ref += x.st.transitions;
                            report(x.st, "miri", case);
                        },
                    );
                }
                "buf" => {
                    let v: usize = f[3].parse().unwrap_or(0);
                    let states_ref = &mut states;
                    ctx.case(
                        None,
                        || CaseDesc { shape: "miri:buf-model".into(), text: l.to_string(), rank: n },
                        |case| {
                            let st = run_buf(v, MIRI_BUF_DEPTH, case);
                            *states_ref += st.transitions;
                            report(st, "miri-buf", case);
                        },
                    );
                }
                _ => {}
            }
        }
    });
    for (sig, detail, text) in &r.violations {
        println!("MIRI-VIOLATION\t{}\t{}\t{}", sig, detail.replace('\n', " "), text);
    }
    println!("MIRI-DONE cases={} transitions={} violations={}", r.cases, states, r.violations.len());
    if r.violations.is_empty() {
        0
    } else {
        1
    }
}

const BUF_UNITS: u64 = 2;

impl C11 {
    fn buf_depth(tier: Tier) -> usize {
        if tier.is_thorough() {
            5
        } else {
            4
        }
    }
}

impl Check for C11 {
    fn id(&self) -> &'static str {
        "C11"
    }
    fn rule(&self, tier: Tier) -> String {
        let th = tier.is_thorough();
        format!(
            "explicit-state exploration of delivery histories; transition = one call of the REAL IpDefragPool::process_sliced_packet (on SlicedPacket::from_ethernet/from_ip of hand-assembled bytes), return_buf or retain. \
             alphabet per scenario: the fragments of datagram A (payload 40 and 37 bytes, every composition into 2..={} pieces on 8-byte boundaries), each deliverable 0/1/2 times, plus one companion group: \
             (pair:<d>) datagram B with the same cut that differs from A in exactly one key component d in {:?}{}, return_buf x2, retain(evict all), retain(evict B); \
             (v4+v6) IPv6 datagram C (fragment extension header, via from_ip), one event delivering 5 non-fragment packets (IPv4 unfragmented with A's id, IPv6 without / with atomic fragment header, ARP, unknown ether type), return_buf x2, evict all, evict C; \
             (fault4/fault6) fault fragments on the stream (second last fragment ending higher, last fragment ending lower, data beyond the end, unaligned non-last fragment, offset+len=65536){}, return_buf (buffer filled with 0xEE first), evict all. \
             in all scenarios over the 37 byte payload the fragments additionally differ in header bits outside the stream identity that a receiver ignores (DSCP/ECN, TTL / hop limit, traffic class, flow label, VLAN PCP/DEI, reserved byte and reserved bits of the IPv6 fragment header set) and IPv6 fragments carry a hop-by-hop options header in front of the fragment header. bound: all histories of <= {} deliveries. second model: IpDefragBuf::add with offsets {:?} x lengths {:?} x more_fragments, all sequences of depth <= {} from an empty and from a recycled (0xEE) buffer, merged on (buffer state, reference state). \
             oracle after every delivery: reference pool (byte map + end per stream key, written in the check): Some(payload) exactly on the delivery that covers [0,end) and Ok(None) before; payload and ip_number equal the reference, the original datagram and what a fresh pool returns; set of active streams == reference (completed/evicted streams are gone, duplicates after completion open a fresh stream); end / filled ranges / filled bytes of every stream == reference; all other streams bit-identical before/after; non-fragments return Ok(None) and leave the snapshot unchanged; Err of the documented class exactly for unaligned / too big / conflicting end and nothing changes; evicted buffers appear in the free lists; a stale 0xEE byte in a payload is a leak. \
             Streams whose end was accepted BELOW already buffered data (accepted silently by the crate, outside the property) only need: no panic, no payload other than the single consistent one. \
             a state = (verif_snapshot of the real pool with bytes outside the filled ranges masked, reference pool, lengths of held payloads, multiset of remaining events); states are merged only if all coincide; non-trivial = the pool holds a stream, a pooled buffer or a payload was handed out.",
            if th { 4 } else { 3 },
            DISCR,
            if th { ", a third datagram C of the other IP version (2 fragments)" } else { "" },
            if th { ", a bystander datagram B" } else { "" },
            if th { 10 } else { 7 },
            B_OFFS,
            B_LENS,
            Self::buf_depth(tier)
        )
    }
    fn assumptions(&self, _tier: Tier) -> Vec<String> {
        vec![
            "bytes of IpDefragBuf::data outside the filled ranges are uninitialised capacity (set_len) and are excluded from the canonical state; so are Vec capacities, the content of pooled buffers and the HashMap layout (none of them is observable through the API unless the oracle fires)".into(),
            "visited states are stored as 128-bit hashes (FNV-1a + SipHash) of the canonical state bytes".into(),
            "reachability keys that describe the arrival order (in-order / reordered / duplicate / interleaved) are computed from the DFS path that first reaches a state".into(),
            "IPv6 extension headers behind the fragment header are outside the alphabet; IPv4 behind an authentication header only in the form `every fragment carries the AH` (scenarios proto-behind-ah), which is what SlicedPacket hands to the pool as IP payload + protocol number - if slicing does not present it that way the scenarios skip themselves; overlapping fragments always carry the same byte for the same position".into(),
        ]
    }
    fn units(&self, tier: Tier) -> u64 {
        BUF_UNITS + descs(tier).len() as u64 + xcheck_descs(tier).len() as u64
    }
    fn watchdog_s(&self, tier: Tier) -> u64 {
        if tier.is_thorough() {
            900
        } else {
            120
        }
    }
    fn expect_reach(&self, _tier: Tier) -> Vec<String> {
        [
            "complete-in-order",
            "complete-reordered",
            "complete-with-duplicate",
            "two-streams-interleaved",
            "err-conflicting-end",
            "err-unaligned",
            "err-too-big",
            "err-on-new-stream",
            "buffer-reused",
            "complete-in-reused-buffer",
            "evicted",
            "evicted-partially",
            "unfragmented-passthrough",
            "ipv6-complete",
            "ipv4-complete",
            "complete-with-vlan",
            "duplicate-after-completion-starts-fresh-stream",
            "end-below-buffered-data-accepted",
            "buf-complete",
            "buf-err-conflicting-end",
            "buf-err-unaligned",
            "buf-err-too-big",
            "stateright-crosscheck-equal",
        ]
        .iter()
        .map(|s| s.to_string())
        .collect()
    }
    fn coverage_extra(&self, tier: Tier) -> Vec<(String, String)> {
        let d = descs(tier);
        vec![
            ("pool_scenarios".into(), d.len().to_string()),
            ("pool_depth_bound_completed".into(), if tier.is_thorough() { "10" } else { "7" }.into()),
            ("buf_depth_bound_completed".into(), Self::buf_depth(tier).to_string()),
            ("stateright_crosscheck_scenarios".into(), xcheck_descs(tier).len().to_string()),
            ("engine".into(), "hand-rolled DFS + visited set (deciding); stateright 0.31 DFS and BFS checker on the cross-check scenarios (unique state and transition counts must be equal)".into()),
        ]
    }
    fn post_run(&self, tier: Tier) -> Option<PostRun> {
        if !tier.is_thorough() || std::env::var("EPMC_NO_MIRI").is_ok() {
            return None;
        }
        Some(crate::props::c01::run_miri_list(
            "C11",
            miri_list(),
            &format!(
                "the reduced history space ({} scenarios: pairs differing in ident / outer VLAN / channel / IPv6 identification, v4+v6 with pass-through packets, fault4, fault6; cuts 2+3, 4+1, 1+2+2; every history of <= {} deliveries incl. duplicates, return_buf and retain; one case per first event) and IpDefragBuf::add sequences of depth <= {} from an empty and a recycled buffer, with the complete reference-pool oracle",
                miri_descs().len(),
                miri_pool_depth(),
                MIRI_BUF_DEPTH
            ),
        ))
    }
    fn run_unit(&self, tier: Tier, u: u64, ctx: &mut Ctx) {
        if u < BUF_UNITS {
            let depth = Self::buf_depth(tier);
            ctx.case(
                None,
                || CaseDesc { shape: "buf-model".into(), text: format!("IpDefragBuf::add: all sequences of depth <= {} over offsets {:?} x lengths {:?} x more_fragments, start buffer {}", depth, B_OFFS, B_LENS, if u == 0 { "empty" } else { "recycled (96 x 0xEE, 3 stale sections)" }), rank: u },
                |case| {
                    let st = run_buf(u as usize, depth, case);
                    report(st, if u == 0 { "buf-model:empty-start" } else { "buf-model:recycled-start" }, case);
                },
            );
            return;
        }
        let u = (u - BUF_UNITS) as usize;
        let ds = descs(tier);
        if u < ds.len() {
            let scn = build_scn(&ds[u], tier);
            let init = Node::init(&scn);
            let mut visited: HashSet<(u64, u64)> = HashSet::new();
            let mut first = true;
            let mut total = 0u64;
            for e in 0..scn.evs.len() {
                if !init.enabled(&scn, e) {
                    continue;
                }
                if ctx.done() {
                    return;
                }
                let is_first = first;
                first = false;
                let scn_ref = &scn;
                let init_ref = &init;
                let visited_ref = &mut visited;
                let total_ref = &mut total;
                ctx.case(
                    None,
                    || CaseDesc { shape: format!("{}:first={}", scn_ref.group, scn_ref.kinds[e]), text: format!("all histories that start with event #{} ({}) of {}", e, scn_ref.names[e], scn_ref.describe()), rank: (scn_ref.evs.len() * 1000 + e) as u64 },
                    |case| {
                        let mut x = Explorer { scn: scn_ref, visited: visited_ref, st: Stats::default(), hist: vec![] };
                        if is_first {
                            x.note_state(init_ref);
                        }
                        x.deliver(init_ref, e, case);
                        *total_ref += x.st.states;
                        report(x.st, &format!("{}|first={}", scn_ref.group, scn_ref.kinds[e]), case);
                    },
                );
            }
            let t = total;
            ctx.note_size(t, || format!("{} distinct states in {}", t, scn.name));
            return;
        }
        // ---- engine cross-check
        let xs = xcheck_descs(tier);
        let d = &xs[u - ds.len()];
        let scn = build_scn(d, tier);
        ctx.case(
            None,
            || CaseDesc { shape: format!("stateright-crosscheck:{}", scn.group), text: format!("hand-rolled DFS vs stateright DFS and BFS on {}", scn.describe()), rank: 1_000_000 },
            |case| {
                let st = explore_all(&scn, case);
                case.at("stateright");
                let (ds_states, ds_trans, ds_bad) = stateright_counts(&scn, false);
                let (bs_states, bs_trans, bs_bad) = stateright_counts(&scn, true);
                let mine_bad = !st.fails.is_empty();
                let (ms, mt) = (st.states, st.transitions);
                report(st, &format!("stateright-crosscheck|{}|states={}|transitions={}", scn.name, ms, mt), case);
                // the hand-rolled engine counted its own states; stateright's are not added again
                if (ds_states, ds_trans) != (ms, mt) || (bs_states, bs_trans) != (ms, mt) || ds_bad != mine_bad || bs_bad != mine_bad {
                    if !mine_bad {
                        case.fail(
                            "self-check:stateright-and-hand-rolled-exploration-disagree(behaviour-depends-on-state-outside-the-canonical-key-or-harness-bug)",
                            format!("{}: hand-rolled states={} transitions={} violation={}; stateright DFS states={} transitions={} violation={}; stateright BFS states={} transitions={} violation={}", scn.name, ms, mt, mine_bad, ds_states, ds_trans, ds_bad, bs_states, bs_trans, bs_bad),
                        );
                    }
                } else {
                    case.reach("stateright-crosscheck-equal");
                }
            },
        );
    }
}
