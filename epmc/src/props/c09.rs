//! C09 — checksums equal the RFC 1071 Internet checksum.
//!
//! (a) helper level: every byte string up to a length bound over {00,01,7f,80,ff} plus long
//! pattern strings, through `checksum::u32_16bit_word`, `checksum::u64_16bit_word` and
//! `checksum::Sum16BitWords`, in every alignment, every 2-/3-way split at even offsets, every
//! `add_*bytes` decomposition and from every start accumulator of a small alphabet.
//! (b) protocol level: every API of the crate that computes, fills in or validates a checksum
//! (IPv4 header, UDP, TCP, ICMPv4, ICMPv6, IGMP, TransportHeader, PacketBuilder).
//!
//! Oracle: `ref_sum_parts` below (RFC 1071 written down literally) over pseudo header ‖ header
//! with zeroed checksum field ‖ payload. Pseudo headers are built here from RFC 768 / 793 /
//! 8200 §8.1 / 4443 §2.3 with literal protocol numbers.

use crate::fw::*;
use crate::mem::Arena;
use etherparse::checksum::{u32_16bit_word as w32, u64_16bit_word as w64, Sum16BitWords};
use etherparse::*;

pub struct C09;

// ------------------------------------------------------------------------------------------
// reference (RFC 1071): big-endian 16-bit words of the concatenated parts summed in a u128,
// an odd trailing byte is padded with a zero byte, the carries are folded back in.

fn ref_sum_parts(parts: &[&[u8]]) -> u16 {
    let mut s: u128 = 0;
    let mut hi: Option<u8> = None;
    for p in parts {
        for &b in p.iter() {
            match hi.take() {
                None => hi = Some(b),
                Some(h) => s += u16::from_be_bytes([h, b]) as u128,
            }
        }
    }
    if let Some(h) = hi {
        s += u16::from_be_bytes([h, 0]) as u128;
    }
    while s > 0xffff {
        s = (s & 0xffff) + (s >> 16);
    }
    s as u16
}
fn ref_sum(d: &[u8]) -> u16 {
    ref_sum_parts(&[d])
}
/// the checksum: complement of the sum
fn ref_csum(parts: &[&[u8]]) -> u16 {
    !ref_sum_parts(parts)
}

// ------------------------------------------------------------------------------------------
// (a) helper level

const ALPHA: [u8; 5] = [0x00, 0x01, 0x7f, 0x80, 0xff];

#[derive(Clone, Copy, PartialEq, Eq)]
enum Imp {
    M32,
    M64,
    Sw,
}
const IMPS: [Imp; 3] = [Imp::M32, Imp::M64, Imp::Sw];
impl Imp {
    fn name(self) -> &'static str {
        match self {
            Imp::M32 => "u32_16bit_word",
            Imp::M64 => "u64_16bit_word",
            Imp::Sw => "Sum16BitWords",
        }
    }
    /// largest `add_*bytes` the public API of this implementation has
    fn max_piece(self) -> usize {
        match self {
            Imp::M32 => 4,
            Imp::M64 => 8,
            Imp::Sw => 16,
        }
    }
    /// number of bytes a start accumulator stands for
    fn start_bytes(self) -> usize {
        match self {
            Imp::M32 => 4,
            _ => 8,
        }
    }
    fn starts(self) -> &'static [u64] {
        match self {
            Imp::M32 => &[1, 0xffff, 0x1_0000, 0xffff_fffe, 0xffff_ffff],
            _ => &[1, 0xffff, 0x1_0000, 0xffff_ffff, 0x1_0000_0000, u64::MAX - 1, u64::MAX],
        }
    }
    fn start_max(self) -> u64 {
        match self {
            Imp::M32 => 0xffff_ffff,
            _ => u64::MAX,
        }
    }
}

/// accumulator of one of the three implementations; `n` counts the calls into the crate
#[derive(Clone)]
enum Acc {
    M32(u32),
    M64(u64),
    Sw(Sum16BitWords),
}

impl Acc {
    /// `start` is the literal start sum of the module functions. `Sum16BitWords` has no public
    /// start value: the same accumulator state is produced by adding the 8 native-endian bytes.
    #[inline]
    fn start(imp: Imp, start: u64, n: &mut u64) -> Acc {
        match imp {
            Imp::M32 => Acc::M32(start as u32),
            Imp::M64 => Acc::M64(start),
            Imp::Sw => {
                if start == 0 {
                    Acc::Sw(Sum16BitWords::new())
                } else {
                    *n += 1;
                    Acc::Sw(Sum16BitWords::new().add_8bytes(start.to_ne_bytes()))
                }
            }
        }
    }
    #[inline]
    fn slice(self, d: &[u8], n: &mut u64) -> Acc {
        *n += 1;
        match self {
            Acc::M32(a) => Acc::M32(w32::add_slice(a, d)),
            Acc::M64(a) => Acc::M64(w64::add_slice(a, d)),
            Acc::Sw(a) => Acc::Sw(a.add_slice(d)),
        }
    }
    #[inline]
    fn b2(self, v: [u8; 2], n: &mut u64) -> Acc {
        *n += 1;
        match self {
            Acc::M32(a) => Acc::M32(w32::add_2bytes(a, v)),
            Acc::M64(a) => Acc::M64(w64::add_2bytes(a, v)),
            Acc::Sw(a) => Acc::Sw(a.add_2bytes(v)),
        }
    }
    #[inline]
    fn b4(self, v: [u8; 4], n: &mut u64) -> Acc {
        *n += 1;
        match self {
            Acc::M32(a) => Acc::M32(w32::add_4bytes(a, v)),
            Acc::M64(a) => Acc::M64(w64::add_4bytes(a, v)),
            Acc::Sw(mut a) => Acc::Sw(a.add_4bytes(v)),
        }
    }
    /// a piece of 2, 4, 8 or 16 bytes through the matching `add_*bytes` (only called with sizes the implementation has)
    #[inline]
    fn piece(self, d: &[u8], n: &mut u64) -> Acc {
        match d.len() {
            2 => self.b2([d[0], d[1]], n),
            4 => self.b4([d[0], d[1], d[2], d[3]], n),
            8 => {
                *n += 1;
                let v: [u8; 8] = d.try_into().unwrap();
                match self {
                    Acc::M64(a) => Acc::M64(w64::add_8bytes(a, v)),
                    Acc::Sw(mut a) => Acc::Sw(a.add_8bytes(v)),
                    Acc::M32(_) => unreachable!("u32_16bit_word has no add_8bytes"),
                }
            }
            16 => {
                *n += 1;
                let v: [u8; 16] = d.try_into().unwrap();
                match self {
                    Acc::Sw(mut a) => Acc::Sw(a.add_16bytes(v)),
                    _ => unreachable!("only Sum16BitWords has add_16bytes"),
                }
            }
            _ => unreachable!(),
        }
    }
    /// (ones_complement, ones_complement_with_no_zero) as numbers in wire order: the helpers return the two
    /// checksum bytes in memory (native) order, every caller in the crate applies `.to_be()`
    #[inline]
    fn fin(&self, n: &mut u64) -> (u16, u16) {
        *n += 2;
        let (a, b) = match self {
            Acc::M32(a) => (w32::ones_complement(*a), w32::ones_complement_with_no_zero(*a)),
            Acc::M64(a) => (w64::ones_complement(*a), w64::ones_complement_with_no_zero(*a)),
            Acc::Sw(a) => (a.ones_complement(), a.to_ones_complement_with_no_zero()),
        };
        (u16::from_be_bytes(a.to_ne_bytes()), u16::from_be_bytes(b.to_ne_bytes()))
    }
}

#[repr(align(16))]
struct ABuf([u8; 1024]);

struct Hk<'c> {
    case: &'c mut Case,
    runs: u64,
    evals: u64,
    nontrivial: u64,
    saw_zero_csum: bool,
    saw_carry32: bool,
    saw_carry64: bool,
    saw_odd: bool,
    saw_even: bool,
    failed_keys: Vec<(&'static str, &'static str)>,
}

impl<'c> Hk<'c> {
    fn new(case: &'c mut Case) -> Hk<'c> {
        Hk { case, runs: 0, evals: 0, nontrivial: 0, saw_zero_csum: false, saw_carry32: false, saw_carry64: false, saw_odd: false, saw_even: false, failed_keys: vec![] }
    }
    /// only the first violations of a case are rendered (the framework keeps at most 8 per case)
    fn fails_left(&mut self, imp: Imp, kind: &'static str) -> bool {
        let key = (imp.name(), kind);
        if self.failed_keys.contains(&key) {
            return false;
        }
        self.failed_keys.push(key);
        true
    }
    #[inline]
    fn verdict(&mut self, kind: &'static str, imp: Imp, acc: &Acc, want: u16, s: &[u8], start: u64, how: &dyn Fn() -> String) {
        let (oc, nz) = acc.fin(&mut self.evals);
        self.runs += 1;
        let want_nz = if want == 0 { 0xffff } else { want };
        if oc != want && self.fails_left(imp, kind) {
            self.case.fail(
                format!("helper:{}:{}:ones_complement", imp.name(), kind),
                format!("{} data={} (len {}) start={:#x}: {}: ones_complement gives wire checksum {:#06x}, RFC 1071 reference {:#06x}", imp.name(), hex(s), s.len(), start, how(), oc, want),
            );
        }
        if nz != want_nz && (oc == want || self.failed_keys.len() < 4) && self.fails_left(imp, "nz") {
            self.case.fail(
                format!("helper:{}:{}:ones_complement_with_no_zero", imp.name(), kind),
                format!("{} data={} (len {}) start={:#x}: {}: ones_complement_with_no_zero gives {:#06x}, expected {:#06x} (reference {:#06x}, 0 replaced by 0xffff)", imp.name(), hex(s), s.len(), start, how(), nz, want_nz, want),
            );
        }
    }
    fn finish(self, outcome: String) {
        let Hk { case, runs, evals, nontrivial, saw_zero_csum, saw_carry32, saw_carry64, saw_odd, saw_even, failed_keys: _ } = self;
        case.states(runs);
        case.evals(evals);
        case.nontrivial_n(nontrivial);
        if saw_zero_csum {
            case.reach("helper-checksum-0-nozero-ffff");
        }
        if saw_carry32 {
            case.reach("carry-out-of-32");
        }
        if saw_carry64 {
            case.reach("carry-out-of-64");
        }
        if saw_odd {
            case.reach("odd-length");
        }
        if saw_even {
            case.reach("even-length");
        }
        case.outcome(outcome);
    }
}

/// all helper-level checks of one byte string
fn check_string(hk: &mut Hk, s: &[u8], abuf: &mut ABuf, arena: &Arena) {
    let l = s.len();
    let runs0 = hk.runs;
    let want = !ref_sum(s);
    let top = l & !1usize; // largest even offset
    let nonzero = s.iter().any(|b| *b != 0);
    if want == 0 {
        hk.saw_zero_csum = true;
    }
    if l % 2 == 1 {
        hk.saw_odd = true;
    } else {
        hk.saw_even = true;
    }

    // (1) the whole string through add_slice at every alignment 0..7 and flush against a guard page
    for off in 0..8usize {
        abuf.0[off..off + l].copy_from_slice(s);
        for imp in IMPS {
            let a = Acc::start(imp, 0, &mut hk.evals).slice(&abuf.0[off..off + l], &mut hk.evals);
            hk.verdict("add_slice-aligned", imp, &a, want, s, 0, &|| format!("whole string via add_slice at offset {} of an 8-byte aligned buffer", off));
        }
    }
    {
        let g = arena.place_end(s);
        for imp in IMPS {
            let a = Acc::start(imp, 0, &mut hk.evals).slice(g, &mut hk.evals);
            hk.verdict("add_slice-guard-page", imp, &a, want, s, 0, &|| "whole string via add_slice, placed flush against a PROT_NONE page".to_string());
        }
    }

    // (2) every 3-way split at even offsets k1 <= k2 (2-way splits are the ones with an empty chunk)
    let mut k1 = 0;
    while k1 <= top {
        let mut k2 = k1;
        while k2 <= top {
            for imp in IMPS {
                let a = Acc::start(imp, 0, &mut hk.evals).slice(&s[..k1], &mut hk.evals).slice(&s[k1..k2], &mut hk.evals).slice(&s[k2..], &mut hk.evals);
                hk.verdict("split", imp, &a, want, s, 0, &|| format!("add_slice([..{}]), add_slice([{}..{}]), add_slice([{}..])", k1, k1, k2, k2));
            }
            k2 += 2;
        }
        k1 += 2;
    }

    // (3) add_*bytes decompositions: greedy pieces of at most `maxp` bytes, the odd trailing byte either
    //     through add_slice(&[b]) or as the zero padded word add_2bytes([b, 0])
    for imp in IMPS {
        for maxp in [2usize, 4, 8, 16] {
            if maxp > imp.max_piece() || (maxp > 2 && top < maxp) {
                continue; // API does not exist / identical to the next smaller decomposition
            }
            for tail in 0..2 {
                if l % 2 == 0 && tail == 1 {
                    continue;
                }
                let mut a = Acc::start(imp, 0, &mut hk.evals);
                let mut p = 0;
                while p < top {
                    let mut n = maxp;
                    while n > top - p {
                        n /= 2;
                    }
                    a = a.piece(&s[p..p + n], &mut hk.evals);
                    p += n;
                }
                if l % 2 == 1 {
                    a = if tail == 0 { a.slice(&s[top..], &mut hk.evals) } else { a.b2([s[top], 0], &mut hk.evals) };
                }
                hk.verdict("decomposition", imp, &a, want, s, 0, &|| format!("greedy add_*bytes pieces of at most {} bytes, odd tail via {}", maxp, if tail == 0 { "add_slice" } else { "add_2bytes([b,0])" }));
            }
        }
        // one leading add_Nbytes, the rest through add_slice
        for n in [2usize, 4, 8, 16] {
            if n > imp.max_piece() || n > top {
                continue;
            }
            let a = Acc::start(imp, 0, &mut hk.evals).piece(&s[..n], &mut hk.evals).slice(&s[n..], &mut hk.evals);
            hk.verdict("piece-then-slice", imp, &a, want, s, 0, &|| format!("add_{}bytes([..{}]) then add_slice of the rest", n, n));
        }
    }

    // (4) non-zero start accumulators. A start sum S is the state reached by adding the native-endian bytes of S
    //     to an empty accumulator, so the final result must be the reference of S.to_ne_bytes() ‖ data.
    for imp in IMPS {
        for &st in imp.starts() {
            let pre8 = st.to_ne_bytes();
            let pre4 = (st as u32).to_ne_bytes();
            let pre: &[u8] = if imp.start_bytes() == 4 { &pre4 } else { &pre8 };
            let want_s = !ref_sum_parts(&[pre, s]);
            if st == imp.start_max() && nonzero {
                if imp == Imp::M32 {
                    hk.saw_carry32 = true;
                } else {
                    hk.saw_carry64 = true;
                }
            }
            let a = Acc::start(imp, st, &mut hk.evals).slice(s, &mut hk.evals);
            hk.verdict("start-whole", imp, &a, want_s, s, st, &|| "start accumulator, then add_slice of the whole string".to_string());
            let mut k = 2;
            while k <= top {
                let a = Acc::start(imp, st, &mut hk.evals).slice(&s[..k], &mut hk.evals).slice(&s[k..], &mut hk.evals);
                hk.verdict("start-split", imp, &a, want_s, s, st, &|| format!("start accumulator, add_slice([..{}]), add_slice([{}..])", k, k));
                k += 2;
            }
            for maxp in [2usize, 4, 8] {
                if maxp > imp.max_piece() || (maxp > 2 && top < maxp) {
                    continue;
                }
                let mut a = Acc::start(imp, st, &mut hk.evals);
                let mut p = 0;
                while p < top {
                    let mut n = maxp;
                    while n > top - p {
                        n /= 2;
                    }
                    a = a.piece(&s[p..p + n], &mut hk.evals);
                    p += n;
                }
                if l % 2 == 1 {
                    a = a.slice(&s[top..], &mut hk.evals);
                }
                hk.verdict("start-decomposition", imp, &a, want_s, s, st, &|| format!("start accumulator, greedy add_*bytes pieces of at most {} bytes", maxp));
            }
        }
    }
    if nonzero {
        hk.nontrivial += hk.runs - runs0;
    }
}

fn a1_max_len(tier: Tier) -> usize {
    // measured: length <= 12 costs ~2800 CPU-s (3 min on 16 idle cores, > 10 min on a loaded machine), <= 11 ~600 CPU-s
    if tier.is_thorough() {
        11
    } else {
        9
    }
}
fn a1_units(tier: Tier) -> u64 {
    if tier.is_thorough() {
        256
    } else {
        64
    }
}
fn a2_max_len(tier: Tier) -> usize {
    if tier.is_thorough() {
        258
    } else {
        130
    }
}
const A2_UNITS: u64 = 16;
const A1_CASE_STRINGS: u64 = 32768;

fn run_a1(tier: Tier, u: u64, ctx: &mut Ctx) {
    let nu = a1_units(tier);
    let arena = Arena::new(1);
    let mut abuf = ABuf([0; 1024]);
    for l in 0..=a1_max_len(tier) {
        let total = 5u64.pow(l as u32);
        let lo = total * u / nu;
        let hi = total * (u + 1) / nu;
        let mut c_lo = lo;
        while c_lo < hi {
            let c_hi = (c_lo + A1_CASE_STRINGS).min(hi);
            let (abuf, arena) = (&mut abuf, &arena);
            ctx.case(
                None,
                || CaseDesc {
                    shape: "helper:alphabet-strings".into(),
                    text: format!("checksum helpers on all strings of length {} over {{00,01,7f,80,ff}} with index in [{},{}) (byte j = alphabet[(index / 5^j) % 5]); alignments, splits, decompositions, start accumulators", l, c_lo, c_hi),
                    rank: l as u64,
                },
                |case| {
                    case.at("checksum helpers");
                    let mut hk = Hk::new(case);
                    let mut s = [0u8; 16];
                    for idx in c_lo..c_hi {
                        let mut x = idx;
                        for j in 0..l {
                            s[j] = ALPHA[(x % 5) as usize];
                            x /= 5;
                        }
                        check_string(&mut hk, &s[..l], abuf, arena);
                    }
                    if l == 0 {
                        hk.case.reach("empty-string");
                    }
                    hk.finish(format!("helper:alphabet:len={}", l));
                },
            );
            c_lo = c_hi;
        }
    }
}

fn pattern_string(l: usize, pat: usize, pos: usize) -> Vec<u8> {
    match pat {
        0 => vec![0u8; l],
        1 => vec![0xffu8; l],
        2 => (0..l).map(|i| i as u8).collect(),
        3 => (0..l).map(|i| if i % 2 == 0 { 0x00 } else { 0xff }).collect(),
        4 => (0..l).map(|i| if i % 2 == 0 { 0xff } else { 0x00 }).collect(),
        _ => {
            let mut v = vec![0u8; l];
            v[pos] = 0x01;
            v
        }
    }
}
const PATTERN_NAMES: [&str; 6] = ["zeros", "ones(ff)", "ascending", "00ff..", "ff00..", "single 01 at every position"];

fn run_a2(tier: Tier, u: u64, ctx: &mut Ctx) {
    let arena = Arena::new(1);
    let mut abuf = ABuf([0; 1024]);
    for l in 10..=a2_max_len(tier) {
        if (l as u64 - 10) % A2_UNITS != u {
            continue;
        }
        for pat in 0..6usize {
            let (abuf, arena) = (&mut abuf, &arena);
            ctx.case(
                None,
                || CaseDesc { shape: "helper:pattern-strings".into(), text: format!("checksum helpers on the length {} string(s) of pattern `{}`; alignments, all 2-/3-way even splits, decompositions, start accumulators", l, PATTERN_NAMES[pat]), rank: l as u64 },
                |case| {
                    case.at("checksum helpers");
                    let mut hk = Hk::new(case);
                    let n = if pat == 5 { l } else { 1 };
                    for pos in 0..n {
                        let s = pattern_string(l, pat, pos);
                        check_string(&mut hk, &s, abuf, arena);
                    }
                    hk.case.reach("long-pattern");
                    hk.finish(format!("helper:pattern:{}:{}", PATTERN_NAMES[pat], if l % 2 == 0 { "even" } else { "odd" }));
                },
            );
        }
    }
}

// ------------------------------------------------------------------------------------------
// (b) protocol level: shared pieces

const PAY_LENS: [usize; 13] = [0, 1, 2, 3, 4, 5, 6, 7, 8, 9, 15, 16, 17];

/// payload lengths 0..=9,15,16,17 x {zeros, ones, ascending from 1}
fn payloads() -> Vec<Vec<u8>> {
    let mut v = vec![];
    for l in PAY_LENS {
        for pat in 0..3 {
            if l == 0 && pat > 0 {
                continue;
            }
            v.push(match pat {
                0 => vec![0u8; l],
                1 => vec![0xffu8; l],
                _ => (0..l).map(|i| (i + 1) as u8).collect(),
            });
        }
    }
    v
}

const A4: [([u8; 4], [u8; 4]); 3] = [([0; 4], [0; 4]), ([255; 4], [255; 4]), ([192, 168, 1, 2], [10, 0x80, 0xff, 0x7f])];
const A6: [([u8; 16], [u8; 16]); 3] = [
    ([0; 16], [0; 16]),
    ([255; 16], [255; 16]),
    ([0x20, 0x01, 0x0d, 0xb8, 0x85, 0xa3, 0, 0, 0, 0, 0x8a, 0x2e, 0x03, 0x70, 0x73, 0x34], [0xfe, 0x80, 0, 0, 0, 0, 0, 0, 0x02, 0x00, 0xff, 0xfe, 0x00, 0x01, 0x7f, 0x80]),
];

// protocol numbers (IANA): written here as literals, not taken from the crate
const P_TCP: u8 = 6;
const P_UDP: u8 = 17;
const P_ICMPV6: u8 = 58;

/// RFC 768 / RFC 793: source, destination, zero, protocol, 16-bit length
fn pseudo4(src: [u8; 4], dst: [u8; 4], proto: u8, len: usize) -> Vec<u8> {
    let mut v = vec![];
    v.extend_from_slice(&src);
    v.extend_from_slice(&dst);
    v.push(0);
    v.push(proto);
    v.extend_from_slice(&(len as u16).to_be_bytes());
    v
}
/// RFC 8200 §8.1: source, destination, 32-bit upper-layer packet length, 3 zero bytes, next header
fn pseudo6(src: [u8; 16], dst: [u8; 16], proto: u8, len: usize) -> Vec<u8> {
    let mut v = vec![];
    v.extend_from_slice(&src);
    v.extend_from_slice(&dst);
    v.extend_from_slice(&(len as u32).to_be_bytes());
    v.extend_from_slice(&[0, 0, 0, proto]);
    v
}

#[derive(Clone, Copy, PartialEq, Eq)]
enum Addr {
    V4([u8; 4], [u8; 4]),
    V6([u8; 16], [u8; 16]),
}
impl Addr {
    fn pseudo(&self, proto: u8, len: usize) -> Vec<u8> {
        match self {
            Addr::V4(s, d) => pseudo4(*s, *d, proto, len),
            Addr::V6(s, d) => pseudo6(*s, *d, proto, len),
        }
    }
    fn text(&self) -> String {
        match self {
            Addr::V4(s, d) => format!("ipv4 {}->{}", hex(s), hex(d)),
            Addr::V6(s, d) => format!("ipv6 {}->{}", hex(s), hex(d)),
        }
    }
    fn v(&self) -> &'static str {
        match self {
            Addr::V4(..) => "ipv4",
            Addr::V6(..) => "ipv6",
        }
    }
}
fn addrs() -> Vec<Addr> {
    let mut v: Vec<Addr> = A4.iter().map(|(s, d)| Addr::V4(*s, *d)).collect();
    v.extend(A6.iter().map(|(s, d)| Addr::V6(*s, *d)));
    v
}
fn ip4_header(src: [u8; 4], dst: [u8; 4], proto: u8, payload_len: usize) -> Ipv4Header {
    Ipv4Header::new(payload_len.min(65515) as u16, 64, IpNumber(proto), src, dst).unwrap()
}
fn ip6_header(src: [u8; 16], dst: [u8; 16], proto: u8, payload_len: usize) -> Ipv6Header {
    Ipv6Header { traffic_class: 0, flow_label: Default::default(), payload_length: payload_len as u16, next_header: IpNumber(proto), hop_limit: 64, source: src, destination: dst }
}

struct Pk<'c> {
    case: &'c mut Case,
    n: u64,
    evals: u64,
    nontrivial: u64,
    udp_zero: u64,
    accept: u64,
    reject: u64,
    failed_apis: Vec<&'static str>,
}
impl<'c> Pk<'c> {
    fn new(case: &'c mut Case) -> Pk<'c> {
        Pk { case, n: 0, evals: 0, nontrivial: 0, udp_zero: 0, accept: 0, reject: 0, failed_apis: vec![] }
    }
    /// the framework keeps at most 8 violations per case: render one per API so that all failing APIs show up
    fn fails_left(&mut self, api: &'static str) -> bool {
        if self.failed_apis.contains(&api) {
            return false;
        }
        self.failed_apis.push(api);
        true
    }
    /// one (API, input) state: the checksum `got` the API produced against the reference
    #[inline]
    fn eq16(&mut self, api: &'static str, got: u16, want: u16, what: &dyn Fn() -> String) {
        self.n += 1;
        self.evals += 1;
        self.nontrivial += 1;
        if got != want && self.fails_left(api) {
            self.case.fail(format!("{}:wrong-checksum", api), format!("{} gives {:#06x}, RFC reference {:#06x}; {}", api, got, want, what()));
        }
    }
    /// UDP: `raw` is the reference checksum, a computed 0 must appear as 0xffff
    #[inline]
    fn eq_udp(&mut self, api: &'static str, got: u16, raw: u16, what: &dyn Fn() -> String) {
        if raw == 0 {
            self.udp_zero += 1;
            self.n += 1;
            self.evals += 1;
            self.nontrivial += 1;
            if got == 0 {
                self.case.fail(format!("{}:udp-computed-0-transmitted-as-0", api), format!("{} gives 0 for a message whose checksum computes to 0 (must be 0xffff, RFC 768); {}", api, what()));
            } else if got != 0xffff {
                self.case.fail(format!("{}:wrong-checksum", api), format!("{} gives {:#06x}, RFC reference 0 -> 0xffff; {}", api, got, what()));
            }
        } else {
            self.eq16(api, got, raw, what);
        }
    }
    fn machinery(&mut self, api: &'static str, msg: String) {
        self.case.fail(format!("{}:unexpected-error", api), msg);
    }
    fn finish(self, outcome: String) {
        let Pk { case, n, evals, nontrivial, udp_zero, accept, reject, failed_apis: _ } = self;
        case.states(n);
        case.evals(evals);
        case.nontrivial_n(nontrivial);
        if udp_zero > 0 {
            case.reach("udp-zero-to-ffff");
        }
        if accept > 0 {
            case.reach("validator-accept");
        }
        if reject > 0 {
            case.reach("validator-reject");
        }
        case.outcome(outcome);
    }
}

#[derive(Clone, Copy, PartialEq, Eq)]
enum Kind {
    Udp,
    Tcp,
    Icmp4,
    Icmp6,
}

/// A complete packet as emitted by `PacketBuilder` (after `link_len` bytes of link header): check the IPv4 header
/// checksum and the transport checksum as a receiver would, from the emitted bytes only.
fn check_packet(pk: &mut Pk, api: &'static str, out: &[u8], link_len: usize, kind: Kind, what: &dyn Fn() -> String) {
    let ip = &out[link_len..];
    let (addr, seg): (Addr, &[u8]) = match ip[0] >> 4 {
        4 => {
            let ihl = ((ip[0] & 0xf) as usize) * 4;
            let mut h = ip[..ihl].to_vec();
            let got = u16::from_be_bytes([h[10], h[11]]);
            h[10] = 0;
            h[11] = 0;
            pk.eq16(api, got, ref_csum(&[&h]), &|| format!("IPv4 header checksum in builder output {}; {}", hex(out), what()));
            (Addr::V4(ip[12..16].try_into().unwrap(), ip[16..20].try_into().unwrap()), &ip[ihl..])
        }
        6 => (Addr::V6(ip[8..24].try_into().unwrap(), ip[24..40].try_into().unwrap()), &ip[40..]),
        _ => {
            pk.machinery(api, format!("builder output is neither IPv4 nor IPv6: {}", hex(out)));
            return;
        }
    };
    let (off, proto) = match kind {
        Kind::Udp => (6, Some(P_UDP)),
        Kind::Tcp => (16, Some(P_TCP)),
        Kind::Icmp4 => (2, None),
        Kind::Icmp6 => (2, Some(P_ICMPV6)),
    };
    if seg.len() < off + 2 {
        pk.machinery(api, format!("builder output too short: {}", hex(out)));
        return;
    }
    let got = u16::from_be_bytes([seg[off], seg[off + 1]]);
    let mut z = seg.to_vec();
    z[off] = 0;
    z[off + 1] = 0;
    let pseudo = match proto {
        Some(p) => addr.pseudo(p, seg.len()),
        None => vec![],
    };
    let raw = ref_csum(&[&pseudo, &z]);
    let w = || format!("transport checksum in builder output {}; {}", hex(out), what());
    if kind == Kind::Udp {
        pk.eq_udp(api, got, raw, &w);
    } else {
        pk.eq16(api, got, raw, &w);
    }
}

enum Tp {
    Udp(u16, u16),
    Tcp(TcpHeader),
    Icmp4(Icmpv4Type),
    Icmp6(Icmpv6Type),
}

/// run the packet builder; returns (link header length, bytes)
fn build(link: bool, addr: &Addr, v4_header: Option<&Ipv4Header>, tp: &Tp, payload: &[u8]) -> Result<(usize, Vec<u8>), String> {
    let eth = || PacketBuilder::ethernet2([1, 2, 3, 4, 5, 6], [7, 8, 9, 10, 11, 12]);
    let step = match (link, addr, v4_header) {
        (false, _, Some(h)) => PacketBuilder::ip(IpHeaders::Ipv4(h.clone(), Default::default())),
        (true, _, Some(h)) => eth().ip(IpHeaders::Ipv4(h.clone(), Default::default())),
        (false, Addr::V4(s, d), None) => PacketBuilder::ipv4(*s, *d, 64),
        (true, Addr::V4(s, d), None) => eth().ipv4(*s, *d, 64),
        (false, Addr::V6(s, d), None) => PacketBuilder::ipv6(*s, *d, 64),
        (true, Addr::V6(s, d), None) => eth().ipv6(*s, *d, 64),
    };
    let mut out = Vec::new();
    let r = match tp {
        Tp::Udp(sp, dp) => step.udp(*sp, *dp).write(&mut out, payload),
        Tp::Tcp(h) => step.tcp_header(h.clone()).write(&mut out, payload),
        Tp::Icmp4(t) => step.icmpv4(t.clone()).write(&mut out, payload),
        Tp::Icmp6(t) => step.icmpv6(t.clone()).write(&mut out, payload),
    };
    r.map_err(|e| format!("{:?}", e))?;
    Ok((if link { 14 } else { 0 }, out))
}

fn check_build(pk: &mut Pk, api: &'static str, link: bool, addr: &Addr, v4_header: Option<&Ipv4Header>, tp: &Tp, payload: &[u8], what: &dyn Fn() -> String) {
    let kind = match tp {
        Tp::Udp(..) => Kind::Udp,
        Tp::Tcp(..) => Kind::Tcp,
        Tp::Icmp4(..) => Kind::Icmp4,
        Tp::Icmp6(..) => Kind::Icmp6,
    };
    pk.case.at(api);
    match build(link, addr, v4_header, tp, payload) {
        Ok((ll, out)) => check_packet(pk, api, &out, ll, kind, what),
        Err(e) => pk.machinery(api, format!("PacketBuilder write failed with {}; {}", e, what())),
    }
}

// ------------------------------------------------------------------------------------------
// IPv4 header

fn ip4_options() -> Vec<Vec<u8>> {
    vec![vec![], vec![0xff; 4], (1..=12u8).collect(), (0..20u8).map(|i| 0xf0 ^ i).collect(), vec![0xff; 40], vec![0; 40]]
}

/// all checksum APIs of one Ipv4Header value
fn check_ip4_header(pk: &mut Pk, h: &Ipv4Header) {
    let emitted = h.to_bytes();
    let mut z = emitted.to_vec();
    z[10] = 0;
    z[11] = 0;
    let want = ref_csum(&[&z]);
    let what = || format!("header {:?} (to_bytes {})", h, hex(&emitted));
    pk.case.at("Ipv4Header::calc_header_checksum");
    pk.eq16("Ipv4Header::calc_header_checksum", h.calc_header_checksum(), want, &what);
    pk.case.at("Ipv4Header::write");
    let mut w = Vec::new();
    match h.write(&mut w) {
        Ok(()) => {
            let mut exp = z.clone();
            exp[10..12].copy_from_slice(&want.to_be_bytes());
            pk.n += 1;
            pk.evals += 1;
            pk.nontrivial += 1;
            if w != exp {
                pk.case.fail("Ipv4Header::write:wrong-checksum-or-bytes", format!("write emitted {}, expected {} (reference checksum {:#06x}); {}", hex(&w), hex(&exp), want, what()));
            }
        }
        Err(e) => pk.machinery("Ipv4Header::write", format!("{:?}; {}", e, what())),
    }
    // the documented way: header_checksum = calc_header_checksum(), then to_bytes / write_raw
    let mut h2 = h.clone();
    h2.header_checksum = h2.calc_header_checksum();
    let b2 = h2.to_bytes();
    pk.eq16("Ipv4Header::to_bytes", u16::from_be_bytes([b2[10], b2[11]]), want, &what);
    let mut w2 = Vec::new();
    if h2.write_raw(&mut w2).is_ok() && w2.len() >= 12 {
        pk.eq16("Ipv4Header::write_raw", u16::from_be_bytes([w2[10], w2[11]]), want, &what);
    } else {
        pk.machinery("Ipv4Header::write_raw", format!("failed or short; {}", what()));
    }
    pk.evals += 1; // the second calc_header_checksum
}

const IP4_PRODUCT_PARTS: u64 = 4;

fn run_ip4_product(part: u64, ctx: &mut Ctx) {
    let dscp = [0u8, 63, 0x15];
    let ecn = [0u8, 3, 1];
    let tl = [0u16, 0xffff, 0x1234];
    let id = [0u16, 0xffff, 0xabcd];
    let fo = [0u16, 0x1fff, 0x0aaa];
    let ttl = [0u8, 255, 64];
    let pr = [0u8, 255, 17];
    let garbage = [0u16, 0xffff, 0x1234];
    let opts = ip4_options();
    for (ai, (src, dst)) in A4.iter().enumerate() {
        for (oi, o) in opts.iter().enumerate() {
            ctx.case(
                None,
                || CaseDesc { shape: "ipv4:product".into(), text: format!("Ipv4Header checksum APIs: product of dscp{:?} ecn{:?} total_len{:?} id{:?} df mf frag{:?} ttl{:?} proto{:?} (every 4th combination, part {}), addresses {}->{}, options {}", dscp, ecn, tl, id, fo, ttl, pr, part, hex(src), hex(dst), hex(o)), rank: (oi * 3 + ai) as u64 },
                |case| {
                    let mut pk = Pk::new(case);
                    let mut i = 0u64;
                    for a in dscp {
                        for b in ecn {
                            for c in tl {
                                for d in id {
                                    for df in [false, true] {
                                        for mf in [false, true] {
                                            for e in fo {
                                                for f in ttl {
                                                    for g in pr {
                                                        i += 1;
                                                        if i % IP4_PRODUCT_PARTS != part {
                                                            continue;
                                                        }
                                                        let h = Ipv4Header {
                                                            dscp: IpDscp::try_new(a).unwrap(),
                                                            ecn: IpEcn::try_new(b).unwrap(),
                                                            total_len: c,
                                                            identification: d,
                                                            dont_fragment: df,
                                                            more_fragments: mf,
                                                            fragment_offset: IpFragOffset::try_new(e).unwrap(),
                                                            time_to_live: f,
                                                            protocol: IpNumber(g),
                                                            header_checksum: garbage[(i % 3) as usize],
                                                            source: *src,
                                                            destination: *dst,
                                                            options: Ipv4Options::try_from(&o[..]).unwrap(),
                                                        };
                                                        check_ip4_header(&mut pk, &h);
                                                    }
                                                }
                                            }
                                        }
                                    }
                                }
                            }
                        }
                    }
                    pk.case.reach("ipv4-header");
                    if !o.is_empty() {
                        pk.case.reach("ipv4-header-options");
                    }
                    pk.finish(format!("ipv4:product:options={}", o.len()));
                },
            );
        }
    }
}

/// every value of one 16-bit word of the header against three backgrounds
fn run_ip4_sweep(field: u64, ctx: &mut Ctx) {
    let names = ["total_len", "identification", "flags+fragment_offset", "ttl+protocol"];
    for bg in 0..3usize {
        ctx.case(
            None,
            || CaseDesc { shape: "ipv4:sweep".into(), text: format!("Ipv4Header checksum APIs: every value of {} with all other fields {}", names[field as usize], ["min", "max", "mixed"][bg]), rank: bg as u64 },
            |case| {
                let mut pk = Pk::new(case);
                let base = match bg {
                    0 => Ipv4Header { dscp: IpDscp::try_new(0).unwrap(), ecn: IpEcn::try_new(0).unwrap(), total_len: 0, identification: 0, dont_fragment: false, more_fragments: false, fragment_offset: IpFragOffset::try_new(0).unwrap(), time_to_live: 0, protocol: IpNumber(0), header_checksum: 0, source: [0; 4], destination: [0; 4], options: Default::default() },
                    1 => Ipv4Header { dscp: IpDscp::try_new(63).unwrap(), ecn: IpEcn::try_new(3).unwrap(), total_len: 0xffff, identification: 0xffff, dont_fragment: true, more_fragments: true, fragment_offset: IpFragOffset::try_new(0x1fff).unwrap(), time_to_live: 255, protocol: IpNumber(255), header_checksum: 0xffff, source: [255; 4], destination: [255; 4], options: Ipv4Options::try_from(&[0xffu8; 40][..]).unwrap() },
                    _ => Ipv4Header { dscp: IpDscp::try_new(0x2e).unwrap(), ecn: IpEcn::try_new(1).unwrap(), total_len: 1500, identification: 0xbeef, dont_fragment: true, more_fragments: false, fragment_offset: IpFragOffset::try_new(185).unwrap(), time_to_live: 64, protocol: IpNumber(6), header_checksum: 0x1234, source: [192, 168, 1, 2], destination: [10, 0x80, 0xff, 0x7f], options: Ipv4Options::try_from(&[1u8, 2, 3, 4, 5, 6, 7, 8][..]).unwrap() },
                };
                for v in 0..=0xffffu16 {
                    let mut h = base.clone();
                    match field {
                        0 => h.total_len = v,
                        1 => h.identification = v,
                        2 => {
                            if v & 0x8000 != 0 {
                                continue; // reserved bit is not representable
                            }
                            h.dont_fragment = v & 0x4000 != 0;
                            h.more_fragments = v & 0x2000 != 0;
                            h.fragment_offset = IpFragOffset::try_new(v & 0x1fff).unwrap();
                        }
                        _ => {
                            h.time_to_live = (v >> 8) as u8;
                            h.protocol = IpNumber(v as u8);
                        }
                    }
                    check_ip4_header(&mut pk, &h);
                }
                pk.case.reach("ipv4-header");
                pk.finish(format!("ipv4:sweep:{}", names[field as usize]));
            },
        );
    }
}

// ------------------------------------------------------------------------------------------
// UDP

const PORTS: [u16; 6] = [0, 1, 0x7fff, 0x8000, 0xffff, 0x1234];

fn udp_ref(addr: &Addr, sp: u16, dp: u16, payload: &[u8]) -> u16 {
    // RFC 768: pseudo header, then source port, destination port, length, zero checksum, data
    let len = 8 + payload.len();
    let mut hdr = vec![];
    hdr.extend_from_slice(&sp.to_be_bytes());
    hdr.extend_from_slice(&dp.to_be_bytes());
    hdr.extend_from_slice(&(len as u16).to_be_bytes());
    hdr.extend_from_slice(&[0, 0]);
    ref_csum(&[&addr.pseudo(P_UDP, len), &hdr, payload])
}

/// every UDP checksum API for one (addresses, ports, payload)
fn check_udp(pk: &mut Pk, addr: &Addr, sp: u16, dp: u16, payload: &[u8], garbage: u16, with_builder: bool) {
    let raw = udp_ref(addr, sp, dp, payload);
    let what = || format!("udp {} sport={:#06x} dport={:#06x} payload={}", addr.text(), sp, dp, hex(payload));
    let hdr = UdpHeader { source_port: sp, destination_port: dp, length: (8 + payload.len()) as u16, checksum: garbage };
    match addr {
        Addr::V4(s, d) => {
            let ip = ip4_header(*s, *d, P_UDP, 8 + payload.len());
            pk.case.at("UdpHeader::with_ipv4_checksum");
            match UdpHeader::with_ipv4_checksum(sp, dp, &ip, payload) {
                Ok(h) => {
                    pk.eq_udp("UdpHeader::with_ipv4_checksum", h.checksum, raw, &what);
                    if h.length as usize != 8 + payload.len() {
                        pk.machinery("UdpHeader::with_ipv4_checksum", format!("length field {} ; {}", h.length, what()));
                    }
                    let b = h.to_bytes();
                    pk.eq_udp("UdpHeader::to_bytes", u16::from_be_bytes([b[6], b[7]]), raw, &what);
                }
                Err(e) => pk.machinery("UdpHeader::with_ipv4_checksum", format!("{:?}; {}", e, what())),
            }
            pk.case.at("UdpHeader::calc_checksum_ipv4");
            match hdr.calc_checksum_ipv4(&ip, payload) {
                Ok(c) => pk.eq_udp("UdpHeader::calc_checksum_ipv4", c, raw, &what),
                Err(e) => pk.machinery("UdpHeader::calc_checksum_ipv4", format!("{:?}; {}", e, what())),
            }
            match hdr.calc_checksum_ipv4_raw(*s, *d, payload) {
                Ok(c) => pk.eq_udp("UdpHeader::calc_checksum_ipv4_raw", c, raw, &what),
                Err(e) => pk.machinery("UdpHeader::calc_checksum_ipv4_raw", format!("{:?}; {}", e, what())),
            }
            pk.case.at("TransportHeader::update_checksum_ipv4");
            let mut t = TransportHeader::Udp(hdr.clone());
            match t.update_checksum_ipv4(&ip, payload) {
                Ok(()) => pk.eq_udp("TransportHeader::update_checksum_ipv4(udp)", t.udp().unwrap().checksum, raw, &what),
                Err(e) => pk.machinery("TransportHeader::update_checksum_ipv4(udp)", format!("{:?}; {}", e, what())),
            }
        }
        Addr::V6(s, d) => {
            let ip = ip6_header(*s, *d, P_UDP, 8 + payload.len());
            pk.case.at("UdpHeader::with_ipv6_checksum");
            match UdpHeader::with_ipv6_checksum(sp, dp, &ip, payload) {
                Ok(h) => {
                    pk.eq_udp("UdpHeader::with_ipv6_checksum", h.checksum, raw, &what);
                    if h.length as usize != 8 + payload.len() {
                        pk.machinery("UdpHeader::with_ipv6_checksum", format!("length field {} ; {}", h.length, what()));
                    }
                    let b = h.to_bytes();
                    pk.eq_udp("UdpHeader::to_bytes", u16::from_be_bytes([b[6], b[7]]), raw, &what);
                }
                Err(e) => pk.machinery("UdpHeader::with_ipv6_checksum", format!("{:?}; {}", e, what())),
            }
            pk.case.at("UdpHeader::calc_checksum_ipv6");
            match hdr.calc_checksum_ipv6(&ip, payload) {
                Ok(c) => pk.eq_udp("UdpHeader::calc_checksum_ipv6", c, raw, &what),
                Err(e) => pk.machinery("UdpHeader::calc_checksum_ipv6", format!("{:?}; {}", e, what())),
            }
            match hdr.calc_checksum_ipv6_raw(*s, *d, payload) {
                Ok(c) => pk.eq_udp("UdpHeader::calc_checksum_ipv6_raw", c, raw, &what),
                Err(e) => pk.machinery("UdpHeader::calc_checksum_ipv6_raw", format!("{:?}; {}", e, what())),
            }
            pk.case.at("TransportHeader::update_checksum_ipv6");
            let mut t = TransportHeader::Udp(hdr.clone());
            match t.update_checksum_ipv6(&ip, payload) {
                Ok(()) => pk.eq_udp("TransportHeader::update_checksum_ipv6(udp)", t.udp().unwrap().checksum, raw, &what),
                Err(e) => pk.machinery("TransportHeader::update_checksum_ipv6(udp)", format!("{:?}; {}", e, what())),
            }
        }
    }
    if with_builder {
        let tp = Tp::Udp(sp, dp);
        check_build(pk, "PacketBuilder(udp)", false, addr, None, &tp, payload, &what);
        check_build(pk, "PacketBuilder(udp)", true, addr, None, &tp, payload, &what);
        if let Addr::V4(s, d) = addr {
            // an IPv4 header with options handed to the builder
            let mut ip = ip4_header(*s, *d, 0, 0);
            ip.options = Ipv4Options::try_from(&[0xffu8, 0x01, 0x80, 0x7f, 1, 2, 3, 4][..]).unwrap();
            ip.header_checksum = garbage;
            check_build(pk, "PacketBuilder(udp)", false, addr, Some(&ip), &tp, payload, &what);
        }
    }
}

fn run_udp(ai: usize, ctx: &mut Ctx) {
    let addr = addrs()[ai];
    let pays = payloads();
    for (si, sp) in PORTS.iter().enumerate() {
        ctx.case(
            None,
            || CaseDesc { shape: "udp:product".into(), text: format!("UDP checksum APIs: {} sport={:#06x} x dport{:?} x payload lengths {:?} x {{zeros,ones,ascending}}", addr.text(), sp, PORTS, PAY_LENS), rank: si as u64 },
            |case| {
                let mut pk = Pk::new(case);
                for (di, dp) in PORTS.iter().enumerate() {
                    for (pi, p) in pays.iter().enumerate() {
                        check_udp(&mut pk, &addr, *sp, *dp, p, [0, 0xffff, 0x1234][(di + pi) % 3], true);
                    }
                }
                pk.case.reach(format!("udp-{}", addr.v()));
                pk.finish(format!("udp:product:{}", addr.v()));
            },
        );
    }
}

/// all 65536 source ports: the checksum runs through every value, the computed-0 case included
fn run_udp_sweep(ai: usize, ctx: &mut Ctx) {
    let addr = addrs()[ai];
    let pays: Vec<Vec<u8>> = vec![vec![], vec![0xff; 9], (1..=16u8).collect()];
    for (pi, p) in pays.iter().enumerate() {
        for (di, dp) in [0u16, 0xfffe].iter().enumerate() {
            ctx.case(
                None,
                || CaseDesc { shape: "udp:sweep".into(), text: format!("UDP checksum APIs (no builder): {} every source port 0..=0xffff, dport={:#06x}, payload={}", addr.text(), dp, hex(p)), rank: (pi * 2 + di) as u64 },
                |case| {
                    let mut pk = Pk::new(case);
                    for sp in 0..=0xffffu16 {
                        check_udp(&mut pk, &addr, sp, *dp, p, sp ^ 0x5a5a, false);
                    }
                    if pk.udp_zero == 0 {
                        pk.machinery("udp-sweep", "a sweep over all 65536 source ports never produced a computed checksum of 0 (harness arithmetic is off)".into());
                    }
                    pk.case.reach(format!("udp-{}", addr.v()));
                    pk.finish(format!("udp:sweep:{}", addr.v()));
                },
            );
        }
    }
}

/// constructed inputs whose checksum computes to 0: one payload word is solved so that the complete sum folds to 0xffff
fn run_udp_zero(ctx: &mut Ctx) {
    let pays = payloads();
    for (ai, addr) in addrs().iter().enumerate() {
        ctx.case(
            None,
            || CaseDesc { shape: "udp:computed-zero".into(), text: format!("UDP checksum APIs and builder on constructed messages whose checksum computes to 0: {} x ports{:?}^2 x payloads (first or last aligned word solved)", addr.text(), &PORTS[..4]), rank: ai as u64 },
            |case| {
                let mut pk = Pk::new(case);
                for sp in &PORTS[..4] {
                    for dp in &PORTS[2..6] {
                        for p in pays.iter().filter(|p| p.len() >= 2) {
                            for pos in [0usize, (p.len() - 2) & !1usize] {
                                let mut q = p.clone();
                                q[pos] = 0;
                                q[pos + 1] = 0;
                                // sum of everything else (never 0: the pseudo header holds protocol 17 and a length >= 10)
                                let partial = !udp_ref(addr, *sp, *dp, &q);
                                let w = 0xffffu16 - partial; // partial + w == 0xffff in one's complement arithmetic
                                q[pos..pos + 2].copy_from_slice(&w.to_be_bytes());
                                if udp_ref(addr, *sp, *dp, &q) != 0 {
                                    pk.machinery("udp-zero", format!("construction failed for {} {:#x} {:#x} {}", addr.text(), sp, dp, hex(&q)));
                                    continue;
                                }
                                check_udp(&mut pk, addr, *sp, *dp, &q, 0, true);
                            }
                        }
                    }
                }
                pk.case.reach("udp-zero-constructed");
                pk.finish(format!("udp:computed-zero:{}", addr.v()));
            },
        );
    }
}

// ------------------------------------------------------------------------------------------
// TCP

const TCP_PARTS: u64 = 8;

fn tcp_options() -> Vec<Vec<u8>> {
    vec![vec![], vec![0xff; 4], (1..=12u8).collect(), vec![0xff; 40]]
}

fn tcp_headers() -> Vec<TcpHeader> {
    let p16 = [0u16, 0xffff, 0x1234];
    let p32 = [0u32, 0xffff_ffff, 0x8000_7f01];
    let garbage = [0u16, 0xffff, 0xbeef];
    let mut v = vec![];
    let mut i = 0usize;
    for sp in p16 {
        for dp in p16 {
            for seq in p32 {
                for ack in p32 {
                    for fl in 0..3u32 {
                        for win in p16 {
                            for urg in p16 {
                                for o in tcp_options() {
                                    i += 1;
                                    let bits: u32 = match fl {
                                        0 => 0,
                                        1 => 0x1ff,
                                        _ => 0x0a5,
                                    };
                                    let mut h = TcpHeader::new(sp, dp, seq, win);
                                    h.acknowledgment_number = ack;
                                    h.fin = bits & 1 != 0;
                                    h.syn = bits & 2 != 0;
                                    h.rst = bits & 4 != 0;
                                    h.psh = bits & 8 != 0;
                                    h.ack = bits & 16 != 0;
                                    h.urg = bits & 32 != 0;
                                    h.ece = bits & 64 != 0;
                                    h.cwr = bits & 128 != 0;
                                    h.ns = bits & 256 != 0;
                                    h.urgent_pointer = urg;
                                    h.checksum = garbage[i % 3];
                                    if i % 2 == 1 {
                                        // every second header gets its options through a history: 40 other bytes first, then the
                                        // target (the unused tail of the option buffer must not reach any checksum). Not 0xff / 0x00:
                                        // words of 0xffff and 0x0000 are both "zero" for a one's complement sum and would hide it
                                        let first: Vec<u8> = (0..40u8).map(|k| 0x31u8.wrapping_add(k.wrapping_mul(7))).collect();
                                        h.set_options_raw(&first).unwrap();
                                    }
                                    h.set_options_raw(&o).unwrap();
                                    v.push(h);
                                }
                            }
                        }
                    }
                }
            }
        }
    }
    v
}

/// every TCP checksum API for one header value
fn check_tcp(pk: &mut Pk, h: &TcpHeader, addr_list: &[Addr], pays: &[Vec<u8>], builder_every: usize) {
    let hb = h.to_bytes();
    let mut z = hb.to_vec();
    z[16] = 0;
    z[17] = 0;
    let hs = match TcpHeaderSlice::from_slice(&hb) {
        Ok(s) => s,
        Err(e) => {
            pk.machinery("TcpHeaderSlice::from_slice", format!("{:?} on emitted header {}", e, hex(&hb)));
            return;
        }
    };
    for addr in addr_list {
        for (pi, p) in pays.iter().enumerate() {
            let len = z.len() + p.len();
            let want = ref_csum(&[&addr.pseudo(P_TCP, len), &z, p]);
            let what = || format!("tcp {} header(to_bytes)={} payload={}", addr.text(), hex(&hb), hex(p));
            let mut seg = hb.to_vec();
            seg.extend_from_slice(p);
            let ts = match TcpSlice::from_slice(&seg) {
                Ok(s) => s,
                Err(e) => {
                    pk.machinery("TcpSlice::from_slice", format!("{:?}; {}", e, what()));
                    continue;
                }
            };
            match addr {
                Addr::V4(s, d) => {
                    let ip = ip4_header(*s, *d, P_TCP, len);
                    let ipb = ip.to_bytes();
                    pk.case.at("TcpHeader::calc_checksum_ipv4");
                    match h.calc_checksum_ipv4(&ip, p) {
                        Ok(c) => pk.eq16("TcpHeader::calc_checksum_ipv4", c, want, &what),
                        Err(e) => pk.machinery("TcpHeader::calc_checksum_ipv4", format!("{:?}; {}", e, what())),
                    }
                    match h.calc_checksum_ipv4_raw(*s, *d, p) {
                        Ok(c) => pk.eq16("TcpHeader::calc_checksum_ipv4_raw", c, want, &what),
                        Err(e) => pk.machinery("TcpHeader::calc_checksum_ipv4_raw", format!("{:?}; {}", e, what())),
                    }
                    pk.case.at("TcpHeaderSlice::calc_checksum_ipv4");
                    match Ipv4HeaderSlice::from_slice(&ipb) {
                        Ok(ips) => match hs.calc_checksum_ipv4(&ips, p) {
                            Ok(c) => pk.eq16("TcpHeaderSlice::calc_checksum_ipv4", c, want, &what),
                            Err(e) => pk.machinery("TcpHeaderSlice::calc_checksum_ipv4", format!("{:?}; {}", e, what())),
                        },
                        Err(e) => pk.machinery("Ipv4HeaderSlice::from_slice", format!("{:?}", e)),
                    }
                    match hs.calc_checksum_ipv4_raw(*s, *d, p) {
                        Ok(c) => pk.eq16("TcpHeaderSlice::calc_checksum_ipv4_raw", c, want, &what),
                        Err(e) => pk.machinery("TcpHeaderSlice::calc_checksum_ipv4_raw", format!("{:?}; {}", e, what())),
                    }
                    pk.case.at("TcpSlice::calc_checksum_ipv4");
                    match ts.calc_checksum_ipv4(*s, *d) {
                        Ok(c) => pk.eq16("TcpSlice::calc_checksum_ipv4", c, want, &what),
                        Err(e) => pk.machinery("TcpSlice::calc_checksum_ipv4", format!("{:?}; {}", e, what())),
                    }
                    pk.case.at("TransportHeader::update_checksum_ipv4");
                    let mut t = TransportHeader::Tcp(h.clone());
                    match t.update_checksum_ipv4(&ip, p) {
                        Ok(()) => pk.eq16("TransportHeader::update_checksum_ipv4(tcp)", t.tcp().unwrap().checksum, want, &what),
                        Err(e) => pk.machinery("TransportHeader::update_checksum_ipv4(tcp)", format!("{:?}; {}", e, what())),
                    }
                }
                Addr::V6(s, d) => {
                    let ip = ip6_header(*s, *d, P_TCP, len);
                    let ipb = ip.to_bytes();
                    pk.case.at("TcpHeader::calc_checksum_ipv6");
                    match h.calc_checksum_ipv6(&ip, p) {
                        Ok(c) => pk.eq16("TcpHeader::calc_checksum_ipv6", c, want, &what),
                        Err(e) => pk.machinery("TcpHeader::calc_checksum_ipv6", format!("{:?}; {}", e, what())),
                    }
                    match h.calc_checksum_ipv6_raw(*s, *d, p) {
                        Ok(c) => pk.eq16("TcpHeader::calc_checksum_ipv6_raw", c, want, &what),
                        Err(e) => pk.machinery("TcpHeader::calc_checksum_ipv6_raw", format!("{:?}; {}", e, what())),
                    }
                    pk.case.at("TcpHeaderSlice::calc_checksum_ipv6");
                    match Ipv6HeaderSlice::from_slice(&ipb) {
                        Ok(ips) => match hs.calc_checksum_ipv6(&ips, p) {
                            Ok(c) => pk.eq16("TcpHeaderSlice::calc_checksum_ipv6", c, want, &what),
                            Err(e) => pk.machinery("TcpHeaderSlice::calc_checksum_ipv6", format!("{:?}; {}", e, what())),
                        },
                        Err(e) => pk.machinery("Ipv6HeaderSlice::from_slice", format!("{:?}", e)),
                    }
                    match hs.calc_checksum_ipv6_raw(*s, *d, p) {
                        Ok(c) => pk.eq16("TcpHeaderSlice::calc_checksum_ipv6_raw", c, want, &what),
                        Err(e) => pk.machinery("TcpHeaderSlice::calc_checksum_ipv6_raw", format!("{:?}; {}", e, what())),
                    }
                    pk.case.at("TcpSlice::calc_checksum_ipv6");
                    match ts.calc_checksum_ipv6(*s, *d) {
                        Ok(c) => pk.eq16("TcpSlice::calc_checksum_ipv6", c, want, &what),
                        Err(e) => pk.machinery("TcpSlice::calc_checksum_ipv6", format!("{:?}; {}", e, what())),
                    }
                    pk.case.at("TransportHeader::update_checksum_ipv6");
                    let mut t = TransportHeader::Tcp(h.clone());
                    match t.update_checksum_ipv6(&ip, p) {
                        Ok(()) => pk.eq16("TransportHeader::update_checksum_ipv6(tcp)", t.tcp().unwrap().checksum, want, &what),
                        Err(e) => pk.machinery("TransportHeader::update_checksum_ipv6(tcp)", format!("{:?}; {}", e, what())),
                    }
                }
            }
            if builder_every != 0 && pi % builder_every == 0 {
                check_build(pk, "PacketBuilder(tcp)", pi % 2 == 1, addr, None, &Tp::Tcp(h.clone()), p, &what);
            }
        }
    }
}

fn run_tcp(part: u64, tier: Tier, ctx: &mut Ctx) {
    let hs = tcp_headers();
    let ad = addrs();
    let pays = payloads();
    // quick: builder on every 3rd payload (all lengths over the three patterns are still hit across headers)
    let be = if tier.is_thorough() { 1 } else { 3 };
    for (i, h) in hs.iter().enumerate() {
        if i as u64 % TCP_PARTS != part {
            continue;
        }
        ctx.case(
            None,
            || CaseDesc { shape: "tcp:product".into(), text: format!("TCP checksum APIs: header {:?} x 3 ipv4 + 3 ipv6 address pairs x payload lengths {:?} x {{zeros,ones,ascending}}", h, PAY_LENS), rank: i as u64 },
            |case| {
                let mut pk = Pk::new(case);
                check_tcp(&mut pk, h, &ad, &pays, if be == 1 { 1 } else { be + (i % 2) });
                pk.case.reach("tcp");
                if h.options.len() > 0 {
                    pk.case.reach("tcp-options");
                }
                pk.finish(format!("tcp:options={}", h.options.len()));
            },
        );
    }
}

// ------------------------------------------------------------------------------------------
// ICMPv4

/// ICMPv4 type values of the crate, obtained by decoding header bytes (covers every variant of the enum)
fn icmp4_types() -> Vec<Icmpv4Type> {
    let mut v: Vec<Icmpv4Type> = vec![];
    let mut add = |t: u8, c: u8, r: [u8; 4]| {
        let mut b = vec![t, c, 0x5a, 0xa5];
        b.extend_from_slice(&r);
        if (t == 13 || t == 14) && c == 0 {
            for k in 0..12 {
                b.push(r[k % 4] ^ (k as u8 / 4));
            }
        }
        let ty = Icmpv4Slice::from_slice(&b).expect("icmpv4 header bytes").header().icmp_type;
        if !v.contains(&ty) {
            v.push(ty);
        }
    };
    let rest = [[0u8; 4], [0xff; 4], [0x12, 0x34, 0x80, 0x01]];
    for t in [0u8, 3, 4, 5, 8, 11, 12, 13, 14, 1, 42, 255] {
        for c in (0..=16u8).chain([255u8]) {
            for r in rest {
                add(t, c, r);
            }
        }
    }
    for t in 0..=255u8 {
        for c in [0u8, 255] {
            add(t, c, [0x80, 0x7f, 0x01, 0xff]);
        }
    }
    v
}

fn check_icmp4(pk: &mut Pk, ty: &Icmpv4Type, pays: &[Vec<u8>], garbage: u16) {
    let hb = Icmpv4Header { icmp_type: ty.clone(), checksum: garbage }.to_bytes();
    let mut z = hb.to_vec();
    z[2] = 0;
    z[3] = 0;
    for (pi, p) in pays.iter().enumerate() {
        let want = ref_csum(&[&z, p]); // RFC 792: no pseudo header
        let what = || format!("icmpv4 {:?} header(to_bytes)={} payload={}", ty, hex(&hb), hex(p));
        pk.case.at("Icmpv4Type::calc_checksum");
        pk.eq16("Icmpv4Type::calc_checksum", ty.calc_checksum(p), want, &what);
        pk.case.at("Icmpv4Header::with_checksum");
        let h = Icmpv4Header::with_checksum(ty.clone(), p);
        pk.eq16("Icmpv4Header::with_checksum", h.checksum, want, &what);
        let b = h.to_bytes();
        pk.eq16("Icmpv4Header::to_bytes", u16::from_be_bytes([b[2], b[3]]), want, &what);
        let mut h2 = Icmpv4Header { icmp_type: ty.clone(), checksum: garbage };
        h2.update_checksum(p);
        pk.eq16("Icmpv4Header::update_checksum", h2.checksum, want, &what);
        pk.case.at("TransportHeader::update_checksum_ipv4");
        let (s4, d4) = A4[pi % 3];
        let mut t = TransportHeader::Icmpv4(Icmpv4Header { icmp_type: ty.clone(), checksum: garbage });
        match t.update_checksum_ipv4(&ip4_header(s4, d4, 1, hb.len() + p.len()), p) {
            Ok(()) => pk.eq16("TransportHeader::update_checksum_ipv4(icmpv4)", t.icmpv4().unwrap().checksum, want, &what),
            Err(e) => pk.machinery("TransportHeader::update_checksum_ipv4(icmpv4)", format!("{:?}; {}", e, what())),
        }
        let (s6, d6) = A6[pi % 3];
        let mut t = TransportHeader::Icmpv4(Icmpv4Header { icmp_type: ty.clone(), checksum: garbage });
        match t.update_checksum_ipv6(&ip6_header(s6, d6, 1, hb.len() + p.len()), p) {
            Ok(()) => pk.eq16("TransportHeader::update_checksum_ipv6(icmpv4)", t.icmpv4().unwrap().checksum, want, &what),
            Err(e) => pk.machinery("TransportHeader::update_checksum_ipv6(icmpv4)", format!("{:?}; {}", e, what())),
        }
        check_build(pk, "PacketBuilder(icmpv4)", pi % 2 == 1, &Addr::V4(s4, d4), None, &Tp::Icmp4(ty.clone()), p, &what);
        if pi % 4 == 0 {
            check_build(pk, "PacketBuilder(icmpv4)", false, &Addr::V6(s6, d6), None, &Tp::Icmp4(ty.clone()), p, &what);
        }
    }
}

fn run_icmp4(part: u64, ctx: &mut Ctx) {
    let tys = icmp4_types();
    let pays = payloads();
    for (i, ty) in tys.iter().enumerate() {
        if i as u64 % 2 != part {
            continue;
        }
        ctx.case(
            None,
            || CaseDesc { shape: "icmpv4".into(), text: format!("ICMPv4 checksum APIs: {:?} x payload lengths {:?} x {{zeros,ones,ascending}}", ty, PAY_LENS), rank: i as u64 },
            |case| {
                let mut pk = Pk::new(case);
                check_icmp4(&mut pk, ty, &pays, [0, 0xffff, 0x1234][i % 3]);
                pk.case.reach("icmpv4");
                pk.finish(format!("icmpv4:header_len={}", ty.header_len()));
            },
        );
    }
    if part == 0 {
        // builder short cuts
        ctx.case(
            None,
            || CaseDesc { shape: "icmpv4:builder-shortcuts".into(), text: "PacketBuilder icmpv4_raw / icmpv4_echo_request / icmpv4_echo_reply over ipv4, ids/seqs {0,ffff,1234}, all payloads".into(), rank: 0 },
            |case| {
                let mut pk = Pk::new(case);
                for (pi, p) in pays.iter().enumerate() {
                    let (s, d) = A4[pi % 3];
                    for id in [0u16, 0xffff, 0x1234] {
                        for seq in [0u16, 0xffff, 0x8001] {
                            let what = || format!("id={:#x} seq={:#x} {}->{} payload={}", id, seq, hex(&s), hex(&d), hex(p));
                            let mut out = Vec::new();
                            pk.case.at("PacketBuilder::icmpv4_echo_request");
                            match PacketBuilder::ipv4(s, d, 1).icmpv4_echo_request(id, seq).write(&mut out, p) {
                                Ok(()) => check_packet(&mut pk, "PacketBuilder::icmpv4_echo_request", &out, 0, Kind::Icmp4, &what),
                                Err(e) => pk.machinery("PacketBuilder::icmpv4_echo_request", format!("{:?}", e)),
                            }
                            let mut out = Vec::new();
                            match PacketBuilder::ipv4(s, d, 1).icmpv4_echo_reply(id, seq).write(&mut out, p) {
                                Ok(()) => check_packet(&mut pk, "PacketBuilder::icmpv4_echo_reply", &out, 0, Kind::Icmp4, &what),
                                Err(e) => pk.machinery("PacketBuilder::icmpv4_echo_reply", format!("{:?}", e)),
                            }
                            let mut out = Vec::new();
                            match PacketBuilder::ipv4(s, d, 1).icmpv4_raw(id as u8, seq as u8, [(id >> 8) as u8, 0x7f, 0x80, (seq >> 8) as u8]).write(&mut out, p) {
                                Ok(()) => check_packet(&mut pk, "PacketBuilder::icmpv4_raw", &out, 0, Kind::Icmp4, &what),
                                Err(e) => pk.machinery("PacketBuilder::icmpv4_raw", format!("{:?}", e)),
                            }
                        }
                    }
                }
                pk.finish("icmpv4:builder-shortcuts".into());
            },
        );
    }
}

// ------------------------------------------------------------------------------------------
// ICMPv6

fn icmp6_types() -> Vec<Icmpv6Type> {
    let mut v: Vec<Icmpv6Type> = vec![];
    let mut add = |t: u8, c: u8, r: [u8; 4]| {
        let mut b = vec![t, c, 0x5a, 0xa5];
        b.extend_from_slice(&r);
        let ty = Icmpv6Slice::from_slice(&b).expect("icmpv6 header bytes").icmp_type();
        if !v.contains(&ty) {
            v.push(ty);
        }
    };
    let rest = [[0u8; 4], [0xff; 4], [0x12, 0x34, 0x80, 0x01]];
    for t in [1u8, 2, 3, 4, 128, 129, 133, 134, 135, 136, 137, 0, 100, 130, 255] {
        for c in (0..=11u8).chain([255u8]) {
            for r in rest {
                add(t, c, r);
            }
        }
    }
    for t in 0..=255u8 {
        for c in [0u8, 255] {
            add(t, c, [0x80, 0x7f, 0x01, 0xff]);
        }
    }
    v
}

/// `Icmpv6Slice::is_checksum_valid` on a complete message against "the complete sum folds to 0xffff"
fn check_valid6(pk: &mut Pk, msg: &[u8], s: [u8; 16], d: [u8; 16], what: &dyn Fn() -> String) {
    let want = ref_sum_parts(&[&pseudo6(s, d, P_ICMPV6, msg.len()), msg]) == 0xffff;
    pk.case.at("Icmpv6Slice::is_checksum_valid");
    let got = match Icmpv6Slice::from_slice(msg) {
        Ok(sl) => sl.is_checksum_valid(s, d),
        Err(e) => {
            pk.machinery("Icmpv6Slice::from_slice", format!("{:?} on {}", e, hex(msg)));
            return;
        }
    };
    pk.n += 1;
    pk.evals += 1;
    pk.nontrivial += 1;
    if want {
        pk.accept += 1;
    } else {
        pk.reject += 1;
    }
    if got != want && pk.fails_left(if got { "is_checksum_valid:accepts" } else { "is_checksum_valid:rejects" }) {
        pk.case.fail(
            format!("Icmpv6Slice::is_checksum_valid:{}", if got { "accepts-invalid" } else { "rejects-valid" }),
            format!("is_checksum_valid({}, {}) on message {} returned {}, the complete sum {} to 0xffff; {}", hex(&s), hex(&d), hex(msg), got, if want { "folds" } else { "does not fold" }, what()),
        );
    }
}

fn check_icmp6(pk: &mut Pk, ty: &Icmpv6Type, ai: usize, pays: &[Vec<u8>], garbage: u16) {
    let (s, d) = A6[ai];
    let addr = Addr::V6(s, d);
    let hb = Icmpv6Header { icmp_type: ty.clone(), checksum: garbage }.to_bytes();
    let mut z = hb.to_vec();
    z[2] = 0;
    z[3] = 0;
    for (pi, p) in pays.iter().enumerate() {
        // RFC 4443 §2.3 with the pseudo header of RFC 8200 §8.1, next header 58
        let want = ref_csum(&[&pseudo6(s, d, P_ICMPV6, z.len() + p.len()), &z, p]);
        let what = || format!("icmpv6 {} {:?} header(to_bytes)={} payload={}", addr.text(), ty, hex(&hb), hex(p));
        pk.case.at("Icmpv6Type::calc_checksum");
        match ty.calc_checksum(s, d, p) {
            Ok(c) => pk.eq16("Icmpv6Type::calc_checksum", c, want, &what),
            Err(e) => pk.machinery("Icmpv6Type::calc_checksum", format!("{:?}; {}", e, what())),
        }
        match ty.clone().to_header(s, d, p) {
            Ok(h) => pk.eq16("Icmpv6Type::to_header", h.checksum, want, &what),
            Err(e) => pk.machinery("Icmpv6Type::to_header", format!("{:?}; {}", e, what())),
        }
        pk.case.at("Icmpv6Header::with_checksum");
        match Icmpv6Header::with_checksum(ty.clone(), s, d, p) {
            Ok(h) => {
                pk.eq16("Icmpv6Header::with_checksum", h.checksum, want, &what);
                // the filled in message through the validator: right addresses, other addresses, damaged checksum
                let mut msg = h.to_bytes().to_vec();
                msg.extend_from_slice(p);
                check_valid6(pk, &msg, s, d, &what);
                let (s2, d2) = A6[(ai + 1) % 3];
                check_valid6(pk, &msg, s2, d2, &what);
                check_valid6(pk, &msg, d, s, &what); // swapped: the sum is commutative, stays valid
                msg[2] ^= 0x01;
                check_valid6(pk, &msg, s, d, &what);
            }
            Err(e) => pk.machinery("Icmpv6Header::with_checksum", format!("{:?}; {}", e, what())),
        }
        let mut h2 = Icmpv6Header { icmp_type: ty.clone(), checksum: garbage };
        match h2.update_checksum(s, d, p) {
            Ok(()) => pk.eq16("Icmpv6Header::update_checksum", h2.checksum, want, &what),
            Err(e) => pk.machinery("Icmpv6Header::update_checksum", format!("{:?}; {}", e, what())),
        }
        pk.case.at("TransportHeader::update_checksum_ipv6");
        let mut t = TransportHeader::Icmpv6(Icmpv6Header { icmp_type: ty.clone(), checksum: garbage });
        match t.update_checksum_ipv6(&ip6_header(s, d, P_ICMPV6, z.len() + p.len()), p) {
            Ok(()) => pk.eq16("TransportHeader::update_checksum_ipv6(icmpv6)", t.icmpv6().unwrap().checksum, want, &what),
            Err(e) => pk.machinery("TransportHeader::update_checksum_ipv6(icmpv6)", format!("{:?}; {}", e, what())),
        }
        check_build(pk, "PacketBuilder(icmpv6)", pi % 2 == 1, &addr, None, &Tp::Icmp6(ty.clone()), p, &what);
    }
}

fn run_icmp6(ai: usize, ctx: &mut Ctx) {
    let tys = icmp6_types();
    let pays = payloads();
    for (i, ty) in tys.iter().enumerate() {
        ctx.case(
            None,
            || CaseDesc { shape: "icmpv6".into(), text: format!("ICMPv6 checksum APIs + validator: {:?}, {}->{}, payload lengths {:?} x {{zeros,ones,ascending}}", ty, hex(&A6[ai].0), hex(&A6[ai].1), PAY_LENS), rank: i as u64 },
            |case| {
                let mut pk = Pk::new(case);
                check_icmp6(&mut pk, ty, ai, &pays, [0, 0xffff, 0x1234][i % 3]);
                pk.case.reach("icmpv6");
                pk.finish("icmpv6".into());
            },
        );
    }
    // builder short cuts
    ctx.case(
        None,
        || CaseDesc { shape: "icmpv6:builder-shortcuts".into(), text: format!("PacketBuilder icmpv6_raw / icmpv6_echo_request / icmpv6_echo_reply, {}->{}, ids/seqs {{0,ffff,1234}}, all payloads", hex(&A6[ai].0), hex(&A6[ai].1)), rank: 0 },
        |case| {
            let mut pk = Pk::new(case);
            let (s, d) = A6[ai];
            for p in pays.iter() {
                for id in [0u16, 0xffff, 0x1234] {
                    for seq in [0u16, 0xffff, 0x8001] {
                        let what = || format!("id={:#x} seq={:#x} {}->{} payload={}", id, seq, hex(&s), hex(&d), hex(p));
                        pk.case.at("PacketBuilder::icmpv6_echo_request");
                        let mut out = Vec::new();
                        match PacketBuilder::ipv6(s, d, 1).icmpv6_echo_request(id, seq).write(&mut out, p) {
                            Ok(()) => check_packet(&mut pk, "PacketBuilder::icmpv6_echo_request", &out, 0, Kind::Icmp6, &what),
                            Err(e) => pk.machinery("PacketBuilder::icmpv6_echo_request", format!("{:?}", e)),
                        }
                        let mut out = Vec::new();
                        match PacketBuilder::ipv6(s, d, 1).icmpv6_echo_reply(id, seq).write(&mut out, p) {
                            Ok(()) => check_packet(&mut pk, "PacketBuilder::icmpv6_echo_reply", &out, 0, Kind::Icmp6, &what),
                            Err(e) => pk.machinery("PacketBuilder::icmpv6_echo_reply", format!("{:?}", e)),
                        }
                        let mut out = Vec::new();
                        match PacketBuilder::ipv6(s, d, 1).icmpv6_raw(id as u8, seq as u8, [(id >> 8) as u8, 0x7f, 0x80, (seq >> 8) as u8]).write(&mut out, p) {
                            Ok(()) => check_packet(&mut pk, "PacketBuilder::icmpv6_raw", &out, 0, Kind::Icmp6, &what),
                            Err(e) => pk.machinery("PacketBuilder::icmpv6_raw", format!("{:?}", e)),
                        }
                    }
                }
            }
            pk.finish("icmpv6:builder-shortcuts".into());
        },
    );
}

const VALID_PARTS: u64 = 4;

/// all 65536 values of the checksum field of 52 messages through the validator
fn run_icmp6_validate(part: u64, ctx: &mut Ctx) {
    let heads: [[u8; 8]; 4] = [[128, 0, 0, 0, 0x12, 0x34, 0x00, 0x01], [135, 0, 0, 0, 0, 0, 0, 0], [1, 4, 0, 0, 0xff, 0xff, 0xff, 0xff], [0xff, 0xff, 0, 0, 0x80, 0x7f, 0x01, 0x00]];
    let mut mi = 0u64;
    for (hi, head) in heads.iter().enumerate() {
        for (li, l) in PAY_LENS.iter().enumerate() {
            mi += 1;
            if mi % VALID_PARTS != part {
                continue;
            }
            let pat = (hi + li) % 3;
            let mut msg = head.to_vec();
            msg.extend((0..*l).map(|i| match pat {
                0 => 0u8,
                1 => 0xff,
                _ => (i + 1) as u8,
            }));
            let (s, d) = A6[(hi + li / 3) % 3];
            // variant 1: bytes 4..6 are chosen such that everything except the checksum field already sums to
            // 0xffff (one's complement zero): then BOTH representations 0x0000 and 0xffff in the checksum field make the
            // complete sum fold to 0xffff and both have to be accepted
            for variant in 0..2 {
                let mut msg = msg.clone();
                if variant == 1 {
                    msg[2] = 0;
                    msg[3] = 0;
                    let mut found = false;
                    for w in 0..=0xffffu16 {
                        msg[4..6].copy_from_slice(&w.to_be_bytes());
                        if ref_sum_parts(&[&pseudo6(s, d, P_ICMPV6, msg.len()), &msg]) == 0xffff {
                            found = true;
                            break;
                        }
                    }
                    if !found {
                        continue;
                    }
                }
                let msg0 = msg.clone();
                ctx.case(
                    None,
                    || CaseDesc { shape: if variant == 0 { "icmpv6:validator-sweep".into() } else { "icmpv6:validator-sweep:rest-sums-to-ffff".into() }, text: format!("Icmpv6Slice::is_checksum_valid({}, {}) on message {} with every value 0..=0xffff in the checksum field (bytes 2..4)", hex(&s), hex(&d), hex(&msg0)), rank: *l as u64 },
                    |case| {
                        let mut pk = Pk::new(case);
                        let what = || "validator sweep".to_string();
                        for c in 0..=0xffffu16 {
                            msg[2..4].copy_from_slice(&c.to_be_bytes());
                            check_valid6(&mut pk, &msg, s, d, &what);
                        }
                        if pk.accept == 0 || pk.accept > 2 || (variant == 1 && pk.accept != 2) {
                            pk.machinery("validator-sweep", format!("reference accepts {} of 65536 checksum values (must be 1 or 2; 2 for the constructed messages)", pk.accept));
                        }
                        pk.case.reach("validator-sweep");
                        if pk.accept == 2 {
                            pk.case.reach("validator-sweep-two-valid-representations");
                        }
                        pk.finish(format!("icmpv6:validator-sweep:accepted={}:v{}", pk_accept_class(*l), variant));
                    },
                );
            }
        }
    }
}
fn pk_accept_class(l: usize) -> &'static str {
    if l % 2 == 0 {
        "even-len"
    } else {
        "odd-len"
    }
}

// ------------------------------------------------------------------------------------------
// IGMP

fn igmp_headers() -> Vec<IgmpHeader> {
    let mut v: Vec<IgmpHeader> = vec![];
    let rest = [[0u8; 4], [0xff; 4], [0xe0, 0x00, 0x80, 0x01]];
    let mut add = |b: &[u8]| {
        let h = IgmpHeader::from_slice(b).expect("igmp header bytes").0;
        if !v.contains(&h) {
            v.push(h);
        }
    };
    let types: Vec<u8> = [0x11u8, 0x12, 0x16, 0x17, 0x22].into_iter().chain(0..=255u8).collect();
    for (ti, t) in types.iter().enumerate() {
        let b1s: &[u8] = if ti < 5 { &[0, 1, 0xff] } else { &[0x7f] };
        for b1 in b1s {
            for r in rest {
                let mut b = vec![*t, *b1, 0x5a, 0xa5];
                b.extend_from_slice(&r);
                add(&b);
                if *t == 0x11 {
                    for r2 in rest {
                        let mut b12 = b.clone();
                        b12.extend_from_slice(&r2);
                        add(&b12);
                    }
                }
            }
        }
    }
    v
}

fn run_igmp(ctx: &mut Ctx) {
    let hs = igmp_headers();
    let pays = payloads();
    for (i, h0) in hs.iter().enumerate() {
        ctx.case(
            None,
            || CaseDesc { shape: "igmp".into(), text: format!("IGMP checksum APIs: {:?} x payload lengths {:?} x {{zeros,ones,ascending}}", h0.igmp_type, PAY_LENS), rank: i as u64 },
            |case| {
                let mut pk = Pk::new(case);
                let hb = h0.to_bytes();
                let mut z = hb.to_vec();
                z[2] = 0;
                z[3] = 0;
                for p in pays.iter() {
                    // RFC 1112 / 2236 / 3376: the whole IGMP message, no pseudo header
                    let want = ref_csum(&[&z, p]);
                    let what = || format!("igmp {:?} header(to_bytes)={} payload={}", h0, hex(&hb), hex(p));
                    pk.case.at("IgmpHeader::calc_checksum");
                    pk.eq16("IgmpHeader::calc_checksum", h0.calc_checksum(p), want, &what);
                    pk.case.at("IgmpHeader::with_checksum");
                    let h = IgmpHeader::with_checksum(h0.igmp_type.clone(), p);
                    pk.eq16("IgmpHeader::with_checksum", h.checksum, want, &what);
                    let b = h.to_bytes();
                    pk.eq16("IgmpHeader::to_bytes", u16::from_be_bytes([b[2], b[3]]), want, &what);
                }
                pk.case.reach("igmp");
                pk.finish(format!("igmp:header_len={}", hb.len()));
            },
        );
    }
}

// ------------------------------------------------------------------------------------------
// large payloads: the 16-bit length limits of UDP / TCP over IPv4 and lengths beyond 16 bits where the IPv6 pseudo
// header carries a 32-bit length (TCP, ICMPv6); long runs of 0xff for many accumulated carries

fn big_payload(l: usize, pat: usize) -> Vec<u8> {
    match pat {
        0 => vec![0xffu8; l],
        _ => (0..l).map(|i| (i % 251) as u8 ^ 0x80).collect(),
    }
}

fn run_large(part: u64, ctx: &mut Ctx) {
    let pat = part as usize;
    let pname = ["ff..", "(i%251)^0x80"][pat];
    // helpers
    ctx.case(
        None,
        || CaseDesc { shape: "large:helpers".into(), text: format!("checksum helpers: add_slice of strings of length 65534..=65537, 100001, 262144 of pattern {} (whole, split in two at 2, 32768, len-2), start accumulators 0 and MAX", pname), rank: 0 },
        |case| {
            case.at("checksum helpers");
            let mut hk = Hk::new(case);
            for l in [65534usize, 65535, 65536, 65537, 100001, 262144] {
                let s = big_payload(l, pat);
                let want = !ref_sum(&s);
                let r0 = hk.runs;
                for imp in IMPS {
                    let a = Acc::start(imp, 0, &mut hk.evals).slice(&s, &mut hk.evals);
                    hk.verdict("large-whole", imp, &a, want, &[], 0, &|| format!("add_slice of {} bytes of pattern {}", l, pname));
                    for k in [2usize, 32768, (l - 2) & !1] {
                        let a = Acc::start(imp, 0, &mut hk.evals).slice(&s[..k], &mut hk.evals).slice(&s[k..], &mut hk.evals);
                        hk.verdict("large-split", imp, &a, want, &[], 0, &|| format!("add_slice of {} bytes of pattern {} split at {}", l, pname, k));
                    }
                    let st = imp.start_max();
                    let pre8 = st.to_ne_bytes();
                    let want_s = !ref_sum_parts(&[&pre8[..imp.start_bytes()], &s]);
                    let a = Acc::start(imp, st, &mut hk.evals).slice(&s, &mut hk.evals);
                    hk.verdict("large-start", imp, &a, want_s, &[], st, &|| format!("start MAX then add_slice of {} bytes of pattern {}", l, pname));
                }
                hk.nontrivial += hk.runs - r0;
            }
            hk.case.reach("large-helper");
            hk.finish("large:helpers".into());
        },
    );
    // protocols
    ctx.case(
        None,
        || CaseDesc { shape: "large:protocols".into(), text: format!("UDP at the 16-bit limit (payload 65526, 65527), TCP over IPv4 at the limit (65514, 65515), TCP and ICMPv6 over IPv6 beyond 16 bits (65515..=65537, 100001, 131073), ICMPv4/IGMP 100001; payload pattern {}; mixed addresses", pname), rank: 1 },
        |case| {
            let mut pk = Pk::new(case);
            let (s4, d4) = A4[2];
            let (s6, d6) = A6[2];
            for l in [65526usize, 65527] {
                let p = big_payload(l, pat);
                check_udp(&mut pk, &Addr::V4(s4, d4), 0x1234, 0xffff, &p, 0xdead, false);
                check_udp(&mut pk, &Addr::V6(s6, d6), 0x1234, 0xffff, &p, 0xdead, false);
            }
            let mut h = TcpHeader::new(0xffff, 0x1234, 0x8000_7f01, 0xffff);
            h.checksum = 0xdead;
            for l in [65514usize, 65515] {
                let p = big_payload(l, pat);
                check_tcp(&mut pk, &h, &[Addr::V4(s4, d4)], std::slice::from_ref(&p), 0);
            }
            for l in [65515usize, 65516, 65517, 65535, 65536, 65537, 100001, 131073] {
                let p = big_payload(l, pat);
                check_tcp_v6_large(&mut pk, &h, s6, d6, &p);
                // ICMPv6 echo request with l bytes of data
                let ty = Icmpv6Type::EchoRequest(IcmpEchoHeader { id: 0xffff, seq: 0x8001 });
                let hb = Icmpv6Header { icmp_type: ty.clone(), checksum: 0 }.to_bytes();
                let want = ref_csum(&[&pseudo6(s6, d6, P_ICMPV6, hb.len() + p.len()), &hb, &p]);
                let what = || format!("icmpv6 echo request, {} bytes of payload pattern {}", l, pname);
                pk.case.at("Icmpv6Type::calc_checksum");
                match ty.calc_checksum(s6, d6, &p) {
                    Ok(c) => pk.eq16("Icmpv6Type::calc_checksum", c, want, &what),
                    Err(e) => pk.machinery("Icmpv6Type::calc_checksum", format!("{:?}; {}", e, what())),
                }
                let mut msg = Icmpv6Header { icmp_type: ty.clone(), checksum: want }.to_bytes().to_vec();
                msg.extend_from_slice(&p);
                check_valid6(&mut pk, &msg, s6, d6, &what);
                msg[3] ^= 0x80;
                check_valid6(&mut pk, &msg, s6, d6, &what);
            }
            {
                let p = big_payload(100001, pat);
                let what = || format!("100001 bytes of payload pattern {}", pname);
                let t4 = Icmpv4Type::EchoReply(IcmpEchoHeader { id: 0xffff, seq: 0xffff });
                let hb = Icmpv4Header { icmp_type: t4.clone(), checksum: 0 }.to_bytes();
                pk.case.at("Icmpv4Type::calc_checksum");
                pk.eq16("Icmpv4Type::calc_checksum", t4.calc_checksum(&p), ref_csum(&[&hb, &p]), &what);
                let ig = IgmpHeader::from_slice(&[0x22, 0, 0, 0, 0xff, 0xff, 0xff, 0xff]).unwrap().0;
                let ib = IgmpHeader { igmp_type: ig.igmp_type.clone(), checksum: 0 }.to_bytes();
                pk.case.at("IgmpHeader::calc_checksum");
                pk.eq16("IgmpHeader::calc_checksum", ig.calc_checksum(&p), ref_csum(&[&ib, &p]), &what);
            }
            pk.case.reach("large-protocol");
            pk.finish("large:protocols".into());
        },
    );
}

/// TCP over IPv6 with a segment longer than 65535 bytes (the pseudo header length is 32 bits wide)
fn check_tcp_v6_large(pk: &mut Pk, h: &TcpHeader, s: [u8; 16], d: [u8; 16], p: &[u8]) {
    let hb = h.to_bytes();
    let mut z = hb.to_vec();
    z[16] = 0;
    z[17] = 0;
    let len = z.len() + p.len();
    let want = ref_csum(&[&pseudo6(s, d, P_TCP, len), &z, p]);
    let what = || format!("tcp ipv6 {}->{} header(to_bytes)={} payload of {} bytes", hex(&s), hex(&d), hex(&hb), p.len());
    pk.case.at("TcpHeader::calc_checksum_ipv6_raw");
    match h.calc_checksum_ipv6_raw(s, d, p) {
        Ok(c) => pk.eq16("TcpHeader::calc_checksum_ipv6_raw", c, want, &what),
        Err(e) => pk.machinery("TcpHeader::calc_checksum_ipv6_raw", format!("{:?}; {}", e, what())),
    }
    pk.case.at("TcpHeaderSlice::calc_checksum_ipv6_raw");
    match TcpHeaderSlice::from_slice(&hb) {
        Ok(hs) => match hs.calc_checksum_ipv6_raw(s, d, p) {
            Ok(c) => pk.eq16("TcpHeaderSlice::calc_checksum_ipv6_raw", c, want, &what),
            Err(e) => pk.machinery("TcpHeaderSlice::calc_checksum_ipv6_raw", format!("{:?}; {}", e, what())),
        },
        Err(e) => pk.machinery("TcpHeaderSlice::from_slice", format!("{:?}", e)),
    }
    let mut seg = hb.to_vec();
    seg.extend_from_slice(p);
    pk.case.at("TcpSlice::calc_checksum_ipv6");
    match TcpSlice::from_slice(&seg) {
        Ok(ts) => match ts.calc_checksum_ipv6(s, d) {
            Ok(c) => pk.eq16("TcpSlice::calc_checksum_ipv6", c, want, &what),
            Err(e) => pk.machinery("TcpSlice::calc_checksum_ipv6", format!("{:?}; {}", e, what())),
        },
        Err(e) => pk.machinery("TcpSlice::from_slice", format!("{:?}", e)),
    }
    // payload_length of the IPv6 header cannot hold the length (jumbogram); the checksum does not depend on it
    let ip = ip6_header(s, d, P_TCP, 0);
    pk.case.at("TransportHeader::update_checksum_ipv6");
    let mut t = TransportHeader::Tcp(h.clone());
    match t.update_checksum_ipv6(&ip, p) {
        Ok(()) => pk.eq16("TransportHeader::update_checksum_ipv6(tcp)", t.tcp().unwrap().checksum, want, &what),
        Err(e) => pk.machinery("TransportHeader::update_checksum_ipv6(tcp)", format!("{:?}; {}", e, what())),
    }
}

// ------------------------------------------------------------------------------------------
// unit table

#[derive(Clone, Copy)]
enum Task {
    A1(u64),
    A2(u64),
    Ip4Product(u64),
    Ip4Sweep(u64),
    Udp(usize),
    UdpSweep(usize),
    UdpZero,
    Tcp(u64),
    Icmp4(u64),
    Icmp6(usize),
    Icmp6Validate(u64),
    Igmp,
    Large(u64),
}

fn tasks(tier: Tier) -> Vec<Task> {
    let mut v = vec![];
    // the heavy protocol units first so that they do not end up as the tail of the schedule
    for p in 0..TCP_PARTS {
        v.push(Task::Tcp(p));
    }
    for a in 0..3 {
        v.push(Task::Icmp6(a));
    }
    for p in 0..VALID_PARTS {
        v.push(Task::Icmp6Validate(p));
    }
    for a in 0..6 {
        v.push(Task::UdpSweep(a));
    }
    for f in 0..4 {
        v.push(Task::Ip4Sweep(f));
    }
    for p in 0..IP4_PRODUCT_PARTS {
        v.push(Task::Ip4Product(p));
    }
    for a in 0..6 {
        v.push(Task::Udp(a));
    }
    v.push(Task::UdpZero);
    for p in 0..2 {
        v.push(Task::Icmp4(p));
    }
    v.push(Task::Igmp);
    for p in 0..2 {
        v.push(Task::Large(p));
    }
    for u in 0..A2_UNITS {
        v.push(Task::A2(u));
    }
    for u in 0..a1_units(tier) {
        v.push(Task::A1(u));
    }
    v
}

impl Check for C09 {
    fn id(&self) -> &'static str {
        "C09"
    }
    fn rule(&self, tier: Tier) -> String {
        format!(
            "alphabet/bound: (a) helpers checksum::u32_16bit_word, checksum::u64_16bit_word (module functions) and checksum::Sum16BitWords on ALL byte strings of length 0..={} over {{00,01,7f,80,ff}} and on lengths 10..={} of the patterns zeros, ff.., ascending, 00ff.., ff00.., single 01 at every position; per string: add_slice of the whole string at buffer offsets 0..7 and flush against a guard page; every 3-way split at even offsets k1<=k2 (2-way splits = one empty chunk); greedy add_2bytes/add_4bytes/add_8bytes/add_16bytes decompositions (as far as the implementation has them) with the odd tail via add_slice or add_2bytes([b,0]); one leading add_Nbytes then add_slice; start accumulators u32 {{1,ffff,1_0000,MAX-1,MAX}} / u64 {{1,ffff,1_0000,ffff_ffff,1_0000_0000,MAX-1,MAX}} (Sum16BitWords: the same state reached through add_8bytes) x whole / every 2-way even split / piecewise; both ones_complement and ones_complement_with_no_zero are read. \
             (b) protocol: Ipv4Header (3-value alphabets of every field x 3 address pairs x 6 option blocks; every value of each 16-bit word x 3 backgrounds) through calc_header_checksum/write/to_bytes/write_raw; UDP (6 ports^2; all 65536 source ports x 6 backgrounds; constructed computed-0 messages) through with_ipv4/6_checksum, calc_checksum_ipv4/6(_raw), TransportHeader::update_checksum_ipv4/6, PacketBuilder (plain, behind ethernet2, IPv4 with options); TCP (3-value alphabets of every field x 4 option blocks = 8748 headers) through TcpHeader/TcpHeaderSlice::calc_checksum_ipv4/6(_raw), TcpSlice::calc_checksum_ipv4/6, TransportHeader, PacketBuilder; ICMPv4 / ICMPv6 (every type variant the decoders produce from type x code x 3 rest-of-header patterns, all 256 type bytes) through Icmpv4Type::calc_checksum, Icmpv4Header::with_checksum/update_checksum, Icmpv6Type::calc_checksum/to_header, Icmpv6Header::with_checksum/update_checksum, TransportHeader, PacketBuilder incl. raw/echo short cuts, Icmpv6Slice::is_checksum_valid; IGMP (all type bytes, v1/v2/v3 layouts) through IgmpHeader::calc_checksum/with_checksum; everywhere x payload lengths {:?} x {{zeros, ff, ascending}} x address pairs {{zeros, ones, mixed}} for IPv4 and IPv6; validator: all 65536 checksum-field values of 52 ICMPv6 messages and of 52 constructed ones whose remaining words already sum to 0xffff (so that 0x0000 and 0xffff are both valid); large payloads: UDP/TCP-over-IPv4 at the 16-bit limit, TCP/ICMPv6 over IPv6 up to 131073 bytes (32-bit pseudo header length), helpers up to 262144 bytes. UdpHeaderSlice/UdpSlice/Icmpv4Slice have no checksum computing API. \
             oracle: independent RFC 1071 reference (big-endian 16-bit words in a u128, odd byte zero padded, folded, complemented) over pseudo header (RFC 768/793/8200 §8.1/4443 §2.3, literal protocol numbers 17/6/58) ‖ header with zeroed checksum field ‖ payload; helpers: final ones_complement (read in wire order) == reference of the data, for a start accumulator S == reference of S.to_ne_bytes() ‖ data; UDP computed 0 -> 0xffff; is_checksum_valid == (complete sum folds to 0xffff); builder output is checked from the emitted bytes alone (IPv4 header checksum and transport checksum). \
             a state = one (implementation, string, call chain) at the helper level / one (API, input) pair at the protocol level, all distinct by construction; non-trivial = the summed data contains a non-zero byte (helpers), every protocol state (pseudo header / type bytes are never all zero).",
            a1_max_len(tier),
            a2_max_len(tier),
            PAY_LENS
        )
    }
    fn assumptions(&self, _tier: Tier) -> Vec<String> {
        vec![
            "the helper accumulators hold a native-endian partial sum; the 16-bit result of ones_complement holds the two checksum bytes in memory order (every caller in the crate applies .to_be()), so it is read as u16::from_be_bytes(result.to_ne_bytes())".into(),
            "a start sum S handed to the module functions stands for the bytes S.to_ne_bytes() already added (S == add_4bytes/add_8bytes(0, S.to_ne_bytes()))".into(),
            "header bytes for ICMPv4/ICMPv6/IGMP/TCP/IPv4 references are the bytes the crate itself emits for the header value (to_bytes) with the checksum field zeroed; their field layout is C08's subject".into(),
            "UDP headers carry a length field consistent with the payload (8 + payload length), TCP payload lengths stay far below the 16-bit limit".into(),
            "64-bit target: Sum16BitWords wraps u64_16bit_word".into(),
        ]
    }
    fn units(&self, tier: Tier) -> u64 {
        tasks(tier).len() as u64
    }
    fn expect_reach(&self, _tier: Tier) -> Vec<String> {
        [
            "empty-string",
            "odd-length",
            "even-length",
            "carry-out-of-32",
            "carry-out-of-64",
            "helper-checksum-0-nozero-ffff",
            "long-pattern",
            "ipv4-header",
            "ipv4-header-options",
            "udp-ipv4",
            "udp-ipv6",
            "udp-zero-to-ffff",
            "udp-zero-constructed",
            "tcp",
            "tcp-options",
            "icmpv4",
            "icmpv6",
            "igmp",
            "validator-accept",
            "validator-reject",
            "validator-sweep",
            "validator-sweep-two-valid-representations",
            "large-helper",
            "large-protocol",
        ]
        .iter()
        .map(|s| s.to_string())
        .collect()
    }
    fn coverage_extra(&self, tier: Tier) -> Vec<(String, String)> {
        vec![
            ("helper_alphabet_max_len".into(), a1_max_len(tier).to_string()),
            ("helper_pattern_max_len".into(), a2_max_len(tier).to_string()),
            ("tcp_header_values".into(), "8748".into()),
        ]
    }
    fn run_unit(&self, tier: Tier, u: u64, ctx: &mut Ctx) {
        let t0 = std::time::Instant::now();
        self.run_unit_inner(tier, u, ctx);
        // optional per-unit timing (debugging aid for balancing the units): C09_TIMING=<file>
        if let Some(path) = std::env::var_os("C09_TIMING") {
            use std::io::Write;
            if let Ok(mut f) = std::fs::OpenOptions::new().create(true).append(true).open(path) {
                let _ = writeln!(f, "{} {:.3}", u, t0.elapsed().as_secs_f64());
            }
        }
    }
}

impl C09 {
    fn run_unit_inner(&self, tier: Tier, u: u64, ctx: &mut Ctx) {
        match tasks(tier)[u as usize] {
            Task::A1(k) => run_a1(tier, k, ctx),
            Task::A2(k) => run_a2(tier, k, ctx),
            Task::Ip4Product(p) => run_ip4_product(p, ctx),
            Task::Ip4Sweep(f) => run_ip4_sweep(f, ctx),
            Task::Udp(a) => run_udp(a, ctx),
            Task::UdpSweep(a) => run_udp_sweep(a, ctx),
            Task::UdpZero => run_udp_zero(ctx),
            Task::Tcp(p) => run_tcp(p, tier, ctx),
            Task::Icmp4(p) => run_icmp4(p, ctx),
            Task::Icmp6(a) => run_icmp6(a, ctx),
            Task::Icmp6Validate(p) => run_icmp6_validate(p, ctx),
            Task::Igmp => run_igmp(ctx),
            Task::Large(p) => run_large(p, ctx),
        }
    }
}
