//! C04 — decoding into header structs agrees with slicing.
//!
//! E1 sweeps x {from_ethernet, from_ether_type(t), from_ip} x {(PacketHeaders, SlicedPacket),
//! (LaxPacketHeaders, LaxSlicedPacket)}. Differential, the crate against itself: the struct
//! result must equal the conversion of the slicing result of the same input (link, link
//! extensions, net, transport via the per-slice `to_header()` conversions; IPv6 extension
//! headers assembled slot by slot from the iterated slices), its payload must cover the same
//! byte range as the innermost payload of the slicing result, and both must give the same
//! verdict. The documented exception (an IPv6 extension header of a kind that no longer fits
//! the struct ends struct decoding there) is applied literally, with the reference decoder in
//! struct mode as tie-breaker for what "there" is.

use crate::fw::*;
use crate::mem::rel;
use crate::pkt::conv::ToCErr;
use crate::pkt::gen::Door;
use crate::pkt::refdec::{self, RefResult, RK};
use crate::pkt::sweep;
use etherparse::*;

pub struct C04;

/// IPv6 extension headers of a slicing result, stored slot by slot. `None` in `.1`: every header fits.
/// `Some(i)`: the i-th iterated header does not fit the struct any more.
fn assemble_exts(exts: &Ipv6ExtensionsSlice) -> (Ipv6Extensions, Option<usize>) {
    let mut out = Ipv6Extensions::default();
    for (i, x) in exts.clone().into_iter().enumerate() {
        if i > 300 {
            break;
        }
        use Ipv6ExtensionSlice::*;
        match x {
            HopByHop(r) => {
                if i != 0 || out.hop_by_hop_options.is_some() {
                    return (out, Some(i));
                }
                out.hop_by_hop_options = Some(r.to_header());
            }
            DestinationOptions(r) => {
                if let Some(rt) = out.routing.as_mut() {
                    if rt.final_destination_options.is_some() {
                        return (out, Some(i));
                    }
                    rt.final_destination_options = Some(r.to_header());
                } else {
                    if out.destination_options.is_some() {
                        return (out, Some(i));
                    }
                    out.destination_options = Some(r.to_header());
                }
            }
            Routing(r) => {
                if out.routing.is_some() {
                    return (out, Some(i));
                }
                out.routing = Some(Ipv6RoutingExtensions { routing: r.to_header(), final_destination_options: None });
            }
            Fragment(f) => {
                if out.fragment.is_some() {
                    return (out, Some(i));
                }
                out.fragment = Some(f.to_header());
            }
            Authentication(a) => {
                if out.auth.is_some() {
                    return (out, Some(i));
                }
                out.auth = Some(a.to_header());
            }
        }
    }
    (out, None)
}

struct Conv {
    link: Option<LinkHeader>,
    link_exts: Vec<LinkExtHeader>,
    net: Option<NetHeaders>,
    transport: Option<TransportHeader>,
    /// innermost payload (offset,len) + variant name
    payload: ((usize, usize), &'static str),
    /// the IPv6 chain of the slicing result holds a header that does not fit the struct
    unfit: bool,
}

fn tr_header(t: &TransportSlice) -> TransportHeader {
    match t {
        TransportSlice::Udp(u) => TransportHeader::Udp(u.to_header()),
        TransportSlice::Tcp(u) => TransportHeader::Tcp(u.to_header()),
        TransportSlice::Icmpv4(u) => TransportHeader::Icmpv4(u.header()),
        TransportSlice::Icmpv6(u) => TransportHeader::Icmpv6(u.header()),
    }
}
fn tr_payload<'a>(t: &TransportSlice<'a>) -> (&'a [u8], &'static str) {
    match t {
        TransportSlice::Udp(u) => (u.payload(), "Udp"),
        TransportSlice::Tcp(u) => (u.payload(), "Tcp"),
        TransportSlice::Icmpv4(u) => (u.payload(), "Icmpv4"),
        TransportSlice::Icmpv6(u) => (u.payload(), "Icmpv6"),
    }
}

fn conv_strict(b: &[u8], p: &SlicedPacket) -> Result<Conv, String> {
    let mut c = Conv { link: p.link.as_ref().and_then(|l| l.to_header()), link_exts: p.link_exts.iter().map(|e| e.to_header()).collect(), net: None, transport: None, payload: ((0, 0), "Empty"), unfit: false };
    // innermost payload
    let mut pay: (&[u8], &'static str) = (b, "Ether");
    if let Some(l) = &p.link {
        match l {
            LinkSlice::Ethernet2(e) => pay = (e.payload_slice(), "Ether"),
            LinkSlice::LinuxSll(e) => pay = (e.payload_slice(), if matches!(e.protocol_type(), LinuxSllProtocolType::EtherType(_)) { "Ether" } else { "LinuxSll" }),
            LinkSlice::EtherPayload(e) => pay = (e.payload, "Ether"),
            LinkSlice::LinuxSllPayload(e) => pay = (e.payload, "LinuxSll"),
        }
    }
    for e in &p.link_exts {
        match e {
            LinkExtSlice::Vlan(v) => pay = (v.payload_slice(), "Ether"),
            LinkExtSlice::Macsec(m) => match &m.payload {
                MacsecPayloadSlice::Unmodified(e) => pay = (e.payload, "Ether"),
                MacsecPayloadSlice::Modified(x) => pay = (x, "MacsecMod"),
            },
        }
    }
    match &p.net {
        Some(NetSlice::Ipv4(i)) => {
            c.net = Some(NetHeaders::Ipv4(i.header().to_header(), i.extensions().to_header()));
            pay = (i.payload().payload, "Ip");
        }
        Some(NetSlice::Ipv6(i)) => {
            let (e, unfit) = assemble_exts(i.extensions());
            c.unfit = unfit.is_some();
            c.net = Some(NetHeaders::Ipv6(i.header().to_header(), e));
            pay = (i.payload().payload, "Ip");
        }
        Some(NetSlice::Arp(a)) => {
            c.net = Some(NetHeaders::Arp(a.to_packet()));
            pay = (&[], "Empty");
        }
        None => {}
    }
    if let Some(t) = &p.transport {
        c.transport = Some(tr_header(t));
        pay = tr_payload(t);
    }
    c.payload = (rel(b, pay.0)?, pay.1);
    Ok(c)
}

fn conv_lax(b: &[u8], p: &LaxSlicedPacket) -> Result<Conv, String> {
    let mut c = Conv { link: p.link.as_ref().and_then(|l| l.to_header()), link_exts: p.link_exts.iter().map(|e| e.to_header()).collect(), net: None, transport: None, payload: ((0, 0), "Empty"), unfit: false };
    let mut pay: (&[u8], &'static str) = (b, "Ether");
    if let Some(l) = &p.link {
        match l {
            LinkSlice::Ethernet2(e) => pay = (e.payload_slice(), "Ether"),
            LinkSlice::LinuxSll(e) => pay = (e.payload_slice(), if matches!(e.protocol_type(), LinuxSllProtocolType::EtherType(_)) { "Ether" } else { "LinuxSll" }),
            LinkSlice::EtherPayload(e) => pay = (e.payload, "Ether"),
            LinkSlice::LinuxSllPayload(e) => pay = (e.payload, "LinuxSll"),
        }
    }
    for e in &p.link_exts {
        match e {
            LaxLinkExtSlice::Vlan(v) => pay = (v.payload_slice(), "Ether"),
            LaxLinkExtSlice::Macsec(m) => match &m.payload {
                LaxMacsecPayloadSlice::Unmodified(e) => pay = (e.payload, "Ether"),
                LaxMacsecPayloadSlice::Modified { payload, .. } => pay = (payload, "MacsecModified"),
            },
        }
    }
    match &p.net {
        Some(LaxNetSlice::Ipv4(i)) => {
            c.net = Some(NetHeaders::Ipv4(i.header().to_header(), i.extensions().to_header()));
            pay = (i.payload().payload, "Ip");
        }
        Some(LaxNetSlice::Ipv6(i)) => {
            let (e, unfit) = assemble_exts(i.extensions());
            c.unfit = unfit.is_some();
            c.net = Some(NetHeaders::Ipv6(i.header().to_header(), e));
            pay = (i.payload().payload, "Ip");
        }
        Some(LaxNetSlice::Arp(a)) => {
            c.net = Some(NetHeaders::Arp(a.to_packet()));
            pay = (&[], "Empty");
        }
        None => {}
    }
    if let Some(t) = &p.transport {
        c.transport = Some(tr_header(t));
        pay = tr_payload(t);
    }
    c.payload = (rel(b, pay.0)?, pay.1);
    Ok(c)
}

fn strict_variant(p: &PayloadSlice) -> &'static str {
    match p {
        PayloadSlice::Empty => "Empty",
        PayloadSlice::Ether(_) => "Ether",
        PayloadSlice::MacsecMod(_) => "MacsecMod",
        PayloadSlice::Ip(_) => "Ip",
        PayloadSlice::Udp(_) => "Udp",
        PayloadSlice::Tcp(_) => "Tcp",
        PayloadSlice::Icmpv4(_) => "Icmpv4",
        PayloadSlice::Icmpv6(_) => "Icmpv6",
    }
}

fn same_range(a: (usize, usize), b: (usize, usize)) -> bool {
    a.1 == b.1 && (a.1 == 0 || a.0 == b.0)
}

/// `vlan()` / `vlan_ids()` of the struct results re-derive what `link_exts` already says
fn struct_vlan_views(api: &str, case: &mut Case, link_exts: &[LinkExtHeader], vlan: Option<VlanHeader>, ids: &[VlanId]) {
    let tags: Vec<&SingleVlanHeader> = link_exts
        .iter()
        .filter_map(|e| match e {
            LinkExtHeader::Vlan(v) => Some(v),
            _ => None,
        })
        .collect();
    let want: Option<VlanHeader> = match tags.len() {
        0 => None,
        1 => Some(VlanHeader::Single(tags[0].clone())),
        _ => Some(VlanHeader::Double(DoubleVlanHeader { outer: tags[0].clone(), inner: tags[1].clone() })),
    };
    if vlan != want {
        case.fail(format!("derived-view:{}:vlan", api), format!("{}: vlan() = {:?}, link_exts holds the VLAN tags {:?}", api, vlan, tags));
    }
    let want_ids: Vec<VlanId> = tags.iter().map(|t| t.vlan_id).collect();
    if ids != &want_ids[..] {
        case.fail(format!("derived-view:{}:vlan_ids", api), format!("{}: vlan_ids() = {:?}, link_exts holds {:?}", api, ids, want_ids));
    }
}

#[allow(clippy::too_many_arguments)]
fn compare(
    api: &'static str,
    case: &mut Case,
    c: &Conv,
    link: &Option<LinkHeader>,
    link_exts: &[LinkExtHeader],
    net: &Option<NetHeaders>,
    transport: &Option<TransportHeader>,
    payload: (Result<(usize, usize), String>, &'static str),
    exception: bool,
) {
    if *link != c.link {
        case.fail(format!("link-differs:{}", api), format!("{}: struct link {:?} vs converted slice {:?}", api, link, c.link));
    }
    if link_exts != &c.link_exts[..] {
        case.fail(format!("link-exts-differ:{}", api), format!("{}: struct link_exts {:?} vs converted slices {:?}", api, link_exts, c.link_exts));
    }
    if exception {
        // everything in front of the header that does not fit must still agree: same IP header and the same fitted extension headers
        match (net, &c.net) {
            (Some(NetHeaders::Ipv6(h, e)), Some(NetHeaders::Ipv6(h2, e2))) => {
                if h != h2 {
                    case.fail(format!("net-differs:{}:ipv6-header(exception)", api), format!("{}: {:?} vs {:?}", api, h, h2));
                }
                if e != e2 {
                    case.fail(format!("net-differs:{}:ipv6-fitted-extensions(exception)", api), format!("{}: struct extensions {:?} vs fitted prefix of the sliced chain {:?}", api, e, e2));
                }
            }
            (a, b2) => case.fail(format!("net-differs:{}:exception-without-ipv6", api), format!("{}: {:?} vs {:?}", api, a, b2)),
        }
        if transport.is_some() {
            case.fail(format!("transport-behind-unfit-extension:{}", api), format!("{}: struct decoding reports a transport header although it stopped at an extension header", api));
        }
        return;
    }
    if *net != c.net {
        let k = match (net, &c.net) {
            (Some(NetHeaders::Ipv4(..)), Some(NetHeaders::Ipv4(..))) => "ipv4",
            (Some(NetHeaders::Ipv6(..)), Some(NetHeaders::Ipv6(..))) => "ipv6",
            (Some(NetHeaders::Arp(..)), Some(NetHeaders::Arp(..))) => "arp",
            _ => "kind",
        };
        case.fail(format!("net-differs:{}:{}", api, k), format!("{}: struct net {:?} vs converted slice {:?}", api, net, c.net));
    }
    if *transport != c.transport {
        case.fail(format!("transport-differs:{}", api), format!("{}: struct transport {:?} vs converted slice {:?}", api, transport, c.transport));
    }
    match payload.0 {
        Ok(r) => {
            if !same_range(r, c.payload.0) {
                case.fail(format!("payload-range-differs:{}:{}", api, payload.1), format!("{}: struct payload {} at {:?}, innermost payload of the slicing result {} at {:?}", api, payload.1, r, c.payload.1, c.payload.0));
            }
            let (a, b2) = (payload.1.trim_end_matches("ified"), c.payload.1.trim_end_matches("ified"));
            if a != b2 && !(r.1 == 0 && c.payload.0 .1 == 0 && (a == "Empty" || b2 == "Empty")) {
                case.fail(format!("payload-kind-differs:{}:{}:{}", api, payload.1, c.payload.1), format!("{}: struct payload is {} but the innermost layer of the slicing result hands out {}", api, payload.1, c.payload.1));
            }
        }
        Err(e) => case.fail(format!("result-not-observable:{}", api), e),
    }
}

pub fn check_case(door: Door, b: &[u8], case: &mut Case) {
    // where (if anywhere) struct decoding is allowed to stop early
    let exception = |lax: bool| -> (bool, RefResult, RefResult) {
        let w = refdec::decode_opts(door, b, lax, false);
        let ws = refdec::decode_opts(door, b, lax, true);
        let differ = w.layers != ws.layers || w.stop != ws.stop;
        (differ, w, ws)
    };
    let (ex_s, w_s, ws_s) = exception(false);
    let (ex_l, _w_l, ws_l) = exception(true);
    case.outcome(format!("{}:{}{}", super::c03::door_class(door), w_s.shape(), if ex_s { ":struct-stops-early" } else { "" }));
    if ex_s {
        case.reach("exception:unfit-extension-header");
        if w_s.stop.is_some() && ws_s.stop.is_none() {
            case.reach("exception:fault-behind-unfit-header-unnoticed");
        }
    }
    if !w_s.layers.is_empty() {
        case.nontrivial();
    }
    if w_s.transport().is_some() {
        case.reach(format!("agree-with-transport:{:?}", w_s.transport().unwrap().kind));
    }
    if w_s.net().map(|n| n.kind == RK::Arp).unwrap_or(false) {
        case.reach("agree-arp");
    }

    let strict_pair = |api: &'static str, case: &mut Case, h: Result<PacketHeaders, err::packet::SliceError>, s: Result<SlicedPacket, err::packet::SliceError>| {
        case.eval();
        case.eval();
        match (&h, &s) {
            (Ok(h), Ok(s)) => match conv_strict(b, s) {
                Ok(c) => {
                    if c.unfit != ex_s && !ex_s {
                        case.fail(format!("exception-bookkeeping:{}", api), "slicing result holds an unfit extension header but the reference sees none".to_string());
                    }
                    compare(api, case, &c, &h.link, &h.link_exts[..], &h.net, &h.transport, (rel(b, h.payload.slice()), strict_variant(&h.payload)), ex_s);
                    struct_vlan_views(api, case, &h.link_exts[..], h.vlan(), &h.vlan_ids()[..]);
                    if ex_s {
                        // struct payload: from the header that does not fit, named by its protocol number
                        if let (PayloadSlice::Ip(ip), Some(n)) = (&h.payload, ws_s.net()) {
                            if !same_range(rel(b, ip.payload).unwrap_or((usize::MAX, 0)), n.pay) {
                                case.fail(format!("exception-payload-range:{}", api), format!("{}: struct payload at {:?} but the header that does not fit starts at {:?}", api, rel(b, ip.payload), n.pay));
                            }
                        }
                    } else if let (PayloadSlice::Ip(a), Some(NetSlice::Ipv4(_)) | Some(NetSlice::Ipv6(_))) = (&h.payload, &s.net) {
                        let sp = s.ip_payload().unwrap();
                        if a.ip_number != sp.ip_number || a.fragmented != sp.fragmented || a.len_source != sp.len_source {
                            case.fail(format!("ip-payload-meta-differs:{}", api), format!("{}: struct {:?}/{}/{:?} vs slice {:?}/{}/{:?}", api, a.ip_number, a.fragmented, a.len_source, sp.ip_number, sp.fragmented, sp.len_source));
                        }
                    }
                }
                Err(e) => case.fail(format!("result-not-observable:{}", api), e),
            },
            (Err(_), Err(_)) => {}
            (Ok(_), Err(e)) => {
                // permitted only when the fault lies behind an extension header that does not fit the struct
                if !(ex_s && ws_s.stop.is_none()) {
                    case.fail(format!("verdict-differs:{}:struct-ok-slice-err:{}", api, e.cerr().class()), format!("{}: struct decoding accepts, slicing rejects with {:?}", api, e));
                }
            }
            (Err(e), Ok(_)) => {
                case.fail(format!("verdict-differs:{}:struct-err-slice-ok:{}", api, e.cerr().class()), format!("{}: struct decoding rejects with {:?}, slicing accepts", api, e));
            }
        }
    };

    let lax_pair = |api: &'static str, case: &mut Case, h: Option<&LaxPacketHeaders>, s: Option<&LaxSlicedPacket>| {
        case.eval();
        case.eval();
        match (h, s) {
            (Some(h), Some(s)) => match conv_lax(b, s) {
                Ok(c) => {
                    compare(api, case, &c, &h.link, &h.link_exts[..], &h.net, &h.transport, (rel(b, h.payload.slice()), super::c05::payload_variant(&h.payload)), ex_l);
                    struct_vlan_views(api, case, &h.link_exts[..], h.vlan(), &h.vlan_ids()[..]);
                    if ex_l {
                        if let (LaxPayloadSlice::Ip(ip), Some(n)) = (&h.payload, ws_l.net()) {
                            if !same_range(rel(b, ip.payload).unwrap_or((usize::MAX, 0)), n.pay) {
                                case.fail(format!("exception-payload-range:{}", api), format!("{}: struct payload at {:?} but the header that does not fit starts at {:?}", api, rel(b, ip.payload), n.pay));
                            }
                        }
                        if h.stop_err.is_some() != ws_l.stop.is_some() {
                            case.fail(format!("verdict-differs:{}:exception", api), format!("{}: stop error {:?}; struct-mode reference {}", api, h.stop_err, ws_l.shape()));
                        }
                    } else {
                        match (&h.stop_err, &s.stop_err) {
                            (None, None) => {}
                            (Some((e1, l1)), Some((e2, l2))) => {
                                // which of two coexisting faults of one header is named is not part of the verdict (C07 judges each error)
                                if l1 != l2 {
                                    case.fail(format!("stop-differs:{}", api), format!("{}: struct stops with {:?} on {:?}, slicing with {:?} on {:?}", api, e1, l1, e2, l2));
                                }
                            }
                            (a, b2) => case.fail(format!("verdict-differs:{}:stop", api), format!("{}: struct stop error {:?}, slicing stop error {:?}", api, a, b2)),
                        }
                        // the incomplete flag of the struct payload against the slicing result: IP payload flag where an IP
                        // layer was decoded, else the flag of the last ether payload
                        let s_inc = match (s.ip_payload(), s.ether_payload()) {
                            (Some(ip), _) => ip.incomplete,
                            (None, Some(e)) if !matches!(s.net, Some(LaxNetSlice::Arp(_))) => e.incomplete,
                            _ => match s.link_exts.last() {
                                Some(LaxLinkExtSlice::Macsec(m)) => matches!(&m.payload, LaxMacsecPayloadSlice::Modified { incomplete: true, .. }),
                                _ => false,
                            },
                        };
                        if super::c05::lax_payload_incomplete(&h.payload) != s_inc {
                            case.fail(format!("incomplete-flag-differs:{}:{}", api, super::c05::payload_variant(&h.payload)), format!("{}: struct payload incomplete={} vs slicing result {}", api, super::c05::lax_payload_incomplete(&h.payload), s_inc));
                        }
                        if let (LaxPayloadSlice::Ip(a), Some(sp)) = (&h.payload, s.ip_payload()) {
                            if a.ip_number != sp.ip_number || a.fragmented != sp.fragmented || a.len_source != sp.len_source || a.incomplete != sp.incomplete {
                                case.fail(format!("ip-payload-meta-differs:{}", api), format!("{}: struct {:?} vs slice {:?}", api, (a.ip_number, a.fragmented, a.len_source, a.incomplete), (sp.ip_number, sp.fragmented, sp.len_source, sp.incomplete)));
                            }
                        }
                    }
                }
                Err(e) => case.fail(format!("result-not-observable:{}", api), e),
            },
            (None, None) => {}
            (a, b2) => case.fail(format!("verdict-differs:{}:err", api), format!("{}: struct Err={} slicing Err={}", api, a.is_none(), b2.is_none())),
        }
    };

    match door {
        Door::Eth2 => {
            case.at("PacketHeaders::from_ethernet_slice|SlicedPacket::from_ethernet");
            strict_pair("from_ethernet", case, PacketHeaders::from_ethernet_slice(b), SlicedPacket::from_ethernet(b));
            case.at("LaxPacketHeaders::from_ethernet|LaxSlicedPacket::from_ethernet");
            let (h, s) = (LaxPacketHeaders::from_ethernet(b), LaxSlicedPacket::from_ethernet(b));
            lax_pair("lax:from_ethernet", case, h.as_ref().ok(), s.as_ref().ok());
        }
        Door::Ether(t) => {
            case.at("PacketHeaders::from_ether_type|SlicedPacket::from_ether_type");
            strict_pair("from_ether_type", case, PacketHeaders::from_ether_type(EtherType(t), b), SlicedPacket::from_ether_type(EtherType(t), b));
            case.at("LaxPacketHeaders::from_ether_type|LaxSlicedPacket::from_ether_type");
            let (h, s) = (LaxPacketHeaders::from_ether_type(EtherType(t), b), LaxSlicedPacket::from_ether_type(EtherType(t), b));
            lax_pair("lax:from_ether_type", case, Some(&h), Some(&s));
        }
        Door::Ip => {
            case.at("PacketHeaders::from_ip_slice|SlicedPacket::from_ip");
            strict_pair("from_ip", case, PacketHeaders::from_ip_slice(b), SlicedPacket::from_ip(b));
            case.at("LaxPacketHeaders::from_ip|LaxSlicedPacket::from_ip");
            let (h, s) = (LaxPacketHeaders::from_ip(b), LaxSlicedPacket::from_ip(b));
            lax_pair("lax:from_ip", case, h.as_ref().ok(), s.as_ref().ok());
        }
        Door::Sll => {
            // there is no strict struct decoder for SLL; the lax struct decoder is compared with strict slicing where that accepts
            case.at("LaxPacketHeaders::from_linux_sll|SlicedPacket::from_linux_sll");
            let (h, s) = (LaxPacketHeaders::from_linux_sll(b), SlicedPacket::from_linux_sll(b));
            case.eval();
            case.eval();
            if let (Ok(h), Ok(s)) = (&h, &s) {
                match conv_strict(b, s) {
                    Ok(c) => compare("lax-struct-vs-strict-slice:from_linux_sll", case, &c, &h.link, &h.link_exts[..], &h.net, &h.transport, (rel(b, h.payload.slice()), super::c05::payload_variant(&h.payload)), ex_s),
                    Err(e) => case.fail("result-not-observable:from_linux_sll", e),
                }
            }
        }
        // struct vs slice decoders of extension chains
        Door::Ipv6Exts(n) => {
            case.at("Ipv6Extensions::from_slice|Ipv6ExtensionsSlice::from_slice");
            let h = Ipv6Extensions::from_slice(IpNumber(n), b);
            let s = Ipv6ExtensionsSlice::from_slice(IpNumber(n), b);
            case.eval();
            case.eval();
            match (&h, &s) {
                (Ok((he, hn, hr)), Ok((se, sn, sr))) => {
                    let (e, unfit) = assemble_exts(se);
                    if *he != e {
                        case.fail("exts-differ:Ipv6Extensions::from_slice", format!("struct {:?} vs assembled slices {:?}", he, e));
                    }
                    if unfit.is_none() && (hn != sn || hr.len() != sr.len()) {
                        case.fail("exts-rest-differs:Ipv6Extensions::from_slice", format!("struct next {:?} rest {} vs slice next {:?} rest {}", hn, hr.len(), sn, sr.len()));
                    }
                }
                (Err(_), Err(_)) => {}
                (Ok(_), Err(e)) => {
                    if !(ex_s && ws_s.stop.is_none()) {
                        case.fail(format!("verdict-differs:Ipv6Extensions::from_slice:struct-ok-slice-err:{}", e.cerr().class()), format!("struct accepts, slice rejects with {:?}", e));
                    }
                }
                (Err(e), Ok(_)) => case.fail(format!("verdict-differs:Ipv6Extensions::from_slice:struct-err-slice-ok:{}", e.cerr().class()), format!("struct rejects with {:?}, slice accepts", e)),
            }
        }
        Door::Ipv4Exts(n) => {
            case.at("Ipv4Extensions::from_slice|Ipv4ExtensionsSlice::from_slice");
            let h = Ipv4Extensions::from_slice(IpNumber(n), b);
            let s = Ipv4ExtensionsSlice::from_slice(IpNumber(n), b);
            case.eval();
            case.eval();
            match (&h, &s) {
                (Ok((he, hn, hr)), Ok((se, sn, sr))) => {
                    if *he != se.to_header() || hn != sn || hr.len() != sr.len() {
                        case.fail("exts-differ:Ipv4Extensions::from_slice", format!("struct {:?}/{:?}/{} vs slice {:?}/{:?}/{}", he, hn, hr.len(), se.to_header(), sn, sr.len()));
                    }
                }
                (Err(_), Err(_)) => {}
                (a, b2) => case.fail("verdict-differs:Ipv4Extensions::from_slice", format!("struct ok={} slice ok={}", a.is_ok(), b2.is_ok())),
            }
        }
        Door::Transport(_) | Door::TcpOpts | Door::NdpOpts => {}
    }
}

impl Check for C04 {
    fn id(&self) -> &'static str {
        "C04"
    }
    fn rule(&self, tier: Tier) -> String {
        format!(
            "alphabet/bound: {}. Each case = (door, byte string) is decoded by the struct decoder and by the slicer of the same family and starting point (strict and lax; from_ethernet, from_ether_type(t) for every t of the ether-type alphabet, from_ip; plus Ipv6Extensions/Ipv4Extensions vs their slice decoders). \
             oracle (differential): struct link/link_exts/net/transport == per-slice to_header()/to_packet()/header() conversions of the slicing result (IPv6 extension headers re-assembled slot by slot from the iterated slices), struct payload covers the same (offset,len) and is of the matching kind, IP payload meta data equal, same verdict (lax: same stop layer and error class). Documented exception applied literally: an extension header kind that no longer fits the struct ends struct decoding there (payload starts at that header, no transport, faults behind it may go unnoticed); everything in front must still agree. \
             distinct = distinct (door, bytes); non-trivial = the reference decodes at least one layer.",
            sweep::describe_bounds(tier)
        )
    }
    fn assumptions(&self, _tier: Tier) -> Vec<String> {
        vec!["the reference decoder (struct mode) is only used to decide where the documented exception applies".into()]
    }
    fn units(&self, tier: Tier) -> u64 {
        sweep::units(tier)
    }
    fn dedup_bits(&self, tier: Tier) -> u32 {
        if tier.is_thorough() {
            30
        } else {
            26
        }
    }
    fn expect_reach(&self, _tier: Tier) -> Vec<String> {
        ["exception:unfit-extension-header", "exception:fault-behind-unfit-header-unnoticed", "agree-with-transport:Udp", "agree-with-transport:Tcp", "agree-with-transport:Icmpv4", "agree-with-transport:Icmpv6", "agree-arp"].iter().map(|s| s.to_string()).collect()
    }
    fn run_unit(&self, tier: Tier, u: u64, ctx: &mut Ctx) {
        sweep::run_unit(tier, u, ctx, &|door, bytes, _shape, case| check_case(door, bytes, case));
    }
}
