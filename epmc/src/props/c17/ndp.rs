//! Neighbour discovery options (RFC 4861 §4.6): reference option walker, the driver of
//! `NdpOptionsIterator`, the observation of the typed option slices and the enumeration of
//! option areas behind the five NDP messages.

use super::*;
use etherparse::icmpv6::{
    MtuOptionSlice, NdpOptionHeader, NdpOptionReadError, NdpOptionSlice, NdpOptionsIterator, PrefixInformation, PrefixInformationOptionSlice, RedirectedHeaderOptionSlice,
    SourceLinkLayerAddressOptionSlice, TargetLinkLayerAddressOptionSlice, UnknownNdpOptionSlice,
};

/// (ICMPv6 type, bytes of the fixed part behind the 8 byte ICMPv6 header, name) — RFC 4861 §4.1-4.5
pub(crate) const MESSAGES: [(u8, usize, &str); 5] = [(133, 0, "RS"), (134, 8, "RA"), (135, 16, "NS"), (136, 16, "NA"), (137, 32, "Redirect")];

pub(crate) const TYPES: [u8; 8] = [0, 1, 2, 3, 4, 5, 6, 255];
pub(crate) const UNITS: [u8; 7] = [0, 1, 2, 3, 4, 5, 255];
pub(crate) const N_TOKENS: usize = TYPES.len() * UNITS.len();

pub(crate) fn max_tokens(tier: Tier) -> usize {
    if tier.is_thorough() {
        3
    } else {
        2
    }
}

pub(crate) const REACH: &[&str] = &[
    "ndp:msg-RS",
    "ndp:msg-RA",
    "ndp:msg-NS",
    "ndp:msg-NA",
    "ndp:msg-Redirect",
    "ndp:opt-slla",
    "ndp:opt-tlla",
    "ndp:opt-prefix-info",
    "ndp:opt-redirected-header",
    "ndp:opt-mtu",
    "ndp:opt-unknown",
    "ndp:err-header-cut",
    "ndp:err-zero-length",
    "ndp:err-too-short",
    "ndp:err-fixed-size",
    "ndp:area-empty",
    "ndp:exhausted-clean",
    "ndp:iter-empty-after-error",
    "ndp:options-after-rejected-option-ignored",
    "ndp:tiles-2+",
    "ndp:direct-ok",
    "ndp:direct-err",
];

// ---- reference --------------------------------------------------------------------------------

#[derive(Debug, Clone, Copy, PartialEq, Eq)]
pub(crate) struct RefOpt {
    /// offset relative to the option area
    pub off: usize,
    pub len: usize,
    pub ty: u8,
    pub units: u8,
}

/// why the reference stops (RFC 4861 §4.6: length is in units of 8 octets, 0 is invalid;
/// §4.6.2 prefix information has length 4, §4.6.4 MTU has length 1)
#[derive(Debug, Clone, Copy, PartialEq, Eq)]
pub(crate) enum RefOptErr {
    /// a single byte is left: not even type + length
    HeaderCut { first: u8 },
    Zero { ty: u8 },
    /// the option claims `need` bytes, `have` are left; `also_fixed`: its length also contradicts the fixed length of its type
    TooShort { ty: u8, units: u8, need: usize, have: usize, also_fixed: Option<u8> },
    /// fixed-length option type with another length
    FixedSize { ty: u8, expected_units: u8, actual_units: u8 },
}

impl RefOptErr {
    fn key(&self) -> &'static str {
        match self {
            RefOptErr::HeaderCut { .. } => "ndp:err-header-cut",
            RefOptErr::Zero { .. } => "ndp:err-zero-length",
            RefOptErr::TooShort { .. } => "ndp:err-too-short",
            RefOptErr::FixedSize { .. } => "ndp:err-fixed-size",
        }
    }
    fn short(&self) -> &'static str {
        match self {
            RefOptErr::HeaderCut { .. } => "err-header-cut",
            RefOptErr::Zero { .. } => "err-zero",
            RefOptErr::TooShort { .. } => "err-short",
            RefOptErr::FixedSize { .. } => "err-fixed",
        }
    }
}

fn fixed_units(ty: u8) -> Option<u8> {
    match ty {
        3 => Some(4),
        5 => Some(1),
        _ => None,
    }
}

/// walk an option area; `out` receives the accepted options
pub(crate) fn ref_opts(area: &[u8], out: &mut Vec<RefOpt>) -> Option<RefOptErr> {
    out.clear();
    let mut off = 0usize;
    loop {
        let have = area.len() - off;
        if have == 0 {
            return None;
        }
        if have == 1 {
            return Some(RefOptErr::HeaderCut { first: area[off] });
        }
        let (ty, units) = (area[off], area[off + 1]);
        if units == 0 {
            return Some(RefOptErr::Zero { ty });
        }
        let need = units as usize * 8;
        let bad_fixed = fixed_units(ty).filter(|f| *f != units);
        if need > have {
            return Some(RefOptErr::TooShort { ty, units, need, have, also_fixed: bad_fixed });
        }
        if let Some(f) = bad_fixed {
            return Some(RefOptErr::FixedSize { ty, expected_units: f, actual_units: units });
        }
        out.push(RefOpt { off, len: need, ty, units });
        off += need;
    }
}

/// does the crate's error describe the condition the reference found, with the real values?
fn err_matches(e: &NdpOptionReadError, w: &RefOptErr) -> bool {
    use NdpOptionReadError as E;
    let fixed_ok = |ty: u8, eu: u8, au: u8| match e {
        E::UnexpectedSize { option_id, expected_size, actual_size } => option_id.0 == ty && *expected_size == eu as usize * 8 && *actual_size == au as usize * 8,
        E::UnexpectedHeader { expected_option_id, actual_option_id, expected_length_units, actual_length_units } => expected_option_id.0 == ty && actual_option_id.0 == ty && *expected_length_units == eu && *actual_length_units == au,
        _ => false,
    };
    match *w {
        RefOptErr::HeaderCut { first } => match e {
            E::UnexpectedEndOfSlice { option_id, expected_size, actual_size } | E::UnexpectedSize { option_id, expected_size, actual_size } => option_id.0 == first && (*expected_size == 2 || *expected_size == 8) && *actual_size == 1,
            _ => false,
        },
        RefOptErr::Zero { ty } => matches!(e, E::ZeroLength { option_id } if option_id.0 == ty),
        RefOptErr::TooShort { ty, units, need, have, also_fixed } => {
            let short = match e {
                E::UnexpectedEndOfSlice { option_id, expected_size, actual_size } | E::UnexpectedSize { option_id, expected_size, actual_size } => option_id.0 == ty && *expected_size == need && *actual_size == have,
                _ => false,
            };
            short || also_fixed.map_or(false, |f| fixed_ok(ty, f, units))
        }
        RefOptErr::FixedSize { ty, expected_units, actual_units } => fixed_ok(ty, expected_units, actual_units),
    }
}

// ---- observation of one option ----------------------------------------------------------------

/// `off`: offset of the option inside the input
fn check_opt(case: &mut Case, acc: &mut Acc, inp: &[u8], off: usize, w: &RefOpt, o: &NdpOptionSlice) {
    let b = &inp[off..off + w.len];
    sub(case, "NdpOptionSlice", "as_bytes", inp, o.as_bytes(), (off, w.len));
    field(case, "NdpOptionSlice", "option_type", inp, o.option_type().0, w.ty);
    let want_variant = match w.ty {
        1 => "SourceLinkLayerAddress",
        2 => "TargetLinkLayerAddress",
        3 => "PrefixInformation",
        4 => "RedirectedHeader",
        5 => "Mtu",
        _ => "Unknown",
    };
    let got_variant = match o {
        NdpOptionSlice::SourceLinkLayerAddress(s) => {
            acc.hit("ndp:opt-slla");
            sub(case, "SourceLinkLayerAddressOptionSlice", "as_bytes", inp, s.as_bytes(), (off, w.len));
            sub(case, "SourceLinkLayerAddressOptionSlice", "link_layer_address", inp, s.link_layer_address(), (off + 2, w.len - 2));
            field(case, "SourceLinkLayerAddressOptionSlice", "option_type", inp, s.option_type().0, 1);
            "SourceLinkLayerAddress"
        }
        NdpOptionSlice::TargetLinkLayerAddress(s) => {
            acc.hit("ndp:opt-tlla");
            sub(case, "TargetLinkLayerAddressOptionSlice", "as_bytes", inp, s.as_bytes(), (off, w.len));
            sub(case, "TargetLinkLayerAddressOptionSlice", "link_layer_address", inp, s.link_layer_address(), (off + 2, w.len - 2));
            field(case, "TargetLinkLayerAddressOptionSlice", "option_type", inp, s.option_type().0, 2);
            "TargetLinkLayerAddress"
        }
        NdpOptionSlice::PrefixInformation(s) => {
            acc.hit("ndp:opt-prefix-info");
            sub(case, "PrefixInformationOptionSlice", "as_bytes", inp, s.as_bytes(), (off, w.len));
            field(case, "PrefixInformationOptionSlice", "option_type", inp, s.option_type().0, 3);
            if b.len() == 32 {
                // RFC 4861 §4.6.2: type, length, prefix length, L|A|reserved1, valid lifetime, preferred lifetime, reserved2, prefix
                let mut prefix = [0u8; 16];
                prefix.copy_from_slice(&b[16..32]);
                field(case, "PrefixInformationOptionSlice", "prefix_length", inp, s.prefix_length(), b[2]);
                field(case, "PrefixInformationOptionSlice", "on_link", inp, s.on_link(), b[3] & 0x80 != 0);
                field(case, "PrefixInformationOptionSlice", "autonomous_address_configuration", inp, s.autonomous_address_configuration(), b[3] & 0x40 != 0);
                field(case, "PrefixInformationOptionSlice", "valid_lifetime", inp, s.valid_lifetime(), be32(b, 4));
                field(case, "PrefixInformationOptionSlice", "preferred_lifetime", inp, s.preferred_lifetime(), be32(b, 8));
                field(case, "PrefixInformationOptionSlice", "prefix", inp, s.prefix(), prefix);
                let p = s.prefix_information();
                field(
                    case,
                    "PrefixInformationOptionSlice",
                    "prefix_information",
                    inp,
                    (p.prefix_length, p.on_link, p.autonomous_address_configuration, p.valid_lifetime, p.preferred_lifetime, p.prefix),
                    (b[2], b[3] & 0x80 != 0, b[3] & 0x40 != 0, be32(b, 4), be32(b, 8), prefix),
                );
            }
            "PrefixInformation"
        }
        NdpOptionSlice::RedirectedHeader(s) => {
            acc.hit("ndp:opt-redirected-header");
            sub(case, "RedirectedHeaderOptionSlice", "as_bytes", inp, s.as_bytes(), (off, w.len));
            // RFC 4861 §4.6.3: type, length, 6 reserved bytes, then IP header + data
            sub(case, "RedirectedHeaderOptionSlice", "redirected_packet", inp, s.redirected_packet(), (off + 8, w.len - 8));
            field(case, "RedirectedHeaderOptionSlice", "option_type", inp, s.option_type().0, 4);
            "RedirectedHeader"
        }
        NdpOptionSlice::Mtu(s) => {
            acc.hit("ndp:opt-mtu");
            sub(case, "MtuOptionSlice", "as_bytes", inp, s.as_bytes(), (off, w.len));
            field(case, "MtuOptionSlice", "option_type", inp, s.option_type().0, 5);
            if b.len() == 8 {
                // RFC 4861 §4.6.4: type, length, 2 reserved bytes, 32 bit MTU
                field(case, "MtuOptionSlice", "mtu", inp, s.mtu(), be32(b, 4));
            }
            "Mtu"
        }
        NdpOptionSlice::Unknown(s) => {
            acc.hit("ndp:opt-unknown");
            sub(case, "UnknownNdpOptionSlice", "as_bytes", inp, s.as_bytes(), (off, w.len));
            sub(case, "UnknownNdpOptionSlice", "data", inp, s.data(), (off + 2, w.len - 2));
            field(case, "UnknownNdpOptionSlice", "option_type", inp, s.option_type().0, w.ty);
            "Unknown"
        }
        _ => "<variant unknown to the harness>",
    };
    if got_variant != want_variant {
        let clause = if want_variant == "Unknown" { "unassigned-type-not-unknown" } else if got_variant == "Unknown" { "assigned-type-decoded-as-unknown" } else { "wrong-option-kind" };
        case.fail(
            format!("ndp:NdpOptionsIterator:{}", clause),
            format!("option type {} length {} at offset {} decoded as {}, RFC 4861 §4.6 says {} (input {})", w.ty, w.units, off, got_variant, want_variant, shex(inp)),
        );
    }
}

// ---- driver of the iterator -------------------------------------------------------------------

/// summary of one walk (for outcome signatures)
pub(crate) struct Walk {
    pub n_ok: usize,
    pub err: Option<RefOptErr>,
}

/// drive `it` (created by the crate over `inp[area_off..]`) with next() and clone-then-next to exhaustion + 2 calls
pub(crate) fn drive(case: &mut Case, acc: &mut Acc, inp: &[u8], area_off: usize, mut it: NdpOptionsIterator, scratch: &mut Vec<RefOpt>) -> Walk {
    let area = &inp[area_off..];
    let want_err = ref_opts(area, scratch);
    case.at("NdpOptionsIterator::next");
    sub(case, "NdpOptionsIterator", "rest-initial", inp, it.rest(), (area_off, area.len()));
    if area.is_empty() {
        acc.hit("ndp:area-empty");
    }
    let mut pos = 0usize;
    for (i, w) in scratch.iter().enumerate() {
        let mut cl = it.clone();
        let a = it.next();
        let b = cl.next();
        acc.evals += 2;
        if a != b {
            case.fail("ndp:NdpOptionsIterator:clone-then-next-differs", format!("option #{}: next() = {:?} but clone().next() = {:?} (input {})", i, a, b, shex(inp)));
        }
        match a {
            None => {
                case.fail(
                    "ndp:NdpOptionsIterator:ends-before-area-is-consumed",
                    format!("next() #{} returned None, expected option type {} length {} at offset {} (area starts at {}, input {})", i, w.ty, w.units, area_off + w.off, area_off, shex(inp)),
                );
                return Walk { n_ok: i, err: want_err };
            }
            Some(Err(e)) => {
                case.fail(
                    "ndp:NdpOptionsIterator:rejects-valid-option",
                    format!("next() #{} returned {:?}, expected option type {} length {} at offset {} fully present (input {})", i, e, w.ty, w.units, area_off + w.off, shex(inp)),
                );
                return Walk { n_ok: i, err: want_err };
            }
            Some(Ok(o)) => {
                // tiling: this option must start exactly where the previous one ended
                match mem::rel(inp, o.as_bytes()) {
                    Ok((off, len)) => {
                        if off != area_off + pos {
                            let clause = if off > area_off + pos { "gap" } else { "overlap" };
                            case.fail(
                                format!("ndp:NdpOptionsIterator:tiling-{}", clause),
                                format!("option #{} covers [{}, {}) but the previous option ended at {} (area starts at {}, input {})", i, off, off + len, area_off + pos, area_off, shex(inp)),
                            );
                        }
                        if len != w.units as usize * 8 {
                            case.fail(
                                "ndp:NdpOptionsIterator:option-length-not-units-times-8",
                                format!("option #{} type {} length units {} covers {} bytes, RFC 4861 §4.6 says {} (input {})", i, w.ty, w.units, len, w.units as usize * 8, shex(inp)),
                            );
                        }
                    }
                    Err(e) => case.fail("ndp:NdpOptionsIterator:option-outside-input", format!("option #{}: {} (input {})", i, e, shex(inp))),
                }
                check_opt(case, acc, inp, area_off + w.off, w, &o);
                pos = w.off + w.len;
                sub(case, "NdpOptionsIterator", "rest", inp, it.rest(), (area_off + pos, area.len() - pos));
                if case.failed() {
                    return Walk { n_ok: i, err: want_err };
                }
            }
        }
    }
    if scratch.len() >= 2 {
        acc.hit("ndp:tiles-2+");
    }
    match &want_err {
        None => {
            acc.hit("ndp:exhausted-clean");
        }
        Some(we) => {
            acc.hit(we.key());
            let mut cl = it.clone();
            let a = it.next();
            let b = cl.next();
            acc.evals += 2;
            if a != b {
                case.fail("ndp:NdpOptionsIterator:clone-then-next-differs", format!("at the rejected option: next() = {:?} but clone().next() = {:?} (input {})", a, b, shex(inp)));
            }
            match a {
                None => case.fail(
                    "ndp:NdpOptionsIterator:silently-drops-malformed-tail",
                    format!("next() returned None at offset {} although {} bytes are left which the reference rejects with {:?} (input {})", area_off + pos, area.len() - pos, we, shex(inp)),
                ),
                Some(Ok(o)) => case.fail(
                    format!("ndp:NdpOptionsIterator:accepts-invalid-option:{}", we.short()),
                    format!("next() returned {:?} at offset {} where the reference rejects with {:?} (input {})", o, area_off + pos, we, shex(inp)),
                ),
                Some(Err(e)) => {
                    if !err_matches(&e, we) {
                        case.fail(
                            format!("ndp:NdpOptionsIterator:wrong-error:{}", we.short()),
                            format!("next() returned {:?} at offset {}, the reference says {:?} (input {})", e, area_off + pos, we, shex(inp)),
                        );
                    }
                }
            }
            // the iterator must have emptied itself
            if !it.rest().is_empty() {
                case.fail(
                    "ndp:NdpOptionsIterator:not-empty-after-error",
                    format!("rest() has {} bytes after next() returned an error at offset {} (input {})", it.rest().len(), area_off + pos, shex(inp)),
                );
            } else {
                acc.hit("ndp:iter-empty-after-error");
            }
            if area.len() - pos > 8 {
                acc.hit("ndp:options-after-rejected-option-ignored");
            }
        }
    }
    // exhaustion + 2 extra calls
    for extra in 0..3 {
        let a = it.next();
        acc.evals += 1;
        if let Some(x) = a {
            case.fail(
                if want_err.is_some() { "ndp:NdpOptionsIterator:continues-after-error" } else { "ndp:NdpOptionsIterator:yields-past-the-end" },
                format!("next() call #{} after the end returned {:?} (area starts at {}, {} options, terminal {:?}, input {})", extra, x, area_off, scratch.len(), want_err, shex(inp)),
            );
            break;
        }
        if !it.rest().is_empty() {
            case.fail("ndp:NdpOptionsIterator:rest-not-empty-at-end", format!("rest() has {} bytes after the iterator ended (input {})", it.rest().len(), shex(inp)));
            break;
        }
    }
    Walk { n_ok: scratch.len(), err: want_err }
}

// ---- enumeration ------------------------------------------------------------------------------

#[inline]
fn token(k: usize) -> (u8, u8) {
    (TYPES[k / UNITS.len()], UNITS[k % UNITS.len()])
}
/// bytes a token occupies when fully present
#[inline]
fn token_len(units: u8) -> usize {
    (units as usize).max(1) * 8
}
fn push_token(buf: &mut Vec<u8>, ty: u8, units: u8) {
    let start = buf.len();
    let n = token_len(units);
    buf.push(ty);
    buf.push(units);
    for i in 2..n {
        // filler depends on the position inside the token and on where the token starts
        buf.push(pat(i + start / 8 * 3));
    }
}

fn describe_tokens(toks: &[usize]) -> String {
    toks.iter().map(|k| {
        let (t, u) = token(*k);
        format!("[type {} units {}]", t, u)
    }).collect::<Vec<_>>().join("")
}

fn message_prefix(msg: usize) -> Vec<u8> {
    let (ty, fixed, _) = MESSAGES[msg];
    let mut v = Vec::with_capacity(8 + fixed + 3 * 2040);
    v.extend([ty, 0, 0xa1, 0xb2]);
    for i in 4..8 + fixed {
        v.push(pat(i));
    }
    v
}

fn msg_key(msg: usize) -> &'static str {
    ["ndp:msg-RS", "ndp:msg-RA", "ndp:msg-NS", "ndp:msg-NA", "ndp:msg-Redirect"][msg]
}

/// one case: message `msg`, option area = tokens `toks`, the last one fully present or cut after every byte
fn seq_case(ctx: &mut Ctx, arena: &Arena, msg: usize, toks: &[usize]) {
    let (_, fixed, name) = MESSAGES[msg];
    ctx.case(
        None,
        || CaseDesc {
            shape: format!("ndp option area of {} tokens", toks.len()),
            text: format!(
                "ICMPv6 {} (type {} code 0, checksum a1b2, bytes 5.. and fixed part filler pat(i)=i*37+0x5b) + option area {} — token = [type, units, filler pat(i + start/8*3)] of max(units,1)*8 bytes; the last token cut after every byte 1..=len",
                name,
                MESSAGES[msg].0,
                if toks.is_empty() { "(empty)".to_string() } else { describe_tokens(toks) }
            ),
            rank: (toks.len() as u64) * 1_000_000 + toks.iter().map(|k| token_len(token(*k).1) as u64).sum::<u64>(),
        },
        |case| {
            let mut acc = Acc::new();
            let mut scratch = Vec::with_capacity(8);
            let mut buf = message_prefix(msg);
            let area_off = 8 + fixed;
            let mut last_start = buf.len();
            for k in toks {
                let (t, u) = token(*k);
                last_start = buf.len();
                push_token(&mut buf, t, u);
            }
            let first_len = if toks.is_empty() { buf.len() } else { last_start + 1 };
            let mut sig = String::new();
            for len in first_len..=buf.len() {
                // a cut after the type byte does not contain the length byte: enumerated once, not once per length value
                if let Some(k) = toks.last() {
                    if len == last_start + 1 && token(*k).1 != UNITS[0] {
                        continue;
                    }
                }
                let inp = arena.place_end(&buf[..len]);
                let w = super::icmpv6::check(case, &mut acc, inp, &mut scratch);
                if len == buf.len() {
                    // outcome signature of the uncut sequence
                    if let Some(w) = w {
                        sig = format!("ndp:{}:ok*{}:{}", name, w.n_ok, w.err.map_or("end", |e| e.short()));
                    }
                }
                if case.failed() {
                    break;
                }
            }
            let _ = area_off;
            acc.hit(msg_key(msg));
            case.outcome(sig);
            acc.finish(case);
        },
    );
}

/// unit = (message, first token or none)
pub(crate) fn run_unit(tier: Tier, u: u64, ctx: &mut Ctx, arena: &Arena) {
    let per = 1 + N_TOKENS as u64;
    let msg = (u / per) as usize;
    let first = (u % per) as usize;
    if first == 0 {
        seq_case(ctx, arena, msg, &[]);
        for k in 0..N_TOKENS {
            seq_case(ctx, arena, msg, &[k]);
        }
        return;
    }
    let a = first - 1;
    for b in 0..N_TOKENS {
        seq_case(ctx, arena, msg, &[a, b]);
    }
    if max_tokens(tier) >= 3 {
        for b in 0..N_TOKENS {
            if ctx.done() {
                return; // replay of a single case: it has been executed
            }
            for c in 0..N_TOKENS {
                seq_case(ctx, arena, msg, &[a, b, c]);
            }
        }
    }
}

// ---- typed option slices called directly -------------------------------------------------------

/// light check of an error of a directly called constructor: every "actual" value must be real
fn direct_err_values(case: &mut Case, api: &'static str, inp: &[u8], e: &NdpOptionReadError) {
    use NdpOptionReadError as E;
    let first = inp.first().copied();
    let units = inp.get(1).copied();
    let ok = match e {
        E::UnexpectedEndOfSlice { option_id, actual_size, expected_size } => *actual_size == inp.len() && *expected_size > inp.len() && first.map_or(true, |f| f == option_id.0 || fixed_ctor_type(api) == Some(option_id.0)),
        E::UnexpectedSize { option_id, actual_size, expected_size } => *actual_size == inp.len() && *expected_size != inp.len() && first.map_or(true, |f| f == option_id.0 || fixed_ctor_type(api) == Some(option_id.0)),
        E::ZeroLength { option_id } => units == Some(0) && first == Some(option_id.0),
        E::UnexpectedHeader { expected_option_id, actual_option_id, expected_length_units, actual_length_units } => {
            first == Some(actual_option_id.0) && units == Some(*actual_length_units) && (expected_option_id != actual_option_id || expected_length_units != actual_length_units) && fixed_ctor_type(api).map_or(true, |t| t == expected_option_id.0)
        }
        _ => false,
    };
    if !ok {
        case.fail(format!("ndp:{}:error-values-not-real", api), format!("{} returned {:?} for {} bytes starting with type {:?} units {:?} (input {})", api, e, inp.len(), first, units, shex(inp)));
    }
}
fn fixed_ctor_type(api: &str) -> Option<u8> {
    match api {
        "SourceLinkLayerAddressOptionSlice::from_slice" => Some(1),
        "TargetLinkLayerAddressOptionSlice::from_slice" => Some(2),
        "PrefixInformationOptionSlice::from_slice" | "PrefixInformation::from_slice" => Some(3),
        "RedirectedHeaderOptionSlice::from_slice" => Some(4),
        "MtuOptionSlice::from_slice" => Some(5),
        _ => None,
    }
}

fn direct_verdict<T: std::fmt::Debug>(case: &mut Case, acc: &mut Acc, api: &'static str, inp: &[u8], r: &Result<T, NdpOptionReadError>, want_ok: bool) -> bool {
    acc.evals += 1;
    match (r, want_ok) {
        (Ok(_), true) => {
            acc.hit("ndp:direct-ok");
            true
        }
        (Err(e), false) => {
            acc.hit("ndp:direct-err");
            direct_err_values(case, api, inp, e);
            false
        }
        (Ok(v), false) => {
            case.fail(format!("ndp:{}:accepts-invalid", api), format!("{} accepted {:?} from {} bytes (input {})", api, v, inp.len(), shex(inp)));
            false
        }
        (Err(e), true) => {
            case.fail(format!("ndp:{}:rejects-valid", api), format!("{} returned {:?} for a well-formed option of {} bytes (input {})", api, e, inp.len(), shex(inp)));
            false
        }
    }
}

/// every typed constructor on one byte string that is meant to be exactly one option
fn check_direct(case: &mut Case, acc: &mut Acc, inp: &[u8]) {
    acc.state(inp);
    let ty = inp.first().copied();
    let units = inp.get(1).copied();
    // well-formed as a stand-alone option of its own type
    let sized = inp.len() >= 2 && units != Some(0) && units.map_or(false, |u| u as usize * 8 == inp.len());
    let w = RefOpt { off: 0, len: inp.len(), ty: ty.unwrap_or(0), units: units.unwrap_or(0) };

    case.at("NdpOptionHeader::from_slice");
    acc.evals += 1;
    match NdpOptionHeader::from_slice(inp) {
        Ok((h, rest)) => {
            if inp.len() < 2 {
                case.fail("ndp:NdpOptionHeader::from_slice:accepts-invalid", format!("accepted {} bytes: {:?}", inp.len(), h));
            } else {
                field(case, "NdpOptionHeader::from_slice", "option_type", inp, h.option_type.0, inp[0]);
                field(case, "NdpOptionHeader::from_slice", "length_units", inp, h.length_units, inp[1]);
                field(case, "NdpOptionHeader", "byte_len", inp, h.byte_len(), inp[1] as usize * 8);
                sub(case, "NdpOptionHeader::from_slice", "rest", inp, rest, (2, inp.len() - 2));
            }
        }
        Err(e) => {
            if inp.len() >= 2 {
                case.fail("ndp:NdpOptionHeader::from_slice:rejects-valid", format!("returned {:?} for {} bytes (input {})", e, inp.len(), shex(inp)));
            } else {
                direct_err_values(case, "NdpOptionHeader::from_slice", inp, &e);
            }
        }
    }

    case.at("SourceLinkLayerAddressOptionSlice::from_slice");
    let r = SourceLinkLayerAddressOptionSlice::from_slice(inp);
    if direct_verdict(case, acc, "SourceLinkLayerAddressOptionSlice::from_slice", inp, &r, sized && ty == Some(1)) {
        check_opt(case, acc, inp, 0, &w, &NdpOptionSlice::SourceLinkLayerAddress(r.unwrap()));
    }
    case.at("TargetLinkLayerAddressOptionSlice::from_slice");
    let r = TargetLinkLayerAddressOptionSlice::from_slice(inp);
    if direct_verdict(case, acc, "TargetLinkLayerAddressOptionSlice::from_slice", inp, &r, sized && ty == Some(2)) {
        check_opt(case, acc, inp, 0, &w, &NdpOptionSlice::TargetLinkLayerAddress(r.unwrap()));
    }
    case.at("PrefixInformationOptionSlice::from_slice");
    let r = PrefixInformationOptionSlice::from_slice(inp);
    if direct_verdict(case, acc, "PrefixInformationOptionSlice::from_slice", inp, &r, sized && ty == Some(3) && units == Some(4)) {
        check_opt(case, acc, inp, 0, &w, &NdpOptionSlice::PrefixInformation(r.unwrap()));
    }
    case.at("PrefixInformation::from_slice");
    let r = PrefixInformation::from_slice(inp);
    if direct_verdict(case, acc, "PrefixInformation::from_slice", inp, &r, sized && ty == Some(3) && units == Some(4)) {
        let p = r.unwrap();
        let mut prefix = [0u8; 16];
        prefix.copy_from_slice(&inp[16..32]);
        field(
            case,
            "PrefixInformation::from_slice",
            "fields",
            inp,
            (p.prefix_length, p.on_link, p.autonomous_address_configuration, p.valid_lifetime, p.preferred_lifetime, p.prefix),
            (inp[2], inp[3] & 0x80 != 0, inp[3] & 0x40 != 0, be32(inp, 4), be32(inp, 8), prefix),
        );
    }
    case.at("RedirectedHeaderOptionSlice::from_slice");
    let r = RedirectedHeaderOptionSlice::from_slice(inp);
    if direct_verdict(case, acc, "RedirectedHeaderOptionSlice::from_slice", inp, &r, sized && ty == Some(4)) {
        check_opt(case, acc, inp, 0, &w, &NdpOptionSlice::RedirectedHeader(r.unwrap()));
    }
    case.at("MtuOptionSlice::from_slice");
    let r = MtuOptionSlice::from_slice(inp);
    if direct_verdict(case, acc, "MtuOptionSlice::from_slice", inp, &r, sized && ty == Some(5) && units == Some(1)) {
        check_opt(case, acc, inp, 0, &w, &NdpOptionSlice::Mtu(r.unwrap()));
    }
    case.at("UnknownNdpOptionSlice::from_slice");
    let r = UnknownNdpOptionSlice::from_slice(inp);
    if direct_verdict(case, acc, "UnknownNdpOptionSlice::from_slice", inp, &r, sized) {
        // the raw view accepts every type; it reports the type byte it finds
        let s = r.unwrap();
        sub(case, "UnknownNdpOptionSlice", "as_bytes", inp, s.as_bytes(), (0, inp.len()));
        sub(case, "UnknownNdpOptionSlice", "data", inp, s.data(), (2, inp.len() - 2));
        field(case, "UnknownNdpOptionSlice", "option_type", inp, s.option_type().0, inp[0]);
    }
}

/// unit = one option type: every length unit value x every cut 0..=len and + 1 / + 8 extra bytes
pub(crate) fn run_direct_unit(_tier: Tier, u: u64, ctx: &mut Ctx, arena: &Arena) {
    let ty = TYPES[u as usize];
    for units in UNITS {
        ctx.case(
            None,
            || CaseDesc {
                shape: "ndp typed option slice constructors".into(),
                text: format!("token [type {}, units {}, filler] of {} bytes cut after every byte 0..=len and extended by 1 and 8 bytes, given to every typed NDP option constructor", ty, units, token_len(units)),
                rank: units as u64,
            },
            |case| {
                let mut acc = Acc::new();
                let mut buf = Vec::new();
                push_token(&mut buf, ty, units);
                let full = buf.len();
                for i in 0..8 {
                    buf.push(pat(100 + i));
                }
                let mut lens: Vec<usize> = (0..=full).collect();
                lens.extend([full + 1, full + 8]);
                for len in lens {
                    // inputs that do not contain the swept byte are enumerated once
                    if (len == 0 && !(ty == TYPES[0] && units == UNITS[0])) || (len == 1 && units != UNITS[0]) {
                        continue;
                    }
                    let inp = arena.place_end(&buf[..len]);
                    check_direct(case, &mut acc, inp);
                    if case.failed() {
                        break;
                    }
                }
                case.outcome(format!("ndp-direct:type{}:units{}", ty, units));
                acc.finish(case);
            },
        );
    }
    if ty == 3 {
        // bit-level fields of the prefix information option: every value of the prefix length and of the L|A|reserved byte
        ctx.case(
            None,
            || CaseDesc {
                shape: "ndp prefix information flag byte sweep".into(),
                text: "prefix information option [3, 4, filler pat(i+5)] with byte 2 = 0..=255 and byte 3 = 0..=255 (one at a time, the other 00 / ff), given to the typed constructors and, behind a router advertisement, to the option iterator".into(),
                rank: 0,
            },
            |case| {
                let mut acc = Acc::new();
                let mut scratch = Vec::with_capacity(8);
                'sweep: for bg in [0x00u8, 0xff] {
                    for pos in [2usize, 3] {
                        for v in 0..=255u8 {
                            if case.failed() {
                                break 'sweep;
                            }
                            if (v == bg && pos == 3) || (bg == 0xff && v == 0x00) {
                                continue; // enumerated with pos 2 / with background 00 and the other byte ff
                            }
                            let mut opt = [0u8; 32];
                            for (i, x) in opt.iter_mut().enumerate() {
                                *x = pat(i + 5);
                            }
                            opt[0] = 3;
                            opt[1] = 4;
                            opt[2] = bg;
                            opt[3] = bg;
                            opt[pos] = v;
                            check_direct(case, &mut acc, arena.place_end(&opt));
                            let mut msg = message_prefix(1);
                            msg.extend_from_slice(&opt);
                            super::icmpv6::check(case, &mut acc, arena.place_end(&msg), &mut scratch);
                        }
                    }
                }
                case.outcome("ndp:prefix-information:flag-sweep");
                acc.finish(case);
            },
        );
    }
}
