//! ICMPv4: reference decoder (RFC 792, RFC 1122 §3.2.2, RFC 1191 §4, RFC 1812 §5.2.7) and the
//! observation of `Icmpv4Slice`, `Icmpv4Header::from_slice` and `Icmpv4Type`.

use super::*;
use etherparse::{icmpv4, Icmpv4Header, Icmpv4Slice, Icmpv4Type};

pub(crate) const LENS: [usize; 14] = [0, 1, 7, 8, 12, 15, 16, 17, 19, 20, 21, 31, 32, 40];

/// canonical decoded form of the first 8 (20) bytes
#[derive(Debug, Clone, PartialEq, Eq)]
pub(crate) enum K4 {
    Unknown { t: u8, c: u8, b58: [u8; 4] },
    EchoReply { id: u16, seq: u16 },
    DestUnreach { code: u8, next_hop_mtu: Option<u16> },
    Redirect { code: u8, gateway: [u8; 4] },
    EchoRequest { id: u16, seq: u16 },
    TimeExceeded { code: u8 },
    ParamProblem { code: u8, pointer: Option<u8> },
    TimestampRequest { id: u16, seq: u16, originate: u32, receive: u32, transmit: u32 },
    TimestampReply { id: u16, seq: u16, originate: u32, receive: u32, transmit: u32 },
}

impl K4 {
    pub fn name(&self) -> &'static str {
        match self {
            K4::Unknown { .. } => "icmpv4:Unknown",
            K4::EchoReply { .. } => "icmpv4:EchoReply",
            K4::DestUnreach { .. } => "icmpv4:DestinationUnreachable",
            K4::Redirect { .. } => "icmpv4:Redirect",
            K4::EchoRequest { .. } => "icmpv4:EchoRequest",
            K4::TimeExceeded { .. } => "icmpv4:TimeExceeded",
            K4::ParamProblem { .. } => "icmpv4:ParameterProblem",
            K4::TimestampRequest { .. } => "icmpv4:TimestampRequest",
            K4::TimestampReply { .. } => "icmpv4:TimestampReply",
        }
    }
    fn code(&self) -> Option<u8> {
        match self {
            K4::DestUnreach { code, .. } | K4::Redirect { code, .. } | K4::TimeExceeded { code } | K4::ParamProblem { code, .. } => Some(*code),
            _ => None,
        }
    }
}

/// why the reference rejects
#[derive(Debug, Clone, Copy, PartialEq, Eq)]
pub(crate) enum E4 {
    /// fewer than the 8 bytes every ICMP message has
    TooShort,
    /// timestamp / timestamp reply (code 0) that is not exactly 20 bytes (documented rule of the crate)
    TimestampLen { reply: bool },
}

/// reference: message kind and length of the fixed part
pub(crate) fn reference(b: &[u8]) -> Result<(K4, usize), E4> {
    if b.len() < 8 {
        return Err(E4::TooShort);
    }
    let (t, c) = (b[0], b[1]);
    let b58 = [b[4], b[5], b[6], b[7]];
    let (id, seq) = (be16(b, 4), be16(b, 6));
    let k = match (t, c) {
        // RFC 792: echo reply 0 / echo 8, code 0
        (0, 0) => K4::EchoReply { id, seq },
        (8, 0) => K4::EchoRequest { id, seq },
        // RFC 792 codes 0-5, RFC 1122 codes 6-12, RFC 1812 codes 13-15; RFC 1191: next-hop MTU in the low 16 bits of word 2
        (3, 0..=15) => K4::DestUnreach { code: c, next_hop_mtu: if c == 4 { Some(be16(b, 6)) } else { None } },
        // RFC 792: redirect codes 0-3, gateway internet address in word 2
        (5, 0..=3) => K4::Redirect { code: c, gateway: b58 },
        // RFC 792: time exceeded codes 0-1
        (11, 0..=1) => K4::TimeExceeded { code: c },
        // RFC 792 code 0 (pointer in byte 5), RFC 1122 code 1 (missing required option), RFC 1108 code 2 (bad length)
        (12, 0..=2) => K4::ParamProblem { code: c, pointer: if c == 0 { Some(b[4]) } else { None } },
        // RFC 792: timestamp 13 / timestamp reply 14, code 0, three 32 bit timestamps behind id/seq
        (13, 0) | (14, 0) => {
            if b.len() != 20 {
                return Err(E4::TimestampLen { reply: t == 14 });
            }
            let (originate, receive, transmit) = (be32(b, 8), be32(b, 12), be32(b, 16));
            let k = if t == 13 { K4::TimestampRequest { id, seq, originate, receive, transmit } } else { K4::TimestampReply { id, seq, originate, receive, transmit } };
            return Ok((k, 20));
        }
        _ => K4::Unknown { t, c, b58 },
    };
    Ok((k, 8))
}

/// crate value -> canonical form; the name -> code tables are transcribed from the RFCs, not taken from `code_u8()`
pub(crate) fn observe(t: &Icmpv4Type) -> K4 {
    use icmpv4::DestUnreachableHeader as D;
    use icmpv4::ParameterProblemHeader as P;
    use icmpv4::RedirectCode as R;
    use icmpv4::TimeExceededCode as T;
    match t {
        Icmpv4Type::Unknown { type_u8, code_u8, bytes5to8 } => K4::Unknown { t: *type_u8, c: *code_u8, b58: *bytes5to8 },
        Icmpv4Type::EchoReply(h) => K4::EchoReply { id: h.id, seq: h.seq },
        Icmpv4Type::EchoRequest(h) => K4::EchoRequest { id: h.id, seq: h.seq },
        Icmpv4Type::DestinationUnreachable(h) => {
            let (code, next_hop_mtu) = match h {
                D::Network => (0, None),
                D::Host => (1, None),
                D::Protocol => (2, None),
                D::Port => (3, None),
                D::FragmentationNeeded { next_hop_mtu } => (4, Some(*next_hop_mtu)),
                D::SourceRouteFailed => (5, None),
                D::NetworkUnknown => (6, None),
                D::HostUnknown => (7, None),
                D::Isolated => (8, None),
                D::NetworkProhibited => (9, None),
                D::HostProhibited => (10, None),
                D::TosNetwork => (11, None),
                D::TosHost => (12, None),
                D::FilterProhibited => (13, None),
                D::HostPrecedenceViolation => (14, None),
                D::PrecedenceCutoff => (15, None),
            };
            K4::DestUnreach { code, next_hop_mtu }
        }
        Icmpv4Type::Redirect(h) => K4::Redirect {
            code: match h.code {
                R::RedirectForNetwork => 0,
                R::RedirectForHost => 1,
                R::RedirectForTypeOfServiceAndNetwork => 2,
                R::RedirectForTypeOfServiceAndHost => 3,
            },
            gateway: h.gateway_internet_address,
        },
        Icmpv4Type::TimeExceeded(c) => K4::TimeExceeded {
            code: match c {
                T::TtlExceededInTransit => 0,
                T::FragmentReassemblyTimeExceeded => 1,
            },
        },
        Icmpv4Type::ParameterProblem(h) => match h {
            P::PointerIndicatesError(p) => K4::ParamProblem { code: 0, pointer: Some(*p) },
            P::MissingRequiredOption => K4::ParamProblem { code: 1, pointer: None },
            P::BadLength => K4::ParamProblem { code: 2, pointer: None },
        },
        Icmpv4Type::TimestampRequest(m) => K4::TimestampRequest { id: m.id, seq: m.seq, originate: m.originate_timestamp, receive: m.receive_timestamp, transmit: m.transmit_timestamp },
        Icmpv4Type::TimestampReply(m) => K4::TimestampReply { id: m.id, seq: m.seq, originate: m.originate_timestamp, receive: m.receive_timestamp, transmit: m.transmit_timestamp },
    }
}

fn kind_mismatch(case: &mut Case, api: &'static str, inp: &[u8], got: &K4, want: &K4) {
    if got == want {
        return;
    }
    let clause = if std::mem::discriminant(got) != std::mem::discriminant(want) {
        if matches!(want, K4::Unknown { .. }) {
            "unassigned-pair-not-unknown"
        } else if matches!(got, K4::Unknown { .. }) {
            "assigned-pair-decoded-as-unknown"
        } else {
            "wrong-message-kind"
        }
    } else {
        "wrong-field-values"
    };
    case.fail(format!("icmpv4:{}:{}", api, clause), format!("{} decoded {:?}, RFC 792/1122/1812 say {:?} (input {})", api, got, want, shex(inp)));
}

fn check_err(case: &mut Case, acc: &mut Acc, api: &'static str, inp: &[u8], e: &err::LenError, want: E4) {
    match want {
        E4::TooShort => {
            acc.hit("icmpv4:err-too-short");
            len_err(case, api, inp, e, 8, inp.len(), &[LenSource::Slice], &[err::Layer::Icmpv4]);
        }
        E4::TimestampLen { reply } => {
            acc.hit("icmpv4:err-timestamp-len");
            let layer = if reply { err::Layer::Icmpv4TimestampReply } else { err::Layer::Icmpv4Timestamp };
            // the generic ICMP layer would describe the same condition
            len_err(case, api, inp, e, 20, inp.len(), &[LenSource::Slice], &[layer, err::Layer::Icmpv4]);
        }
    }
}

/// give one byte string to every ICMPv4 decode entry point; returns the reference verdict
pub(crate) fn check(case: &mut Case, acc: &mut Acc, inp: &[u8]) -> Result<(K4, usize), E4> {
    acc.state(inp);
    let want = reference(inp);

    case.at("Icmpv4Slice::from_slice");
    acc.evals += 1;
    match (Icmpv4Slice::from_slice(inp), &want) {
        (Err(e), Err(we)) => check_err(case, acc, "Icmpv4Slice::from_slice", inp, &e, *we),
        (Err(e), Ok((k, _))) => case.fail("icmpv4:Icmpv4Slice::from_slice:rejects-valid", format!("returned {:?} for a well-formed {:?} message of {} bytes (input {})", e, k, inp.len(), shex(inp))),
        (Ok(s), Err(we)) => case.fail("icmpv4:Icmpv4Slice::from_slice:accepts-invalid", format!("accepted {} bytes although the reference rejects with {:?}: {:?} (input {})", inp.len(), we, s, shex(inp))),
        (Ok(s), Ok((k, hl))) => {
            acc.hit(k.name());
            sub(case, "Icmpv4Slice", "slice", inp, s.slice(), (0, inp.len()));
            field(case, "Icmpv4Slice", "type_u8", inp, s.type_u8(), inp[0]);
            field(case, "Icmpv4Slice", "code_u8", inp, s.code_u8(), inp[1]);
            field(case, "Icmpv4Slice", "checksum", inp, s.checksum(), be16(inp, 2));
            field(case, "Icmpv4Slice", "bytes5to8", inp, s.bytes5to8(), [inp[4], inp[5], inp[6], inp[7]]);
            case.at("Icmpv4Slice::icmp_type");
            let t = s.icmp_type();
            kind_mismatch(case, "Icmpv4Slice::icmp_type", inp, &observe(&t), k);
            case.at("Icmpv4Slice::header");
            let h = s.header();
            kind_mismatch(case, "Icmpv4Slice::header", inp, &observe(&h.icmp_type), k);
            field(case, "Icmpv4Slice::header", "checksum", inp, h.checksum, be16(inp, 2));
            field(case, "Icmpv4Slice", "header_len", inp, s.header_len(), *hl);
            field(case, "Icmpv4Header", "header_len", inp, h.header_len(), *hl);
            field(case, "Icmpv4Type", "header_len", inp, t.header_len(), *hl);
            field(case, "Icmpv4Type", "fixed_payload_size", inp, t.fixed_payload_size(), if *hl == 20 { Some(0) } else { None });
            case.at("Icmpv4Slice::payload");
            sub(case, "Icmpv4Slice", "payload", inp, s.payload(), (*hl, inp.len() - *hl));
            acc.evals += 4;
        }
    }

    case.at("Icmpv4Header::from_slice");
    acc.evals += 1;
    match (Icmpv4Header::from_slice(inp), &want) {
        (Err(e), Err(we)) => check_err(case, acc, "Icmpv4Header::from_slice", inp, &e, *we),
        (Err(e), Ok((k, _))) => case.fail("icmpv4:Icmpv4Header::from_slice:rejects-valid", format!("returned {:?} for a well-formed {:?} message of {} bytes (input {})", e, k, inp.len(), shex(inp))),
        (Ok((h, _)), Err(we)) => case.fail("icmpv4:Icmpv4Header::from_slice:accepts-invalid", format!("accepted {} bytes although the reference rejects with {:?}: {:?} (input {})", inp.len(), we, h, shex(inp))),
        (Ok((h, rest)), Ok((k, hl))) => {
            kind_mismatch(case, "Icmpv4Header::from_slice", inp, &observe(&h.icmp_type), k);
            field(case, "Icmpv4Header::from_slice", "checksum", inp, h.checksum, be16(inp, 2));
            sub(case, "Icmpv4Header::from_slice", "rest", inp, rest, (*hl, inp.len() - *hl));
        }
    }
    want
}

pub(crate) fn expect_reach() -> Vec<String> {
    let mut v: Vec<String> = [
        "icmpv4:Unknown",
        "icmpv4:EchoReply",
        "icmpv4:DestinationUnreachable",
        "icmpv4:Redirect",
        "icmpv4:EchoRequest",
        "icmpv4:TimeExceeded",
        "icmpv4:ParameterProblem",
        "icmpv4:TimestampRequest",
        "icmpv4:TimestampReply",
        "icmpv4:Unknown:unassigned-code-of-assigned-type",
        "icmpv4:err-too-short",
        "icmpv4:err-timestamp-len",
    ]
    .iter()
    .map(|s| s.to_string())
    .collect();
    for c in 0..=15 {
        v.push(format!("icmpv4:DestinationUnreachable/{}", c));
    }
    for c in 0..=3 {
        v.push(format!("icmpv4:Redirect/{}", c));
    }
    for c in 0..=1 {
        v.push(format!("icmpv4:TimeExceeded/{}", c));
    }
    for c in 0..=2 {
        v.push(format!("icmpv4:ParameterProblem/{}", c));
    }
    v
}

/// unit = one type byte: every code of the tier x bytes 5-8 x total lengths
pub(crate) fn run_unit(tier: Tier, t: u8, ctx: &mut Ctx, arena: &Arena) {
    let first_code = codes(tier)[0];
    for c in codes(tier) {
        ctx.case(
            None,
            || CaseDesc {
                shape: "icmpv4 type/code sweep".into(),
                text: format!("ICMPv4 type {} code {}: bytes = [type, code, checksum a1b2, bytes5to8 in {{00000000, ffffffff, 01020304}}, filler pat(i)=i*37+0x5b] cut/extended to total lengths {:?}", t, c, LENS),
                rank: (t as u64) * 256 + c as u64,
            },
            |case| {
                let mut acc = Acc::new();
                let mut kind: Option<K4> = None;
                'sweep: for (bi, b58) in B58.into_iter().enumerate() {
                    let mut full = [0u8; 40];
                    for (i, x) in full.iter_mut().enumerate() {
                        *x = pat(i);
                    }
                    full[0] = t;
                    full[1] = c;
                    full[2] = 0xa1;
                    full[3] = 0xb2;
                    full[4..8].copy_from_slice(&b58);
                    for len in LENS {
                        // an input shorter than the swept bytes is enumerated once, not once per value of the bytes it does not contain
                        if (len == 0 && !(t == 0 && c == first_code && bi == 0)) || (len == 1 && !(c == first_code && bi == 0)) {
                            continue;
                        }
                        let inp = arena.place_end(&full[..len]);
                        if let Ok((k, _)) = check(case, &mut acc, inp) {
                            kind = Some(k);
                        }
                        if case.failed() {
                            break 'sweep; // the first failing input of a type/code pair is the most telling one
                        }
                    }
                }
                if let Some(k) = &kind {
                    if let Some(code) = k.code() {
                        case.reach(format!("{}/{}", k.name(), code));
                    }
                    if matches!(k, K4::Unknown { .. }) && matches!(t, 0 | 3 | 5 | 8 | 11 | 12 | 13 | 14) {
                        case.reach("icmpv4:Unknown:unassigned-code-of-assigned-type");
                    }
                    case.outcome(match k.code() {
                        Some(code) => format!("{}/{}", k.name(), code),
                        None => k.name().to_string(),
                    });
                }
                acc.finish(case);
            },
        );
    }
}
