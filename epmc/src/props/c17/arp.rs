//! ARP (RFC 826): reference decoder and the observation of `ArpPacketSlice`, `ArpPacket` and the
//! Ethernet/IPv4 view (`ArpPacket::try_eth_ipv4`, `TryFrom<ArpPacket> for ArpEthIpv4Packet`).

use super::*;
use etherparse::err::arp::ArpEthIpv4FromError;
use etherparse::{ArpEthIpv4Packet, ArpPacket, ArpPacketSlice};

pub(crate) const HW: [u16; 4] = [0, 1, 6, 65535];
pub(crate) const PROTO: [u16; 3] = [0x0800, 0x86DD, 0];
pub(crate) const OPS: [u16; 4] = [1, 2, 0, 65535];
pub(crate) const ALENS: [u8; 5] = [0, 4, 6, 8, 255];

pub(crate) const REACH: &[&str] = &[
    "arp:ok",
    "arp:err-too-short-header",
    "arp:err-too-short-addrs",
    "arp:trailing-bytes-excluded",
    "arp:eth-ipv4-view-ok",
    "arp:eth-ipv4-view-err",
    "arp:eth-ipv4-view-err:hw-type",
    "arp:eth-ipv4-view-err:proto-type",
    "arp:eth-ipv4-view-err:hw-len",
    "arp:eth-ipv4-view-err:proto-len",
];

/// RFC 826 packet: hrd(2) pro(2) hln(1) pln(1) op(2) sha(hln) spa(pln) tha(hln) tpa(pln)
#[derive(Debug, Clone, Copy, PartialEq, Eq)]
pub(crate) struct RefArp {
    pub hw: u16,
    pub proto: u16,
    pub hlen: u8,
    pub plen: u8,
    pub op: u16,
    /// total bytes of the packet
    pub total: usize,
}

/// Ok(packet) or Err((required, header_cut))
pub(crate) fn reference(b: &[u8]) -> Result<RefArp, (usize, bool)> {
    if b.len() < 8 {
        return Err((8, true));
    }
    let r = RefArp { hw: be16(b, 0), proto: be16(b, 2), hlen: b[4], plen: b[5], op: be16(b, 6), total: 8 + 2 * b[4] as usize + 2 * b[5] as usize };
    if b.len() < r.total {
        return Err((r.total, false));
    }
    Ok(r)
}

fn check_packet(case: &mut Case, api: &'static str, inp: &[u8], r: &RefArp, p: &ArpPacket) {
    let (h, pl) = (r.hlen as usize, r.plen as usize);
    field(case, api, "hw_addr_type", inp, p.hw_addr_type.0, r.hw);
    field(case, api, "proto_addr_type", inp, p.proto_addr_type.0, r.proto);
    field(case, api, "hw_addr_size", inp, p.hw_addr_size(), r.hlen);
    field(case, api, "protocol_addr_size", inp, p.protocol_addr_size(), r.plen);
    field(case, api, "operation", inp, p.operation.0, r.op);
    field(case, api, "packet_len", inp, p.packet_len(), r.total);
    field(case, api, "sender_hw_addr", inp, p.sender_hw_addr(), &inp[8..8 + h]);
    field(case, api, "sender_protocol_addr", inp, p.sender_protocol_addr(), &inp[8 + h..8 + h + pl]);
    field(case, api, "target_hw_addr", inp, p.target_hw_addr(), &inp[8 + h + pl..8 + 2 * h + pl]);
    field(case, api, "target_protocol_addr", inp, p.target_protocol_addr(), &inp[8 + 2 * h + pl..8 + 2 * h + 2 * pl]);
}

fn check_view(case: &mut Case, acc: &mut Acc, api: &'static str, inp: &[u8], r: &RefArp, v: Result<ArpEthIpv4Packet, ArpEthIpv4FromError>) {
    acc.evals += 1;
    let eth_ipv4 = r.hw == 1 && r.proto == 0x0800 && r.hlen == 6 && r.plen == 4;
    match v {
        Ok(p) => {
            if !eth_ipv4 {
                let clause = if r.hw != 1 {
                    "hw-type-not-checked"
                } else if r.proto != 0x0800 {
                    "proto-type-not-checked"
                } else if r.hlen != 6 {
                    "hw-len-not-checked"
                } else {
                    "proto-len-not-checked"
                };
                case.fail(
                    format!("arp:{}:accepts-non-eth-ipv4:{}", api, clause),
                    format!("{} succeeded for hw type {} proto {:#06x} hlen {} plen {}: {:?} (input {})", api, r.hw, r.proto, r.hlen, r.plen, p, shex(inp)),
                );
                return;
            }
            acc.hit("arp:eth-ipv4-view-ok");
            field(case, api, "operation", inp, p.operation.0, r.op);
            field(case, api, "sender_mac", inp, &p.sender_mac[..], &inp[8..14]);
            field(case, api, "sender_ipv4", inp, &p.sender_ipv4[..], &inp[14..18]);
            field(case, api, "target_mac", inp, &p.target_mac[..], &inp[18..24]);
            field(case, api, "target_ipv4", inp, &p.target_ipv4[..], &inp[24..28]);
            field(case, api, "sender_ipv4_addr", inp, p.sender_ipv4_addr().octets(), [inp[14], inp[15], inp[16], inp[17]]);
            field(case, api, "target_ipv4_addr", inp, p.target_ipv4_addr().octets(), [inp[24], inp[25], inp[26], inp[27]]);
        }
        Err(e) => {
            if eth_ipv4 {
                case.fail(format!("arp:{}:rejects-eth-ipv4", api), format!("{} returned {:?} for an Ethernet/IPv4 packet (input {})", api, e, shex(inp)));
                return;
            }
            acc.hit("arp:eth-ipv4-view-err");
            // the error must name a field that really mismatches, with its real value
            let (real, key) = match &e {
                ArpEthIpv4FromError::NonMatchingHwType(t) => (t.0 == r.hw && r.hw != 1, "arp:eth-ipv4-view-err:hw-type"),
                ArpEthIpv4FromError::NonMatchingProtocolType(t) => (t.0 == r.proto && r.proto != 0x0800, "arp:eth-ipv4-view-err:proto-type"),
                ArpEthIpv4FromError::NonMatchingHwAddrSize(n) => (*n == r.hlen && r.hlen != 6, "arp:eth-ipv4-view-err:hw-len"),
                ArpEthIpv4FromError::NonMatchingProtoAddrSize(n) => (*n == r.plen && r.plen != 4, "arp:eth-ipv4-view-err:proto-len"),
            };
            if real {
                acc.hit(key);
            } else {
                case.fail(
                    format!("arp:{}:error-names-wrong-field-or-value", api),
                    format!("{} returned {:?} for hw type {} proto {:#06x} hlen {} plen {} (input {})", api, e, r.hw, r.proto, r.hlen, r.plen, shex(inp)),
                );
            }
        }
    }
}

fn check_len_err(case: &mut Case, acc: &mut Acc, api: &'static str, inp: &[u8], e: &err::LenError, required: usize, header_cut: bool) {
    if header_cut {
        acc.hit("arp:err-too-short-header");
        len_err(case, api, inp, e, required, inp.len(), &[LenSource::Slice], &[err::Layer::Arp]);
    } else {
        acc.hit("arp:err-too-short-addrs");
        // the bound comes from the address length fields; the crate documents LenSource::ArpAddrLengths for it
        len_err(case, api, inp, e, required, inp.len(), &[LenSource::ArpAddrLengths, LenSource::Slice], &[err::Layer::Arp]);
    }
}

pub(crate) fn check(case: &mut Case, acc: &mut Acc, inp: &[u8]) {
    acc.state(inp);
    let want = reference(inp);

    case.at("ArpPacketSlice::from_slice");
    acc.evals += 1;
    match (ArpPacketSlice::from_slice(inp), &want) {
        (Err(e), Err((req, hc))) => check_len_err(case, acc, "ArpPacketSlice::from_slice", inp, &e, *req, *hc),
        (Err(e), Ok(r)) => case.fail("arp:ArpPacketSlice::from_slice:rejects-valid", format!("returned {:?} for {} bytes holding a complete packet {:?} (input {})", e, inp.len(), r, shex(inp))),
        (Ok(s), Err((req, _))) => case.fail("arp:ArpPacketSlice::from_slice:accepts-too-short", format!("accepted {} bytes although {} are required: {:?} (input {})", inp.len(), req, s, shex(inp))),
        (Ok(s), Ok(r)) => {
            acc.hit("arp:ok");
            if inp.len() > r.total {
                acc.hit("arp:trailing-bytes-excluded");
            }
            let (h, pl) = (r.hlen as usize, r.plen as usize);
            sub(case, "ArpPacketSlice", "slice", inp, s.slice(), (0, r.total));
            field(case, "ArpPacketSlice", "hw_addr_type", inp, s.hw_addr_type().0, r.hw);
            field(case, "ArpPacketSlice", "proto_addr_type", inp, s.proto_addr_type().0, r.proto);
            field(case, "ArpPacketSlice", "hw_addr_size", inp, s.hw_addr_size(), r.hlen);
            field(case, "ArpPacketSlice", "proto_addr_size", inp, s.proto_addr_size(), r.plen);
            field(case, "ArpPacketSlice", "operation", inp, s.operation().0, r.op);
            sub(case, "ArpPacketSlice", "sender_hw_addr", inp, s.sender_hw_addr(), (8, h));
            sub(case, "ArpPacketSlice", "sender_protocol_addr", inp, s.sender_protocol_addr(), (8 + h, pl));
            sub(case, "ArpPacketSlice", "target_hw_addr", inp, s.target_hw_addr(), (8 + h + pl, h));
            sub(case, "ArpPacketSlice", "target_protocol_addr", inp, s.target_protocol_addr(), (8 + 2 * h + pl, pl));
            if !case.failed() {
                case.at("ArpPacketSlice::to_packet");
                acc.evals += 1;
                let p = s.to_packet();
                check_packet(case, "ArpPacketSlice::to_packet", inp, r, &p);
                case.at("ArpPacket::try_eth_ipv4");
                check_view(case, acc, "ArpPacket::try_eth_ipv4", inp, r, p.try_eth_ipv4());
                case.at("ArpEthIpv4Packet::try_from");
                check_view(case, acc, "ArpEthIpv4Packet::try_from", inp, r, ArpEthIpv4Packet::try_from(p));
            }
        }
    }

    if case.failed() {
        // the owned form copies from the same offsets; do not pile a crash on top of a reported range error
        return;
    }
    case.at("ArpPacket::from_slice");
    acc.evals += 1;
    match (ArpPacket::from_slice(inp), &want) {
        (Err(e), Err((req, hc))) => check_len_err(case, acc, "ArpPacket::from_slice", inp, &e, *req, *hc),
        (Err(e), Ok(r)) => case.fail("arp:ArpPacket::from_slice:rejects-valid", format!("returned {:?} for {} bytes holding a complete packet {:?} (input {})", e, inp.len(), r, shex(inp))),
        (Ok(p), Err((req, _))) => case.fail("arp:ArpPacket::from_slice:accepts-too-short", format!("accepted {} bytes although {} are required: {:?} (input {})", inp.len(), req, p, shex(inp))),
        (Ok(p), Ok(r)) => check_packet(case, "ArpPacket::from_slice", inp, r, &p),
    }
}

/// unit = (hw type, protocol type, operation): all hlen/plen pairs x every truncation and + 1 / + 5 trailing bytes
pub(crate) fn run_unit(_tier: Tier, u: u64, ctx: &mut Ctx, arena: &Arena) {
    let u = u as usize;
    let hw = HW[u / (PROTO.len() * OPS.len())];
    let proto = PROTO[(u / OPS.len()) % PROTO.len()];
    let op = OPS[u % OPS.len()];
    for hlen in ALENS {
        for plen in ALENS {
            let total = 8 + 2 * hlen as usize + 2 * plen as usize;
            ctx.case(
                None,
                || CaseDesc {
                    shape: "arp header x every truncation".into(),
                    text: format!("ARP hw type {} proto {:#06x} hlen {} plen {} operation {}, addresses = filler pat(i)=i*37+0x5b, cut after every byte 0..={} and with 1 and 5 trailing bytes", hw, proto, hlen, plen, op, total),
                    rank: total as u64,
                },
                |case| {
                    let mut acc = Acc::new();
                    let mut b = vec![0u8; total + 5];
                    for (i, x) in b.iter_mut().enumerate() {
                        *x = pat(i);
                    }
                    b[0..2].copy_from_slice(&hw.to_be_bytes());
                    b[2..4].copy_from_slice(&proto.to_be_bytes());
                    b[4] = hlen;
                    b[5] = plen;
                    b[6..8].copy_from_slice(&op.to_be_bytes());
                    let mut lens: Vec<usize> = (0..=total).collect();
                    lens.extend([total + 1, total + 5]);
                    for len in lens {
                        // a truncation that does not contain a swept field is enumerated once, not once per value of that field
                        let first = |v: u16, set: &[u16]| v == set[0];
                        let (h0, p0) = (hlen == ALENS[0], plen == ALENS[0]);
                        let canonical = match len {
                            0 => first(hw, &HW) && first(proto, &PROTO) && h0 && p0 && first(op, &OPS),
                            1 => (hw == 0 || hw == 65535) && first(proto, &PROTO) && h0 && p0 && first(op, &OPS),
                            2 => first(proto, &PROTO) && h0 && p0 && first(op, &OPS),
                            3 | 4 => h0 && p0 && first(op, &OPS),
                            5 => p0 && first(op, &OPS),
                            6 => first(op, &OPS),
                            7 => op == 1 || op == 65535,
                            _ => true,
                        };
                        if !canonical {
                            continue;
                        }
                        check(case, &mut acc, arena.place_end(&b[..len]));
                        if case.failed() {
                            break;
                        }
                    }
                    let eth = hw == 1 && proto == 0x0800 && hlen == 6 && plen == 4;
                    case.outcome(if eth { "arp:eth-ipv4" } else { "arp:generic" });
                    acc.finish(case);
                },
            );
        }
    }
}
