//! ICMPv6: reference decoder (RFC 4443, RFC 4861 §4.1-4.5, IANA parameter problem codes 0-10 as
//! the crate documents them) and the observation of `Icmpv6Slice`, `Icmpv6Header::from_slice`,
//! `Icmpv6Type` and the typed payload slices.

use super::ndp::{self, RefOpt, Walk};
use super::*;
use etherparse::icmpv6::{self, Icmpv6Payload, Icmpv6PayloadSlice};
use etherparse::{Icmpv6Header, Icmpv6Slice, Icmpv6Type};

pub(crate) const LENS: [usize; 16] = [0, 1, 7, 8, 12, 15, 16, 23, 24, 25, 31, 32, 39, 40, 41, 48];

#[derive(Debug, Clone, PartialEq, Eq)]
pub(crate) enum K6 {
    Unknown { t: u8, c: u8, b58: [u8; 4] },
    DestUnreach { code: u8 },
    PacketTooBig { mtu: u32 },
    TimeExceeded { code: u8 },
    ParamProblem { code: u8, pointer: u32 },
    EchoRequest { id: u16, seq: u16 },
    EchoReply { id: u16, seq: u16 },
    RouterSolicitation,
    RouterAdvertisement { cur_hop_limit: u8, managed: bool, other: bool, router_lifetime: u16 },
    NeighborSolicitation,
    NeighborAdvertisement { router: bool, solicited: bool, override_: bool },
    Redirect,
}

impl K6 {
    pub fn name(&self) -> &'static str {
        match self {
            K6::Unknown { .. } => "icmpv6:Unknown",
            K6::DestUnreach { .. } => "icmpv6:DestinationUnreachable",
            K6::PacketTooBig { .. } => "icmpv6:PacketTooBig",
            K6::TimeExceeded { .. } => "icmpv6:TimeExceeded",
            K6::ParamProblem { .. } => "icmpv6:ParameterProblem",
            K6::EchoRequest { .. } => "icmpv6:EchoRequest",
            K6::EchoReply { .. } => "icmpv6:EchoReply",
            K6::RouterSolicitation => "icmpv6:RouterSolicitation",
            K6::RouterAdvertisement { .. } => "icmpv6:RouterAdvertisement",
            K6::NeighborSolicitation => "icmpv6:NeighborSolicitation",
            K6::NeighborAdvertisement { .. } => "icmpv6:NeighborAdvertisement",
            K6::Redirect => "icmpv6:Redirect",
        }
    }
    fn code(&self) -> Option<u8> {
        match self {
            K6::DestUnreach { code } | K6::TimeExceeded { code } | K6::ParamProblem { code, .. } => Some(*code),
            _ => None,
        }
    }
    /// (reach key of the payload view, length of the fixed part behind the 8 byte header, has options)
    fn payload_kind(&self) -> (&'static str, usize, bool) {
        match self {
            K6::Unknown { .. } => ("icmpv6:payload-Raw", 0, false),
            K6::DestUnreach { .. } => ("icmpv6:payload-DestinationUnreachable", 0, false),
            K6::PacketTooBig { .. } => ("icmpv6:payload-PacketTooBig", 0, false),
            K6::TimeExceeded { .. } => ("icmpv6:payload-TimeExceeded", 0, false),
            K6::ParamProblem { .. } => ("icmpv6:payload-ParameterProblem", 0, false),
            K6::EchoRequest { .. } => ("icmpv6:payload-EchoRequest", 0, false),
            K6::EchoReply { .. } => ("icmpv6:payload-EchoReply", 0, false),
            // RFC 4861 §4.1: reserved(4) | options
            K6::RouterSolicitation => ("icmpv6:payload-RouterSolicitation", 0, true),
            // §4.2: hop limit, M|O, lifetime | reachable time(4) retrans timer(4) | options
            K6::RouterAdvertisement { .. } => ("icmpv6:payload-RouterAdvertisement", 8, true),
            // §4.3: reserved(4) | target address(16) | options
            K6::NeighborSolicitation => ("icmpv6:payload-NeighborSolicitation", 16, true),
            // §4.4: R|S|O reserved | target address(16) | options
            K6::NeighborAdvertisement { .. } => ("icmpv6:payload-NeighborAdvertisement", 16, true),
            // §4.5: reserved(4) | target address(16) destination address(16) | options
            K6::Redirect => ("icmpv6:payload-Redirect", 32, true),
        }
    }
}

/// reference for the first 8 bytes; `None` = shorter than the 8 bytes every ICMPv6 message has
pub(crate) fn reference(b: &[u8]) -> Option<K6> {
    if b.len() < 8 {
        return None;
    }
    let (t, c) = (b[0], b[1]);
    let b58 = [b[4], b[5], b[6], b[7]];
    Some(match (t, c) {
        // RFC 4443 §3.1 codes 0-6
        (1, 0..=6) => K6::DestUnreach { code: c },
        // §3.2 code 0, MTU in word 2
        (2, 0) => K6::PacketTooBig { mtu: be32(b, 4) },
        // §3.3 codes 0-1
        (3, 0..=1) => K6::TimeExceeded { code: c },
        // §3.4 codes 0-2, RFC 7112 code 3, RFC 8754 code 4, RFC 8883 codes 5-10; pointer in word 2
        (4, 0..=10) => K6::ParamProblem { code: c, pointer: be32(b, 4) },
        // §4.1 / §4.2 code 0
        (128, 0) => K6::EchoRequest { id: be16(b, 4), seq: be16(b, 6) },
        (129, 0) => K6::EchoReply { id: be16(b, 4), seq: be16(b, 6) },
        // RFC 4861 §4.1-4.5, code 0
        (133, 0) => K6::RouterSolicitation,
        (134, 0) => K6::RouterAdvertisement { cur_hop_limit: b[4], managed: b[5] & 0x80 != 0, other: b[5] & 0x40 != 0, router_lifetime: be16(b, 6) },
        (135, 0) => K6::NeighborSolicitation,
        (136, 0) => K6::NeighborAdvertisement { router: b[4] & 0x80 != 0, solicited: b[4] & 0x40 != 0, override_: b[4] & 0x20 != 0 },
        (137, 0) => K6::Redirect,
        _ => K6::Unknown { t, c, b58 },
    })
}

/// crate value -> canonical form; name -> code tables transcribed from RFC 4443 / 7112 / 8754 / 8883
pub(crate) fn observe(t: &Icmpv6Type) -> K6 {
    use icmpv6::DestUnreachableCode as D;
    use icmpv6::ParameterProblemCode as P;
    use icmpv6::TimeExceededCode as T;
    match t {
        Icmpv6Type::Unknown { type_u8, code_u8, bytes5to8 } => K6::Unknown { t: *type_u8, c: *code_u8, b58: *bytes5to8 },
        Icmpv6Type::DestinationUnreachable(c) => K6::DestUnreach {
            code: match c {
                D::NoRoute => 0,
                D::Prohibited => 1,
                D::BeyondScope => 2,
                D::Address => 3,
                D::Port => 4,
                D::SourceAddressFailedPolicy => 5,
                D::RejectRoute => 6,
            },
        },
        Icmpv6Type::PacketTooBig { mtu } => K6::PacketTooBig { mtu: *mtu },
        Icmpv6Type::TimeExceeded(c) => K6::TimeExceeded {
            code: match c {
                T::HopLimitExceeded => 0,
                T::FragmentReassemblyTimeExceeded => 1,
            },
        },
        Icmpv6Type::ParameterProblem(h) => K6::ParamProblem {
            code: match h.code {
                P::ErroneousHeaderField => 0,
                P::UnrecognizedNextHeader => 1,
                P::UnrecognizedIpv6Option => 2,
                P::Ipv6FirstFragmentIncompleteHeaderChain => 3,
                P::SrUpperLayerHeaderError => 4,
                P::UnrecognizedNextHeaderByIntermediateNode => 5,
                P::ExtensionHeaderTooBig => 6,
                P::ExtensionHeaderChainTooLong => 7,
                P::TooManyExtensionHeaders => 8,
                P::TooManyOptionsInExtensionHeader => 9,
                P::OptionTooBig => 10,
            },
            pointer: h.pointer,
        },
        Icmpv6Type::EchoRequest(h) => K6::EchoRequest { id: h.id, seq: h.seq },
        Icmpv6Type::EchoReply(h) => K6::EchoReply { id: h.id, seq: h.seq },
        Icmpv6Type::RouterSolicitation => K6::RouterSolicitation,
        Icmpv6Type::RouterAdvertisement(h) => K6::RouterAdvertisement { cur_hop_limit: h.cur_hop_limit, managed: h.managed_address_config, other: h.other_config, router_lifetime: h.router_lifetime },
        Icmpv6Type::NeighborSolicitation => K6::NeighborSolicitation,
        Icmpv6Type::NeighborAdvertisement(h) => K6::NeighborAdvertisement { router: h.router, solicited: h.solicited, override_: h.r#override },
        Icmpv6Type::Redirect => K6::Redirect,
    }
}

fn kind_mismatch(case: &mut Case, api: &'static str, inp: &[u8], got: &K6, want: &K6) {
    if got == want {
        return;
    }
    let clause = if std::mem::discriminant(got) != std::mem::discriminant(want) {
        if matches!(want, K6::Unknown { .. }) {
            "unassigned-pair-not-unknown"
        } else if matches!(got, K6::Unknown { .. }) {
            "assigned-pair-decoded-as-unknown"
        } else {
            "wrong-message-kind"
        }
    } else {
        "wrong-field-values"
    };
    case.fail(format!("icmpv6:{}:{}", api, clause), format!("{} decoded {:?}, RFC 4443/4861 say {:?} (input {})", api, got, want, shex(inp)));
}

fn addr(b: &[u8], at: usize) -> std::net::Ipv6Addr {
    let mut a = [0u8; 16];
    a.copy_from_slice(&b[at..at + 16]);
    std::net::Ipv6Addr::from(a)
}

/// observe one payload view; returns the option walk of NDP messages
fn check_payload(case: &mut Case, acc: &mut Acc, api: &'static str, inp: &[u8], k: &K6, ps: &Icmpv6PayloadSlice, scratch: &mut Vec<RefOpt>, walk_options: bool) -> Option<Walk> {
    let (want_key, fixed, _) = k.payload_kind();
    let plen = inp.len() - 8;
    let p = &inp[8..];
    let all = (8usize, plen);
    let opts = (8 + fixed, plen.saturating_sub(fixed));
    sub(case, api, "slice", inp, ps.slice(), all);
    let mut walk = None;
    let got_key = match ps {
        Icmpv6PayloadSlice::Raw(s) => {
            sub(case, api, "Raw", inp, s, all);
            "icmpv6:payload-Raw"
        }
        Icmpv6PayloadSlice::DestinationUnreachable(s) => {
            sub(case, api, "DestinationUnreachable.slice", inp, s.slice(), all);
            sub(case, api, "DestinationUnreachable.invoking_packet", inp, s.invoking_packet(), all);
            "icmpv6:payload-DestinationUnreachable"
        }
        Icmpv6PayloadSlice::PacketTooBig(s) => {
            sub(case, api, "PacketTooBig.slice", inp, s.slice(), all);
            sub(case, api, "PacketTooBig.invoking_packet", inp, s.invoking_packet(), all);
            "icmpv6:payload-PacketTooBig"
        }
        Icmpv6PayloadSlice::TimeExceeded(s) => {
            sub(case, api, "TimeExceeded.slice", inp, s.slice(), all);
            sub(case, api, "TimeExceeded.invoking_packet", inp, s.invoking_packet(), all);
            "icmpv6:payload-TimeExceeded"
        }
        Icmpv6PayloadSlice::ParameterProblem(s) => {
            sub(case, api, "ParameterProblem.slice", inp, s.slice(), all);
            sub(case, api, "ParameterProblem.invoking_packet", inp, s.invoking_packet(), all);
            "icmpv6:payload-ParameterProblem"
        }
        Icmpv6PayloadSlice::EchoRequest(s) => {
            sub(case, api, "EchoRequest.slice", inp, s.slice(), all);
            sub(case, api, "EchoRequest.data", inp, s.data(), all);
            "icmpv6:payload-EchoRequest"
        }
        Icmpv6PayloadSlice::EchoReply(s) => {
            sub(case, api, "EchoReply.slice", inp, s.slice(), all);
            sub(case, api, "EchoReply.data", inp, s.data(), all);
            "icmpv6:payload-EchoReply"
        }
        Icmpv6PayloadSlice::RouterSolicitation(s) => {
            sub(case, api, "RouterSolicitation.slice", inp, s.slice(), all);
            if fixed == 0 {
                sub(case, api, "RouterSolicitation.options", inp, s.options(), opts);
                let (_, o) = s.to_payload();
                sub(case, api, "RouterSolicitation.to_payload.options", inp, o, opts);
                if walk_options {
                    walk = Some(ndp::drive(case, acc, inp, 8, s.options_iterator(), scratch));
                }
            }
            "icmpv6:payload-RouterSolicitation"
        }
        Icmpv6PayloadSlice::RouterAdvertisement(s) => {
            sub(case, api, "RouterAdvertisement.slice", inp, s.slice(), all);
            if fixed == 8 && plen >= 8 {
                field(case, api, "RouterAdvertisement.reachable_time", inp, s.reachable_time(), be32(p, 0));
                field(case, api, "RouterAdvertisement.retrans_timer", inp, s.retrans_timer(), be32(p, 4));
                sub(case, api, "RouterAdvertisement.options", inp, s.options(), opts);
                let (pl, o) = s.to_payload();
                field(case, api, "RouterAdvertisement.to_payload", inp, (pl.reachable_time, pl.retrans_timer), (be32(p, 0), be32(p, 4)));
                sub(case, api, "RouterAdvertisement.to_payload.options", inp, o, opts);
                if walk_options {
                    walk = Some(ndp::drive(case, acc, inp, 16, s.options_iterator(), scratch));
                }
            }
            "icmpv6:payload-RouterAdvertisement"
        }
        Icmpv6PayloadSlice::NeighborSolicitation(s) => {
            sub(case, api, "NeighborSolicitation.slice", inp, s.slice(), all);
            if fixed == 16 && plen >= 16 {
                field(case, api, "NeighborSolicitation.target_address", inp, s.target_address(), addr(p, 0));
                sub(case, api, "NeighborSolicitation.options", inp, s.options(), opts);
                let (pl, o) = s.to_payload();
                field(case, api, "NeighborSolicitation.to_payload", inp, pl.target_address, addr(p, 0));
                sub(case, api, "NeighborSolicitation.to_payload.options", inp, o, opts);
                if walk_options {
                    walk = Some(ndp::drive(case, acc, inp, 24, s.options_iterator(), scratch));
                }
            }
            "icmpv6:payload-NeighborSolicitation"
        }
        Icmpv6PayloadSlice::NeighborAdvertisement(s) => {
            sub(case, api, "NeighborAdvertisement.slice", inp, s.slice(), all);
            if fixed == 16 && plen >= 16 {
                field(case, api, "NeighborAdvertisement.target_address", inp, s.target_address(), addr(p, 0));
                sub(case, api, "NeighborAdvertisement.options", inp, s.options(), opts);
                let (pl, o) = s.to_payload();
                field(case, api, "NeighborAdvertisement.to_payload", inp, pl.target_address, addr(p, 0));
                sub(case, api, "NeighborAdvertisement.to_payload.options", inp, o, opts);
                if walk_options {
                    walk = Some(ndp::drive(case, acc, inp, 24, s.options_iterator(), scratch));
                }
            }
            "icmpv6:payload-NeighborAdvertisement"
        }
        Icmpv6PayloadSlice::Redirect(s) => {
            sub(case, api, "Redirect.slice", inp, s.slice(), all);
            if fixed == 32 && plen >= 32 {
                field(case, api, "Redirect.target_address", inp, s.target_address(), addr(p, 0));
                field(case, api, "Redirect.destination_address", inp, s.destination_address(), addr(p, 16));
                sub(case, api, "Redirect.options", inp, s.options(), opts);
                let (pl, o) = s.to_payload();
                field(case, api, "Redirect.to_payload", inp, (pl.target_address, pl.destination_address), (addr(p, 0), addr(p, 16)));
                sub(case, api, "Redirect.to_payload.options", inp, o, opts);
                if walk_options {
                    walk = Some(ndp::drive(case, acc, inp, 40, s.options_iterator(), scratch));
                }
            }
            "icmpv6:payload-Redirect"
        }
        _ => "<variant unknown to the harness>",
    };
    if got_key != want_key {
        let clause = if want_key == "icmpv6:payload-Raw" { "unassigned-pair-not-raw" } else if got_key == "icmpv6:payload-Raw" { "assigned-pair-given-as-raw" } else { "wrong-payload-kind" };
        case.fail(format!("icmpv6:{}:{}", api, clause), format!("{} gave {} for type {} code {}, expected {} (input {})", api, got_key, inp[0], inp[1], want_key, shex(inp)));
    } else {
        acc.hit(want_key);
        // enum level conversion to the owned form: only the NDP messages have one
        let owned = ps.to_payload();
        let want_owned = k.payload_kind().2;
        match (&owned, want_owned) {
            (None, false) => {}
            (Some((pl, o)), true) => {
                sub(case, api, "to_payload.options", inp, o, opts);
                field(case, api, "to_payload.len", inp, pl.len(), fixed);
                let same = match (pl, k) {
                    (Icmpv6Payload::RouterSolicitation(_), K6::RouterSolicitation) => true,
                    (Icmpv6Payload::RouterAdvertisement(x), K6::RouterAdvertisement { .. }) => (x.reachable_time, x.retrans_timer) == (be32(p, 0), be32(p, 4)),
                    (Icmpv6Payload::NeighborSolicitation(x), K6::NeighborSolicitation) => x.target_address == addr(p, 0),
                    (Icmpv6Payload::NeighborAdvertisement(x), K6::NeighborAdvertisement { .. }) => x.target_address == addr(p, 0),
                    (Icmpv6Payload::Redirect(x), K6::Redirect) => (x.target_address, x.destination_address) == (addr(p, 0), addr(p, 16)),
                    _ => false,
                };
                if !same {
                    case.fail(format!("icmpv6:{}:to_payload-wrong", api), format!("{} to_payload() = {:?} for {:?} (input {})", api, pl, k, shex(inp)));
                }
            }
            _ => case.fail(format!("icmpv6:{}:to_payload-presence", api), format!("{} to_payload() = {:?} for {:?} (input {})", api, owned, k, shex(inp))),
        }
    }
    walk
}

/// verdict on one of the three ways to obtain the payload view
fn check_payload_result(case: &mut Case, acc: &mut Acc, api: &'static str, inp: &[u8], k: &K6, r: &Result<Icmpv6PayloadSlice, err::LenError>, scratch: &mut Vec<RefOpt>, walk_options: bool) -> Option<Walk> {
    let (_, fixed, _) = k.payload_kind();
    let plen = inp.len() - 8;
    acc.evals += 1;
    match r {
        Ok(ps) => {
            if plen < fixed {
                case.fail(
                    format!("icmpv6:{}:accepts-short-fixed-part", api),
                    format!("{} accepted a {} payload of {} bytes, RFC 4861 needs {} before the options (input {})", api, k.name(), plen, fixed, shex(inp)),
                );
                return None;
            }
            check_payload(case, acc, api, inp, k, ps, scratch, walk_options)
        }
        Err(e) => {
            if plen >= fixed {
                case.fail(format!("icmpv6:{}:rejects-valid", api), format!("{} returned {:?} for a {} payload of {} bytes (fixed part {}) (input {})", api, e, k.name(), plen, fixed, shex(inp)));
            } else {
                acc.hit("icmpv6:payload-err-fixed-part-too-short");
                // sizes relative to the payload (what the constructor documents) or to the whole message
                let rel_payload = e.required_len == fixed && e.len == plen;
                let rel_message = e.required_len == fixed + 8 && e.len == plen + 8;
                if !(rel_payload || rel_message) || e.len_source != LenSource::Slice || e.layer != err::Layer::Icmpv6 {
                    case.fail(
                        format!("icmpv6:{}:len-error-values", api),
                        format!("{} returned {:?}; expected required_len {} len {} (or both + 8), len_source Slice, layer Icmpv6 (input {})", api, e, fixed, plen, shex(inp)),
                    );
                }
            }
            None
        }
    }
}

/// give one byte string to every ICMPv6 decode entry point; returns the option walk of NDP messages
pub(crate) fn check(case: &mut Case, acc: &mut Acc, inp: &[u8], scratch: &mut Vec<RefOpt>) -> Option<Walk> {
    check_kind(case, acc, inp, scratch).1
}

pub(crate) fn check_kind(case: &mut Case, acc: &mut Acc, inp: &[u8], scratch: &mut Vec<RefOpt>) -> (Option<K6>, Option<Walk>) {
    acc.state(inp);
    let want = reference(inp);
    let mut walk = None;

    case.at("Icmpv6Slice::from_slice");
    acc.evals += 1;
    match (Icmpv6Slice::from_slice(inp), &want) {
        (Err(e), None) => {
            acc.hit("icmpv6:err-too-short");
            len_err(case, "Icmpv6Slice::from_slice", inp, &e, 8, inp.len(), &[LenSource::Slice], &[err::Layer::Icmpv6]);
        }
        (Err(e), Some(k)) => case.fail("icmpv6:Icmpv6Slice::from_slice:rejects-valid", format!("returned {:?} for a {:?} message of {} bytes (input {})", e, k, inp.len(), shex(inp))),
        (Ok(s), None) => case.fail("icmpv6:Icmpv6Slice::from_slice:accepts-invalid", format!("accepted {} bytes: {:?}", inp.len(), s)),
        (Ok(s), Some(k)) => {
            acc.hit(k.name());
            sub(case, "Icmpv6Slice", "slice", inp, s.slice(), (0, inp.len()));
            field(case, "Icmpv6Slice", "type_u8", inp, s.type_u8(), inp[0]);
            field(case, "Icmpv6Slice", "code_u8", inp, s.code_u8(), inp[1]);
            field(case, "Icmpv6Slice", "checksum", inp, s.checksum(), be16(inp, 2));
            field(case, "Icmpv6Slice", "bytes5to8", inp, s.bytes5to8(), [inp[4], inp[5], inp[6], inp[7]]);
            field(case, "Icmpv6Slice", "header_len", inp, s.header_len(), 8);
            case.at("Icmpv6Slice::icmp_type");
            let t = s.icmp_type();
            kind_mismatch(case, "Icmpv6Slice::icmp_type", inp, &observe(&t), k);
            field(case, "Icmpv6Type", "type_u8", inp, t.type_u8(), inp[0]);
            field(case, "Icmpv6Type", "code_u8", inp, t.code_u8(), inp[1]);
            field(case, "Icmpv6Type", "header_len", inp, t.header_len(), 8);
            field(case, "Icmpv6Type", "fixed_payload_size", inp, t.fixed_payload_size(), None);
            case.at("Icmpv6Slice::header");
            let h = s.header();
            kind_mismatch(case, "Icmpv6Slice::header", inp, &observe(&h.icmp_type), k);
            field(case, "Icmpv6Slice::header", "checksum", inp, h.checksum, be16(inp, 2));
            field(case, "Icmpv6Header", "header_len", inp, h.header_len(), 8);
            case.at("Icmpv6Slice::payload");
            let payload = s.payload();
            sub(case, "Icmpv6Slice", "payload", inp, payload, (8, inp.len() - 8));
            acc.evals += 3;

            // the three ways to the typed payload view; the options are walked through the first one,
            // the others must hand out an iterator over the same area (checked through options())
            case.at("Icmpv6Slice::payload_slice");
            let r = s.payload_slice();
            walk = check_payload_result(case, acc, "Icmpv6Slice::payload_slice", inp, k, &r, scratch, true);
            if !case.failed() {
                // hand the crate its own payload slice only if it is the right one
                let payload = &inp[8..];
                case.at("Icmpv6Type::payload_slice");
                let r = t.payload_slice(payload);
                check_payload_result(case, acc, "Icmpv6Type::payload_slice", inp, k, &r, scratch, false);
                case.at("Icmpv6PayloadSlice::from_slice");
                let r = Icmpv6PayloadSlice::from_slice(&t, payload);
                check_payload_result(case, acc, "Icmpv6PayloadSlice::from_slice", inp, k, &r, scratch, false);
            }
        }
    }

    case.at("Icmpv6Header::from_slice");
    acc.evals += 1;
    match (Icmpv6Header::from_slice(inp), &want) {
        (Err(e), None) => len_err(case, "Icmpv6Header::from_slice", inp, &e, 8, inp.len(), &[LenSource::Slice], &[err::Layer::Icmpv6]),
        (Err(e), Some(k)) => case.fail("icmpv6:Icmpv6Header::from_slice:rejects-valid", format!("returned {:?} for a {:?} message of {} bytes (input {})", e, k, inp.len(), shex(inp))),
        (Ok((h, _)), None) => case.fail("icmpv6:Icmpv6Header::from_slice:accepts-invalid", format!("accepted {} bytes: {:?}", inp.len(), h)),
        (Ok((h, rest)), Some(k)) => {
            kind_mismatch(case, "Icmpv6Header::from_slice", inp, &observe(&h.icmp_type), k);
            field(case, "Icmpv6Header::from_slice", "checksum", inp, h.checksum, be16(inp, 2));
            sub(case, "Icmpv6Header::from_slice", "rest", inp, rest, (8, inp.len() - 8));
        }
    }
    (want, walk)
}

pub(crate) fn expect_reach() -> Vec<String> {
    let mut v: Vec<String> = [
        "icmpv6:Unknown",
        "icmpv6:DestinationUnreachable",
        "icmpv6:PacketTooBig",
        "icmpv6:TimeExceeded",
        "icmpv6:ParameterProblem",
        "icmpv6:EchoRequest",
        "icmpv6:EchoReply",
        "icmpv6:RouterSolicitation",
        "icmpv6:RouterAdvertisement",
        "icmpv6:NeighborSolicitation",
        "icmpv6:NeighborAdvertisement",
        "icmpv6:Redirect",
        "icmpv6:Unknown:unassigned-code-of-assigned-type",
        "icmpv6:err-too-short",
        "icmpv6:payload-Raw",
        "icmpv6:payload-DestinationUnreachable",
        "icmpv6:payload-PacketTooBig",
        "icmpv6:payload-TimeExceeded",
        "icmpv6:payload-ParameterProblem",
        "icmpv6:payload-EchoRequest",
        "icmpv6:payload-EchoReply",
        "icmpv6:payload-RouterSolicitation",
        "icmpv6:payload-RouterAdvertisement",
        "icmpv6:payload-NeighborSolicitation",
        "icmpv6:payload-NeighborAdvertisement",
        "icmpv6:payload-Redirect",
        "icmpv6:payload-err-fixed-part-too-short",
    ]
    .iter()
    .map(|s| s.to_string())
    .collect();
    for c in 0..=6 {
        v.push(format!("icmpv6:DestinationUnreachable/{}", c));
    }
    for c in 0..=1 {
        v.push(format!("icmpv6:TimeExceeded/{}", c));
    }
    for c in 0..=10 {
        v.push(format!("icmpv6:ParameterProblem/{}", c));
    }
    v
}

/// unit = one type byte: every code of the tier x bytes 5-8 x total lengths
pub(crate) fn run_unit(tier: Tier, t: u8, ctx: &mut Ctx, arena: &Arena) {
    let first_code = codes(tier)[0];
    for c in codes(tier) {
        ctx.case(
            None,
            || CaseDesc {
                shape: "icmpv6 type/code sweep".into(),
                text: format!("ICMPv6 type {} code {}: bytes = [type, code, checksum a1b2, bytes5to8 in {{00000000, ffffffff, 01020304}}, filler pat(i)=i*37+0x5b] cut/extended to total lengths {:?}", t, c, LENS),
                rank: (t as u64) * 256 + c as u64,
            },
            |case| {
                let mut acc = Acc::new();
                let mut scratch = Vec::with_capacity(8);
                let mut kind: Option<K6> = None;
                'sweep: for (bi, b58) in B58.into_iter().enumerate() {
                    let mut full = [0u8; 48];
                    for (i, x) in full.iter_mut().enumerate() {
                        *x = pat(i);
                    }
                    full[0] = t;
                    full[1] = c;
                    full[2] = 0xa1;
                    full[3] = 0xb2;
                    full[4..8].copy_from_slice(&b58);
                    for len in LENS {
                        // an input shorter than the swept bytes is enumerated once, not once per value of the bytes it does not contain
                        if (len == 0 && !(t == 0 && c == first_code && bi == 0)) || (len == 1 && !(c == first_code && bi == 0)) {
                            continue;
                        }
                        let inp = arena.place_end(&full[..len]);
                        if let (Some(k), _) = check_kind(case, &mut acc, inp, &mut scratch) {
                            kind = Some(k);
                        }
                        if case.failed() {
                            break 'sweep; // the first failing input of a type/code pair is the most telling one
                        }
                    }
                }
                if let Some(k) = &kind {
                    if let Some(code) = k.code() {
                        case.reach(format!("{}/{}", k.name(), code));
                    }
                    if matches!(k, K6::Unknown { .. }) && matches!(t, 1 | 2 | 3 | 4 | 128 | 129 | 133..=137) {
                        case.reach("icmpv6:Unknown:unassigned-code-of-assigned-type");
                    }
                    case.outcome(match k.code() {
                        Some(code) => format!("{}/{}", k.name(), code),
                        None => k.name().to_string(),
                    });
                }
                acc.finish(case);
            },
        );
    }
    // bit-level fields live in bytes 5-8 of the router / neighbour advertisement: every value of each of the four bytes
    if t == 134 || t == 136 {
        let fixed = if t == 134 { 8 } else { 16 };
        ctx.case(
            None,
            || CaseDesc {
                shape: "icmpv6 advertisement flag byte sweep".into(),
                text: format!("ICMPv6 type {} code 0, {} and {} bytes: each of bytes 4..8 = 0..=255 with the other three 00 / ff, bytes from 8 on = pat(i+7)", t, 8 + fixed, 16 + fixed),
                rank: 0,
            },
            |case| {
                let mut acc = Acc::new();
                let mut scratch = Vec::with_capacity(8);
                'sweep: for bg in [0x00u8, 0xff] {
                    for pos in 4..8usize {
                        for v in 0..=255u8 {
                            if case.failed() {
                                break 'sweep;
                            }
                            if v == bg && pos > 4 {
                                continue; // the all-background header is enumerated once (pos 4)
                            }
                            let mut full = [0u8; 40];
                            for (i, x) in full.iter_mut().enumerate() {
                                *x = pat(i + 7);
                            }
                            full[0] = t;
                            full[1] = 0;
                            full[2] = 0xa1;
                            full[3] = 0xb2;
                            full[4..8].copy_from_slice(&[bg; 4]);
                            full[pos] = v;
                            for len in [8 + fixed, 16 + fixed] {
                                check_kind(case, &mut acc, arena.place_end(&full[..len]), &mut scratch);
                            }
                        }
                    }
                }
                case.outcome(format!("icmpv6:flags-sweep:{}", t));
                acc.finish(case);
            },
        );
    }
}
