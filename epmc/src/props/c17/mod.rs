//! C17 — typed control-message views (ICMPv4, ICMPv6 + neighbour discovery, IGMP, ARP) follow
//! their formats.
//!
//! Bounded-exhaustive enumeration of control messages with *complete* selector coverage
//! (every type/code pair, every length unit class, every truncation) against an independent
//! reference decoder written from RFC 792/1122/1191/1812 (ICMPv4), RFC 4443/4861 + the IANA
//! parameter problem codes the crate documents (ICMPv6 / NDP), RFC 2236/3376/9776 (IGMP) and
//! RFC 826 (ARP). The reference lives in the sub-modules (`reference` / `ref_*` functions), uses
//! checked indexing only and never calls into etherparse.
//!
//! Every input is placed flush against a PROT_NONE guard page (`Arena::place_end`), so an
//! over-read of a single byte kills the worker and is reported for exactly that case; every
//! sub-slice handed out by the crate is located with `mem::rel` and compared as `(offset,len)`.
//!
//! Work units (ordered so that the expensive ones are handed out first):
//!   [0, 285)        NDP option areas: message (5) x first token (none + 56)
//!   [285, 293)      NDP typed option slices called directly: one unit per option type
//!   [293, 549)      ICMPv6 type/code sweep: one unit per type byte
//!   [549, 805)      ICMPv4 type/code sweep: one unit per type byte
//!   [805, 1061)     IGMP: one unit per type byte
//!   [1061, 1109)    ARP: hw type (4) x protocol type (3) x operation (4)

use crate::fw::*;
use crate::mem::{self, Arena};
use etherparse::{err, LenSource};

mod arp;
mod icmpv4;
mod icmpv6;
mod igmp;
mod ndp;

pub struct C17;

/// per-case accumulator (the inner loops run millions of evaluations per case, so nothing in
/// here allocates per evaluation)
pub(crate) struct Acc {
    keys: Vec<&'static str>,
    pub states: u64,
    pub evals: u64,
    pub nontrivial: u64,
}

impl Acc {
    pub fn new() -> Acc {
        Acc { keys: Vec::with_capacity(24), states: 0, evals: 0, nontrivial: 0 }
    }
    /// remember a reachability key (static strings only; duplicates are merged)
    #[inline]
    pub fn hit(&mut self, k: &'static str) {
        if !self.keys.iter().any(|x| std::ptr::eq(*x, k) || *x == k) {
            self.keys.push(k);
        }
    }
    /// one input byte string has been examined
    #[inline]
    pub fn state(&mut self, input: &[u8]) {
        self.states += 1;
        if !input.is_empty() {
            self.nontrivial += 1;
        }
    }
    pub fn finish(self, case: &mut Case) {
        case.states(self.states);
        case.evals(self.evals);
        case.nontrivial_n(self.nontrivial);
        for k in self.keys {
            case.reach(k);
        }
    }
}

// ---- helpers shared by the sub-modules --------------------------------------------------------

/// position dependent filler: neighbouring bytes differ, no byte is 0 for small indices
#[inline]
pub(crate) fn pat(i: usize) -> u8 {
    (i as u8).wrapping_mul(37).wrapping_add(0x5b)
}

#[inline]
pub(crate) fn be16(b: &[u8], at: usize) -> u16 {
    u16::from_be_bytes([b[at], b[at + 1]])
}
#[inline]
pub(crate) fn be32(b: &[u8], at: usize) -> u32 {
    u32::from_be_bytes([b[at], b[at + 1], b[at + 2], b[at + 3]])
}

/// hex of an input, shortened for messages
pub(crate) fn shex(b: &[u8]) -> String {
    if b.len() <= 96 {
        hex(b)
    } else {
        format!("{}…({} bytes in total)", hex(&b[..96]), b.len())
    }
}

/// a sub-slice handed out by the crate must lie inside the input at exactly `want`
pub(crate) fn sub(case: &mut Case, api: &'static str, what: &'static str, input: &[u8], s: &[u8], want: (usize, usize)) {
    if s.is_empty() {
        // an empty slice carries no bytes: only its emptiness is observable
        if want.1 != 0 {
            case.fail(
                format!("{}:{}:wrong-range", api, what),
                format!("{} {}: empty, expected (offset {}, len {}) of input {}", api, what, want.0, want.1, shex(input)),
            );
        }
        return;
    }
    match mem::rel(input, s) {
        Err(e) => case.fail(format!("{}:{}:outside-input", api, what), format!("{} {}: {} (input {})", api, what, e, shex(input))),
        Ok(got) => {
            if got != want {
                case.fail(
                    format!("{}:{}:wrong-range", api, what),
                    format!("{} {}: (offset {}, len {}), expected (offset {}, len {}) of input {}", api, what, got.0, got.1, want.0, want.1, shex(input)),
                );
            }
        }
    }
}

/// a scalar field must have the value the reference extracted
pub(crate) fn field<T: PartialEq + std::fmt::Debug>(case: &mut Case, api: &'static str, what: &'static str, input: &[u8], got: T, want: T) {
    if got != want {
        case.fail(format!("{}:{}:wrong-value", api, what), format!("{} {} = {:?}, the bytes say {:?} (input {})", api, what, got, want, shex(input)));
    }
}

/// a `LenError` must carry the real sizes: `required` bytes needed, `len` available
pub(crate) fn len_err(case: &mut Case, api: &'static str, input: &[u8], e: &err::LenError, required: usize, len: usize, sources: &[LenSource], layers: &[err::Layer]) {
    if e.required_len != required || e.len != len || !sources.contains(&e.len_source) || !layers.contains(&e.layer) || e.layer_start_offset != 0 {
        case.fail(
            format!("{}:len-error-values", api),
            format!(
                "{} returned {:?}; expected required_len {} len {} len_source in {:?} layer in {:?} layer_start_offset 0 (input {})",
                api, e, required, len, sources, layers, shex(input)
            ),
        );
    }
}

// ---- unit layout ------------------------------------------------------------------------------

const U_NDP: u64 = 0;
const N_NDP: u64 = (ndp::MESSAGES.len() * (1 + ndp::N_TOKENS)) as u64;
const U_NDP_DIRECT: u64 = U_NDP + N_NDP;
const N_NDP_DIRECT: u64 = ndp::TYPES.len() as u64;
const U_ICMP6: u64 = U_NDP_DIRECT + N_NDP_DIRECT;
const U_ICMP4: u64 = U_ICMP6 + 256;
const U_IGMP: u64 = U_ICMP4 + 256;
const U_ARP: u64 = U_IGMP + 256;
const N_ARP: u64 = (arp::HW.len() * arp::PROTO.len() * arp::OPS.len()) as u64;
const U_END: u64 = U_ARP + N_ARP;

/// codes of the type/code sweep
pub(crate) fn codes(tier: Tier) -> Vec<u8> {
    if tier.is_thorough() {
        (0..=255u8).collect()
    } else {
        let mut v: Vec<u8> = (0..=17u8).collect();
        v.extend([254, 255]);
        v
    }
}
pub(crate) const B58: [[u8; 4]; 3] = [[0, 0, 0, 0], [0xff, 0xff, 0xff, 0xff], [1, 2, 3, 4]];

impl Check for C17 {
    fn quick_is_thorough(&self) -> bool {
        true
    }
    fn id(&self) -> &'static str {
        "C17"
    }
    fn rule(&self, tier: Tier) -> String {
        let th = tier.is_thorough();
        format!(
            "alphabet: (ICMPv4) all 256 types x codes {codes} x bytes 5-8 in {{00000000, ffffffff, 01020304}} x total lengths {l4:?}; \
             (ICMPv6) the same type/code sweep x total lengths {l6:?}; \
             additionally for router / neighbour advertisements (134/136 code 0) every value of each of bytes 5-8 on backgrounds 00/ff (bit flags M, O, R, S, O); \
             (NDP) behind each of RS/RA/NS/NA/Redirect (code 0, fixed parts 0/8/16/16/32 bytes after the 8 byte ICMPv6 header) every option area made of <= {maxtok} option tokens with type in {types:?} x length units in {units:?} (a token occupies max(units,1)*8 bytes), the last token fully present or cut after every byte; \
             additionally every typed option slice constructor (and NdpOptionHeader, PrefixInformation) called directly on every token cut after every byte 0..=len and with 1 / 8 extra bytes, and every value of the prefix length and L|A flag bytes of the prefix information option; \
             (IGMP) all 256 types x slice lengths 0..=20,24,28 x all 256 max-resp-code bytes; for 0x11 at lengths 12/16/20 all 256 values of byte 8 (resv|S|QRV) and of QQIC and source counts {{0,1,255,65535}}; for 0x22 record counts {{0,1,255,65535}} and group record headers with all 256 record types x aux len {{0,1,255}} x source counts {{0,1,255,65535}} x record area lengths 0..=9,12,16; \
             (ARP) hw type {hw:?} x protocol {pr:04x?} x hlen,plen in {al:?}^2 x operation {ops:?} x every truncation of the 8+2h+2p bytes and +1/+5 trailing bytes. \
             oracle: an independent reference decoder (RFC 792/1122/1191/1812, RFC 4443/4861 + IANA parameter problem codes 0-10, RFC 2236/3376/9776, RFC 826) gives message kind, field values (big-endian), fixed/variable split (offset,len), the option sequence whose ranges must tile the option area up to the first rejected option, and the error class with the real type/size values; Unknown/Raw for every unassigned type/code pair; rejection exactly for too short inputs and zero / inconsistent length units; the NDP iterator is driven with next() (and clone-then-next) to exhaustion plus two more calls and must stay empty after an error; the Ethernet/IPv4 view of ARP succeeds iff (hw 1, proto 0x0800, hlen 6, plen 4). \
             every input sits flush against a PROT_NONE guard page; every sub-slice handed out is checked for containment and compared as (offset,len). \
             a state = one input byte string given to all decode entry points of its protocol (evaluations counts the individual calls); truncations that do not contain a swept byte are enumerated once, not once per value of that byte, so the inputs of one protocol are pairwise distinct by construction; non-trivial = the input is not empty.",
            codes = if th { "0..=255".to_string() } else { "{0..=17, 254, 255}".to_string() },
            l4 = icmpv4::LENS,
            l6 = icmpv6::LENS,
            maxtok = ndp::max_tokens(tier),
            types = ndp::TYPES,
            units = ndp::UNITS,
            hw = arp::HW,
            pr = arp::PROTO,
            al = arp::ALENS,
            ops = arp::OPS,
        )
    }
    fn assumptions(&self, _tier: Tier) -> Vec<String> {
        vec![
            "the reference decoder transcribes the message layouts and code tables of RFC 792/1122/1191/1812, 4443/4861 (+ IANA ICMPv6 parameter problem codes 0-10 as documented by the crate), 2236/3376/9776 and 826".into(),
            "where the crate documents a deliberate choice the documentation is followed: ICMPv4 timestamp messages (type 13/14 code 0) must be exactly 20 bytes; IGMP queries of 9-11 bytes are rejected with a length error; the ARP slice excludes bytes behind the addresses".into(),
            "error classes are compared on the values they carry (real sizes, real option type); where two variants describe the same condition (e.g. UnexpectedSize vs UnexpectedEndOfSlice for a cut option, or which mismatching field the ARP view names) either is accepted".into(),
            "Icmpv6Slice::is_checksum_valid, as_lax_ip_slice of quoted packets and all encoders are out of scope of this property".into(),
        ]
    }
    fn units(&self, _tier: Tier) -> u64 {
        U_END
    }
    fn watchdog_s(&self, tier: Tier) -> u64 {
        if tier.is_thorough() {
            180
        } else {
            60
        }
    }
    fn expect_reach(&self, _tier: Tier) -> Vec<String> {
        let mut v: Vec<String> = vec![];
        v.extend(icmpv4::expect_reach());
        v.extend(icmpv6::expect_reach());
        v.extend(ndp::REACH.iter().map(|s| s.to_string()));
        v.extend(igmp::REACH.iter().map(|s| s.to_string()));
        v.extend(arp::REACH.iter().map(|s| s.to_string()));
        v
    }
    fn coverage_extra(&self, tier: Tier) -> Vec<(String, String)> {
        vec![
            ("icmp_type_code_pairs".into(), format!("{} per protocol", 256 * codes(tier).len())),
            ("ndp_max_option_tokens".into(), ndp::max_tokens(tier).to_string()),
            ("ndp_token_alphabet".into(), format!("{} types x {} length units", ndp::TYPES.len(), ndp::UNITS.len())),
            ("units_layout".into(), format!("ndp {}..{} ndp-direct {}..{} icmpv6 {}..{} icmpv4 {}..{} igmp {}..{} arp {}..{}", U_NDP, U_NDP_DIRECT, U_NDP_DIRECT, U_ICMP6, U_ICMP6, U_ICMP4, U_ICMP4, U_IGMP, U_IGMP, U_ARP, U_ARP, U_END)),
        ]
    }
    fn run_unit(&self, tier: Tier, u: u64, ctx: &mut Ctx) {
        let arena = Arena::new(4);
        if u < U_NDP_DIRECT {
            ndp::run_unit(tier, u - U_NDP, ctx, &arena);
        } else if u < U_ICMP6 {
            ndp::run_direct_unit(tier, u - U_NDP_DIRECT, ctx, &arena);
        } else if u < U_ICMP4 {
            icmpv6::run_unit(tier, (u - U_ICMP6) as u8, ctx, &arena);
        } else if u < U_IGMP {
            icmpv4::run_unit(tier, (u - U_ICMP4) as u8, ctx, &arena);
        } else if u < U_ARP {
            igmp::run_unit(tier, (u - U_IGMP) as u8, ctx, &arena);
        } else if u < U_END {
            arp::run_unit(tier, u - U_ARP, ctx, &arena);
        }
    }
}
