//! IGMP: reference decoder (RFC 1112 appendix I, RFC 2236 §2, RFC 3376/9776 §4 and §7.1) and the
//! observation of `IgmpHeader::from_slice`, `ReportGroupRecordV3Header::from_slice`,
//! `MaxResponseCode` and the byte-8 getters of the IGMPv3 query.

use super::*;
use etherparse::igmp::{MaxResponseCode, ReportGroupRecordV3Header};
use etherparse::{IgmpHeader, IgmpType};

pub(crate) const REACH: &[&str] = &[
    "igmp:v1v2-query",
    "igmp:v1-query(max-resp-0)",
    "igmp:v3-query",
    "igmp:err-len-9-11",
    "igmp:err-too-short",
    "igmp:report-v1",
    "igmp:report-v2",
    "igmp:report-v3",
    "igmp:leave",
    "igmp:unknown",
    "igmp:mrc-linear",
    "igmp:mrc-float",
    "igmp:group-record",
    "igmp:group-record-err-too-short",
    "igmp:v3-query-with-source-bytes",
];

#[derive(Debug, Clone, PartialEq, Eq)]
pub(crate) enum KI {
    /// IGMPv1 / IGMPv2 query: exactly 8 bytes
    Query { max_resp_time: u8, group: [u8; 4] },
    /// IGMPv3 query: at least 12 bytes
    QueryV3 { max_resp_code: u8, group: [u8; 4], byte8: u8, qqic: u8, num_sources: u16 },
    ReportV1 { group: [u8; 4] },
    ReportV2 { group: [u8; 4] },
    Leave { group: [u8; 4] },
    ReportV3 { flags: [u8; 2], num_records: u16 },
    Unknown { t: u8, b1: u8, b47: [u8; 4] },
}

impl KI {
    fn key(&self) -> &'static str {
        match self {
            KI::Query { .. } => "igmp:v1v2-query",
            KI::QueryV3 { .. } => "igmp:v3-query",
            KI::ReportV1 { .. } => "igmp:report-v1",
            KI::ReportV2 { .. } => "igmp:report-v2",
            KI::Leave { .. } => "igmp:leave",
            KI::ReportV3 { .. } => "igmp:report-v3",
            KI::Unknown { .. } => "igmp:unknown",
        }
    }
}

/// reference: Ok((kind, header length)) or Err(required length)
pub(crate) fn reference(b: &[u8]) -> Result<(KI, usize), usize> {
    if b.len() < 8 {
        return Err(8);
    }
    let g = [b[4], b[5], b[6], b[7]];
    Ok(match b[0] {
        // RFC 3376 / 9776 §7.1: 8 octets => v1 (max resp 0) / v2 query, >= 12 octets => v3 query, anything else is not a query
        0x11 => {
            if b.len() == 8 {
                (KI::Query { max_resp_time: b[1], group: g }, 8)
            } else if b.len() >= 12 {
                // §4.1: resv(4)|S|QRV(3), QQIC, number of sources
                (KI::QueryV3 { max_resp_code: b[1], group: g, byte8: b[8], qqic: b[9], num_sources: be16(b, 10) }, 12)
            } else {
                return Err(12);
            }
        }
        0x12 => (KI::ReportV1 { group: g }, 8),
        0x16 => (KI::ReportV2 { group: g }, 8),
        0x17 => (KI::Leave { group: g }, 8),
        // §4.2: reserved, checksum, reserved/flags (2), number of group records (2)
        0x22 => (KI::ReportV3 { flags: [b[4], b[5]], num_records: be16(b, 6) }, 8),
        t => (KI::Unknown { t, b1: b[1], b47: g }, 8),
    })
}

fn observe(t: &IgmpType) -> KI {
    match t {
        IgmpType::MembershipQuery(q) => KI::Query { max_resp_time: q.max_response_time, group: q.group_address.octets },
        IgmpType::MembershipQueryWithSources(q) => KI::QueryV3 { max_resp_code: q.max_response_code.0, group: q.group_address.octets, byte8: q.raw_byte_8, qqic: q.qqic, num_sources: q.num_of_sources },
        IgmpType::MembershipReportV1(r) => KI::ReportV1 { group: r.group_address.octets },
        IgmpType::MembershipReportV2(r) => KI::ReportV2 { group: r.group_address.octets },
        IgmpType::MembershipReportV3(r) => KI::ReportV3 { flags: r.flags, num_records: r.num_of_records },
        IgmpType::LeaveGroup(l) => KI::Leave { group: l.group_address.octets },
        IgmpType::Unknown(u) => KI::Unknown { t: u.igmp_type, b1: u.raw_byte_1, b47: u.raw_bytes_4_7 },
    }
}

/// RFC 3376 §4.1.1: < 128 linear, else (mant | 0x10) << (exp + 3)
fn ref_max_resp_time(code: u8) -> u32 {
    if code < 128 {
        code as u32
    } else {
        let mant = (code & 0x0f) as u32;
        let exp = ((code >> 4) & 0x07) as u32;
        (mant | 0x10) << (exp + 3)
    }
}

/// one byte string through `IgmpHeader::from_slice`; returns the rest handed out on success
pub(crate) fn check<'a>(case: &mut Case, acc: &mut Acc, inp: &'a [u8]) -> Option<&'a [u8]> {
    acc.state(inp);
    let want = reference(inp);
    case.at("IgmpHeader::from_slice");
    acc.evals += 1;
    match (IgmpHeader::from_slice(inp), &want) {
        (Err(e), Err(req)) => {
            acc.hit(if *req == 8 { "igmp:err-too-short" } else { "igmp:err-len-9-11" });
            len_err(case, "IgmpHeader::from_slice", inp, &e, *req, inp.len(), &[LenSource::Slice], &[err::Layer::Igmp]);
            None
        }
        (Err(e), Ok((k, _))) => {
            case.fail("igmp:IgmpHeader::from_slice:rejects-valid", format!("returned {:?} for a {:?} message of {} bytes (input {})", e, k, inp.len(), shex(inp)));
            None
        }
        (Ok((h, _)), Err(req)) => {
            let clause = if *req == 12 { "accepts-query-of-9-to-11-bytes" } else { "accepts-too-short" };
            case.fail(format!("igmp:IgmpHeader::from_slice:{}", clause), format!("accepted {} bytes (RFC 9776 §7.1 / 8 byte minimum): {:?} (input {})", inp.len(), h, shex(inp)));
            None
        }
        (Ok((h, rest)), Ok((k, hl))) => {
            acc.hit(k.key());
            let got = observe(&h.igmp_type);
            if got != *k {
                let clause = if std::mem::discriminant(&got) != std::mem::discriminant(k) {
                    if matches!(k, KI::Unknown { .. }) {
                        "unassigned-type-not-unknown"
                    } else if matches!(got, KI::Unknown { .. }) {
                        "assigned-type-decoded-as-unknown"
                    } else {
                        "wrong-message-kind"
                    }
                } else {
                    "wrong-field-values"
                };
                case.fail(format!("igmp:IgmpHeader::from_slice:{}", clause), format!("decoded {:?}, RFC 2236/3376/9776 say {:?} for {} bytes (input {})", got, k, inp.len(), shex(inp)));
            }
            field(case, "IgmpHeader::from_slice", "checksum", inp, h.checksum, be16(inp, 2));
            field(case, "IgmpHeader", "header_len", inp, h.header_len(), *hl);
            sub(case, "IgmpHeader::from_slice", "rest", inp, rest, (*hl, inp.len() - *hl));
            if let IgmpType::MembershipQueryWithSources(q) = &h.igmp_type {
                let code = inp[1];
                acc.hit(if code < 128 { "igmp:mrc-linear" } else { "igmp:mrc-float" });
                field(case, "MaxResponseCode", "as_10th_secs", inp, q.max_response_code.as_10th_secs() as u32, ref_max_resp_time(code));
                field(case, "MaxResponseCode(byte 1)", "as_10th_secs", inp, MaxResponseCode(code).as_10th_secs() as u32, ref_max_resp_time(code));
                if inp.len() > 8 {
                    field(case, "MembershipQueryWithSourcesHeader", "flags", inp, q.flags(), inp[8] >> 4);
                    field(case, "MembershipQueryWithSourcesHeader", "s_flag", inp, q.s_flag(), inp[8] & 0x08 != 0);
                    field(case, "MembershipQueryWithSourcesHeader", "qrv", inp, q.qrv().value(), inp[8] & 0x07);
                }
                if inp.len() > 12 {
                    acc.hit("igmp:v3-query-with-source-bytes");
                }
                acc.evals += 4;
            }
            if let KI::Query { max_resp_time: 0, .. } = k {
                acc.hit("igmp:v1-query(max-resp-0)");
            }
            Some(rest)
        }
    }
}

/// `rec` = a sub-slice of `inp` at offset `off` that is given to the group record decoder
fn check_record(case: &mut Case, acc: &mut Acc, inp: &[u8], off: usize, rec: &[u8]) {
    case.at("ReportGroupRecordV3Header::from_slice");
    acc.evals += 1;
    match ReportGroupRecordV3Header::from_slice(rec) {
        Err(e) => {
            if rec.len() >= 8 {
                case.fail("igmp:ReportGroupRecordV3Header::from_slice:rejects-valid", format!("returned {:?} for a record area of {} bytes (input {})", e, rec.len(), shex(inp)));
            } else {
                acc.hit("igmp:group-record-err-too-short");
                len_err(case, "ReportGroupRecordV3Header::from_slice", inp, &e, 8, rec.len(), &[LenSource::Slice], &[err::Layer::Igmp]);
            }
        }
        Ok((h, rest)) => {
            if rec.len() < 8 {
                case.fail("igmp:ReportGroupRecordV3Header::from_slice:accepts-too-short", format!("accepted a record area of {} bytes: {:?} (input {})", rec.len(), h, shex(inp)));
                return;
            }
            acc.hit("igmp:group-record");
            // RFC 3376 §4.2: record type, aux data len, number of sources, multicast address | sources, aux data
            field(case, "ReportGroupRecordV3Header", "record_type", inp, h.record_type.0, rec[0]);
            field(case, "ReportGroupRecordV3Header", "aux_data_len", inp, h.aux_data_len, rec[1]);
            field(case, "ReportGroupRecordV3Header", "num_of_sources", inp, h.num_of_sources, be16(rec, 2));
            field(case, "ReportGroupRecordV3Header", "multicast_address", inp, h.multicast_address, [rec[4], rec[5], rec[6], rec[7]]);
            sub(case, "ReportGroupRecordV3Header::from_slice", "rest", inp, rest, (off + 8, rec.len() - 8));
        }
    }
}

const LENS: [usize; 23] = [0, 1, 2, 3, 4, 5, 6, 7, 8, 9, 10, 11, 12, 13, 14, 15, 16, 17, 18, 19, 20, 24, 28];
const COUNTS: [u16; 4] = [0, 1, 255, 65535];

fn base(t: u8) -> [u8; 28] {
    let mut b = [0u8; 28];
    for (i, x) in b.iter_mut().enumerate() {
        *x = pat(i);
    }
    b[0] = t;
    b[2] = 0xa1;
    b[3] = 0xb2;
    b
}

/// unit = one type byte
pub(crate) fn run_unit(_tier: Tier, t: u8, ctx: &mut Ctx, arena: &Arena) {
    for len in LENS {
        if len == 0 && t != 0 {
            continue; // the empty input is enumerated once (unit of type 0)
        }
        ctx.case(
            None,
            || CaseDesc {
                shape: "igmp type x length x max-resp-code sweep".into(),
                text: format!("IGMP type {:#04x}, {} bytes = [type, max-resp-code 0..=255, checksum a1b2, filler pat(i)=i*37+0x5b]", t, len),
                rank: (len as u64) * 256 + t as u64,
            },
            |case| {
                let mut acc = Acc::new();
                let mut b = base(t);
                for code in 0..=255u8 {
                    // inputs that do not contain the swept byte are enumerated once
                    if (len == 0 && !(t == 0 && code == 0)) || (len == 1 && code != 0) {
                        continue;
                    }
                    b[1] = code;
                    let inp = arena.place_end(&b[..len]);
                    check(case, &mut acc, inp);
                    if case.failed() {
                        break;
                    }
                }
                case.outcome(match reference(&b[..len]) {
                    Ok((k, _)) => k.key().to_string(),
                    Err(r) => format!("igmp:err-required-{}", r),
                });
                acc.finish(case);
            },
        );
    }
    if t == 0x11 {
        // IGMPv3 query: byte 8 (resv|S|QRV), QQIC, number of sources
        for len in [12usize, 16, 20] {
            ctx.case(
                None,
                || CaseDesc {
                    shape: "igmpv3 query byte 8 / QQIC / source count sweep".into(),
                    text: format!("IGMPv3 query of {} bytes: byte 8 = 0..=255 (others filler), QQIC = 0..=255, number of sources in {:?}, each against max-resp-code 0x00/0x7f/0x80/0xff", len, COUNTS),
                    rank: len as u64,
                },
                |case| {
                    let mut acc = Acc::new();
                    for code in [0x00u8, 0x7f, 0x80, 0xff] {
                        // group address 224.x so that these inputs differ from the ones of the type sweep
                        let mut b = base(t);
                        b[1] = code;
                        b[4] = 224;
                        for v in 0..=255u8 {
                            b[8] = v;
                            check(case, &mut acc, arena.place_end(&b[..len]));
                            if case.failed() {
                                break;
                            }
                        }
                        let mut b = base(t);
                        b[1] = code;
                        b[4] = 224;
                        for v in 0..=255u8 {
                            if v == pat(9) {
                                continue; // that input was part of the byte 8 sweep
                            }
                            b[9] = v;
                            check(case, &mut acc, arena.place_end(&b[..len]));
                        }
                        let mut b = base(t);
                        b[1] = code;
                        b[4] = 224;
                        for n in COUNTS {
                            b[10..12].copy_from_slice(&n.to_be_bytes());
                            check(case, &mut acc, arena.place_end(&b[..len]));
                        }
                        if case.failed() {
                            break;
                        }
                    }
                    case.outcome("igmp:v3-query:byte8-qqic-sources");
                    acc.finish(case);
                },
            );
        }
    }
    if t == 0x22 {
        // IGMPv3 report: record count and the header of the first group record in what follows
        for area in [0usize, 1, 2, 3, 4, 5, 6, 7, 8, 9, 12, 16] {
            ctx.case(
                None,
                || CaseDesc {
                    shape: "igmpv3 report group record sweep".into(),
                    text: format!("IGMPv3 report (8 bytes, record count in {:?}) + record area of {} bytes: record type 0..=255 x aux data len {{0,1,255}} x number of sources {:?}", COUNTS, area, COUNTS),
                    rank: area as u64,
                },
                |case| {
                    let mut acc = Acc::new();
                    'outer: for nrec in COUNTS {
                        for rt in 0..=255u8 {
                            for aux in [0u8, 1, 255] {
                                for nsrc in COUNTS {
                                    // record areas that do not contain a swept byte are enumerated once
                                    let dup = match area {
                                        0 => rt != 0 || aux != 0 || nsrc != 0,
                                        1 => aux != 0 || nsrc != 0,
                                        2 => nsrc != 0,
                                        3 => nsrc != 0 && nsrc != 65535,
                                        _ => false,
                                    };
                                    if dup {
                                        continue;
                                    }
                                    let mut b = base(t);
                                    b[6..8].copy_from_slice(&nrec.to_be_bytes());
                                    b[8] = rt;
                                    b[9] = aux;
                                    b[10..12].copy_from_slice(&nsrc.to_be_bytes());
                                    let inp = arena.place_end(&b[..8 + area]);
                                    if let Some(rest) = check(case, &mut acc, inp) {
                                        if rest.len() == area && mem::rel(inp, rest).is_ok() {
                                            check_record(case, &mut acc, inp, 8, rest);
                                        }
                                    }
                                    if case.failed() {
                                        break 'outer;
                                    }
                                }
                            }
                        }
                    }
                    case.outcome(if area >= 8 { "igmp:report-v3:group-record" } else { "igmp:report-v3:group-record-too-short" });
                    acc.finish(case);
                },
            );
        }
    }
}
