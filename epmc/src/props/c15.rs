//! C15 — bit-field types hold only in-range values and never bleed into neighbours.
//!
//! Complete value domains of every checked constructor, every value of the bytes that hold a
//! bit field on the decode side, every in-range field value against all-min / all-max
//! neighbours on the encode side. Oracle: plain bit arithmetic on big-endian bit positions
//! taken from the RFC / IEEE header diagrams (see `FIELDS` below).

use crate::fw::*;
use etherparse::*;

pub struct C15;

// ---- reference bit helpers (bit 0 = most significant bit of byte 0) ----------------------

fn get_bits(b: &[u8], start: usize, bits: usize) -> u64 {
    let mut v = 0u64;
    for i in start..start + bits {
        v = (v << 1) | ((b[i / 8] >> (7 - (i % 8))) & 1) as u64;
    }
    v
}
fn set_bits(b: &mut [u8], start: usize, bits: usize, v: u64) {
    for k in 0..bits {
        let i = start + k;
        let bit = ((v >> (bits - 1 - k)) & 1) as u8;
        let m = 1u8 << (7 - (i % 8));
        if bit == 1 {
            b[i / 8] |= m;
        } else {
            b[i / 8] &= !m;
        }
    }
}

/// one checked constructor: (name, bits, try_new-like closure returning Ok(value())/Err((actual,max)))
struct Ctor {
    name: &'static str,
    bits: u32,
    domain_bits: u32,
    f: fn(u64) -> [Result<u64, (u64, u64)>; 2],
}

fn r16<T>(r: Result<T, err::ValueTooBigError<u16>>, v: fn(T) -> u16) -> Result<u64, (u64, u64)> {
    r.map(|x| v(x) as u64).map_err(|e| (e.actual as u64, e.max_allowed as u64))
}
fn r8<T>(r: Result<T, err::ValueTooBigError<u8>>, v: fn(T) -> u8) -> Result<u64, (u64, u64)> {
    r.map(|x| v(x) as u64).map_err(|e| (e.actual as u64, e.max_allowed as u64))
}
fn r32<T>(r: Result<T, err::ValueTooBigError<u32>>, v: fn(T) -> u32) -> Result<u64, (u64, u64)> {
    r.map(|x| v(x) as u64).map_err(|e| (e.actual as u64, e.max_allowed as u64))
}

const CTORS: &[Ctor] = &[
    Ctor { name: "VlanId", bits: 12, domain_bits: 16, f: |x| [r16(VlanId::try_new(x as u16), |v| v.value()), r16(VlanId::try_from(x as u16), |v| v.value())] },
    Ctor { name: "IpFragOffset", bits: 13, domain_bits: 16, f: |x| [r16(IpFragOffset::try_new(x as u16), |v| v.value()), r16(IpFragOffset::try_from(x as u16), |v| v.value())] },
    Ctor { name: "VlanPcp", bits: 3, domain_bits: 8, f: |x| [r8(VlanPcp::try_new(x as u8), |v| v.value()), r8(VlanPcp::try_from(x as u8), |v| v.value())] },
    Ctor { name: "IpDscp", bits: 6, domain_bits: 8, f: |x| [r8(IpDscp::try_new(x as u8), |v| v.value()), r8(IpDscp::try_from(x as u8), |v| v.value())] },
    Ctor { name: "IpEcn", bits: 2, domain_bits: 8, f: |x| [r8(IpEcn::try_new(x as u8), |v| v.value()), r8(IpEcn::try_from(x as u8), |v| v.value())] },
    Ctor { name: "MacsecAn", bits: 2, domain_bits: 8, f: |x| [r8(MacsecAn::try_new(x as u8), |v| v.value()), r8(MacsecAn::try_from(x as u8), |v| v.value())] },
    Ctor { name: "MacsecShortLen", bits: 6, domain_bits: 8, f: |x| [r8(MacsecShortLen::try_from_u8(x as u8), |v| v.value()), r8(MacsecShortLen::try_from(x as u8), |v| v.value())] },
    Ctor { name: "Qrv", bits: 3, domain_bits: 8, f: |x| [r8(igmp::Qrv::try_new(x as u8), |v| v.value()), r8(igmp::Qrv::try_from(x as u8), |v| v.value())] },
    Ctor { name: "Ipv6FlowLabel", bits: 20, domain_bits: 32, f: |x| [r32(Ipv6FlowLabel::try_new(x as u32), |v| v.value()), r32(Ipv6FlowLabel::try_from(x as u32), |v| v.value())] },
];

fn check_ctor(c: &Ctor, x: u64, case: &mut Case) {
    let max = (1u64 << c.bits) - 1;
    let rs = (c.f)(x);
    for (k, r) in rs.iter().enumerate() {
        let api = if k == 0 { "try_new" } else { "try_from" };
        match r {
            Ok(v) => {
                if x > max {
                    case.fail(format!("ctor-accepts-out-of-range:{}:{}", c.name, api), format!("{}::{}({}) returned Ok({}) but only {} bits fit", c.name, api, x, v, c.bits));
                } else if *v != x {
                    case.fail(format!("ctor-value-changed:{}:{}", c.name, api), format!("{}::{}({}).value() == {}", c.name, api, x, v));
                }
            }
            Err((actual, m)) => {
                if x <= max {
                    case.fail(format!("ctor-rejects-in-range:{}:{}", c.name, api), format!("{}::{}({}) returned Err although it fits {} bits", c.name, api, x, c.bits));
                } else if *actual != x || *m != max {
                    case.fail(format!("ctor-error-fields:{}:{}", c.name, api), format!("{}::{}({}) returned Err{{actual:{}, max_allowed:{}}}, expected actual {} max {}", c.name, api, x, actual, m, x, max));
                }
            }
        }
    }
}

// ---- header descriptions -------------------------------------------------------------------

/// a header type with bit fields: how to build it from field values, encode it and decode it.
struct Hdr {
    name: &'static str,
    len: usize,
    /// (field name, start bit, bits)
    fields: &'static [(&'static str, usize, usize)],
    /// bits that are constant / not controlled by a field: (start, bits, value)
    fixed: &'static [(usize, usize, u64)],
    /// bits that decode ignores and encode zeroes (reserved)
    /// encode field values -> bytes with the crate
    enc: fn(&[u64]) -> Vec<u8>,
    /// decode bytes -> field values with the crate (all decoders that exist); Err = rejected
    dec: fn(&[u8]) -> Vec<(&'static str, Result<Vec<u64>, String>)>,
}

fn b(v: u64) -> bool {
    v != 0
}

fn vlan_enc(f: &[u64]) -> Vec<u8> {
    SingleVlanHeader {
        pcp: VlanPcp::try_new(f[0] as u8).unwrap(),
        drop_eligible_indicator: b(f[1]),
        vlan_id: VlanId::try_new(f[2] as u16).unwrap(),
        ether_type: EtherType(f[3] as u16),
    }
    .to_bytes()
    .to_vec()
}
fn vlan_fields(h: &SingleVlanHeader) -> Vec<u64> {
    vec![h.pcp.value() as u64, h.drop_eligible_indicator as u64, h.vlan_id.value() as u64, h.ether_type.0 as u64]
}
fn vlan_dec(x: &[u8]) -> Vec<(&'static str, Result<Vec<u64>, String>)> {
    let mut out = vec![];
    out.push(("SingleVlanHeader::from_bytes", Ok(vlan_fields(&SingleVlanHeader::from_bytes([x[0], x[1], x[2], x[3]])))));
    out.push(("SingleVlanHeader::from_slice", SingleVlanHeader::from_slice(x).map(|(h, _)| vlan_fields(&h)).map_err(|e| format!("{:?}", e))));
    out.push(("SingleVlanHeader::read", SingleVlanHeader::read(&mut std::io::Cursor::new(x)).map(|h| vlan_fields(&h)).map_err(|e| format!("{:?}", e))));
    out.push((
        "SingleVlanHeaderSlice",
        SingleVlanHeaderSlice::from_slice(x)
            .map(|s| vec![s.priority_code_point().value() as u64, s.drop_eligible_indicator() as u64, s.vlan_identifier().value() as u64, s.ether_type().0 as u64])
            .map_err(|e| format!("{:?}", e)),
    ));
    out.push((
        "SingleVlanSlice",
        SingleVlanSlice::from_slice(x)
            .map(|s| vec![s.priority_code_point().value() as u64, s.drop_eligible_indicator() as u64, s.vlan_identifier().value() as u64, s.ether_type().0 as u64])
            .map_err(|e| format!("{:?}", e)),
    ));
    out
}

// IPv4: version ihl | dscp ecn | total_len | id | res DF MF frag | ttl proto | csum | src | dst
fn ipv4_enc(f: &[u64]) -> Vec<u8> {
    let h = Ipv4Header {
        dscp: IpDscp::try_new(f[0] as u8).unwrap(),
        ecn: IpEcn::try_new(f[1] as u8).unwrap(),
        total_len: f[2] as u16,
        identification: f[3] as u16,
        dont_fragment: b(f[4]),
        more_fragments: b(f[5]),
        fragment_offset: IpFragOffset::try_new(f[6] as u16).unwrap(),
        time_to_live: f[7] as u8,
        protocol: IpNumber(f[8] as u8),
        header_checksum: f[9] as u16,
        source: (f[10] as u32).to_be_bytes(),
        destination: (f[11] as u32).to_be_bytes(),
        options: Default::default(),
    };
    h.to_bytes().to_vec()
}
fn ipv4_fields(h: &Ipv4Header) -> Vec<u64> {
    vec![
        h.dscp.value() as u64,
        h.ecn.value() as u64,
        h.total_len as u64,
        h.identification as u64,
        h.dont_fragment as u64,
        h.more_fragments as u64,
        h.fragment_offset.value() as u64,
        h.time_to_live as u64,
        h.protocol.0 as u64,
        h.header_checksum as u64,
        u32::from_be_bytes(h.source) as u64,
        u32::from_be_bytes(h.destination) as u64,
    ]
}
fn ipv4_dec(x: &[u8]) -> Vec<(&'static str, Result<Vec<u64>, String>)> {
    vec![
        ("Ipv4Header::from_slice", Ipv4Header::from_slice(x).map(|(h, _)| ipv4_fields(&h)).map_err(|e| format!("{:?}", e))),
        ("Ipv4Header::read", Ipv4Header::read(&mut std::io::Cursor::new(x)).map(|h| ipv4_fields(&h)).map_err(|e| format!("{:?}", e))),
        (
            "Ipv4HeaderSlice",
            Ipv4HeaderSlice::from_slice(x)
                .map(|s| {
                    vec![
                        s.dcp().value() as u64,
                        s.ecn().value() as u64,
                        s.total_len() as u64,
                        s.identification() as u64,
                        s.dont_fragment() as u64,
                        s.more_fragments() as u64,
                        s.fragments_offset().value() as u64,
                        s.ttl() as u64,
                        s.protocol().0 as u64,
                        s.header_checksum() as u64,
                        u32::from_be_bytes(s.source()) as u64,
                        u32::from_be_bytes(s.destination()) as u64,
                    ]
                })
                .map_err(|e| format!("{:?}", e)),
        ),
    ]
}

fn ipv6_enc(f: &[u64]) -> Vec<u8> {
    let mut src = [0u8; 16];
    let mut dst = [0u8; 16];
    src[..8].copy_from_slice(&f[5].to_be_bytes());
    src[8..].copy_from_slice(&f[6].to_be_bytes());
    dst[..8].copy_from_slice(&f[7].to_be_bytes());
    dst[8..].copy_from_slice(&f[8].to_be_bytes());
    Ipv6Header {
        traffic_class: f[0] as u8,
        flow_label: Ipv6FlowLabel::try_new(f[1] as u32).unwrap(),
        payload_length: f[2] as u16,
        next_header: IpNumber(f[3] as u8),
        hop_limit: f[4] as u8,
        source: src,
        destination: dst,
    }
    .to_bytes()
    .to_vec()
}
fn ipv6_dec(x: &[u8]) -> Vec<(&'static str, Result<Vec<u64>, String>)> {
    vec![
        (
            "Ipv6Header::read",
            Ipv6Header::read(&mut std::io::Cursor::new(x))
                .map(|h| {
                    let a = |x: &[u8]| u64::from_be_bytes(x.try_into().unwrap());
                    vec![h.traffic_class as u64, h.flow_label.value() as u64, h.payload_length as u64, h.next_header.0 as u64, h.hop_limit as u64, a(&h.source[..8]), a(&h.source[8..]), a(&h.destination[..8]), a(&h.destination[8..])]
                })
                .map_err(|e| format!("{:?}", e)),
        ),
        (
            "Ipv6Header::from_slice",
            Ipv6Header::from_slice(x)
                .map(|(h, _)| {
                    let a = |x: &[u8]| u64::from_be_bytes(x.try_into().unwrap());
                    vec![h.traffic_class as u64, h.flow_label.value() as u64, h.payload_length as u64, h.next_header.0 as u64, h.hop_limit as u64, a(&h.source[..8]), a(&h.source[8..]), a(&h.destination[..8]), a(&h.destination[8..])]
                })
                .map_err(|e| format!("{:?}", e)),
        ),
        (
            "Ipv6HeaderSlice",
            Ipv6HeaderSlice::from_slice(x)
                .map(|s| {
                    // dscp/ecn accessors must be the upper 6 / lower 2 bits of the traffic class
                    let tc = s.traffic_class() as u64;
                    let tc2 = ((s.dscp().value() as u64) << 2) | s.ecn().value() as u64;
                    let a = |x: &[u8]| u64::from_be_bytes(x.try_into().unwrap());
                    let (sa, da) = (s.source(), s.destination());
                    vec![if tc == tc2 { tc } else { 0xdead_0000 | tc2 }, s.flow_label().value() as u64, s.payload_length() as u64, s.next_header().0 as u64, s.hop_limit() as u64, a(&sa[..8]), a(&sa[8..]), a(&da[..8]), a(&da[8..])]
                })
                .map_err(|e| format!("{:?}", e)),
        ),
    ]
}

fn frag_enc(f: &[u64]) -> Vec<u8> {
    Ipv6FragmentHeader::new(IpNumber(f[0] as u8), IpFragOffset::try_new(f[1] as u16).unwrap(), b(f[2]), f[3] as u32).to_bytes().to_vec()
}
fn frag_dec(x: &[u8]) -> Vec<(&'static str, Result<Vec<u64>, String>)> {
    vec![
        (
            "Ipv6FragmentHeader::read",
            Ipv6FragmentHeader::read(&mut std::io::Cursor::new(x))
                .map(|h| vec![h.next_header.0 as u64, h.fragment_offset.value() as u64, h.more_fragments as u64, h.identification as u64])
                .map_err(|e| format!("{:?}", e)),
        ),
        (
            "Ipv6FragmentHeader::from_slice",
            Ipv6FragmentHeader::from_slice(x)
                .map(|(h, _)| vec![h.next_header.0 as u64, h.fragment_offset.value() as u64, h.more_fragments as u64, h.identification as u64])
                .map_err(|e| format!("{:?}", e)),
        ),
        (
            "Ipv6FragmentHeaderSlice",
            Ipv6FragmentHeaderSlice::from_slice(x)
                .map(|s| vec![s.next_header().0 as u64, s.fragment_offset().value() as u64, s.more_fragments() as u64, s.identification() as u64])
                .map_err(|e| format!("{:?}", e)),
        ),
    ]
}

// MACsec SecTAG without SCI and with a modified payload (6 bytes):
// v es sc scb e c an an | 0 0 sl(6) | pn(32)
// fields: es, scb, e, c, an, short_len, packet_nr       (sc fixed 0, v fixed 0)
fn macsec_ptype(e: u64, c: u64) -> Option<MacsecPType> {
    match (b(e), b(c)) {
        (false, true) => Some(MacsecPType::Modified),
        (true, true) => Some(MacsecPType::Encrypted),
        (true, false) => Some(MacsecPType::EncryptedUnmodified),
        (false, false) => None, // carries an ether type: own header layout, see MACSEC_U
    }
}
fn macsec_enc(f: &[u64]) -> Vec<u8> {
    MacsecHeader {
        ptype: macsec_ptype(f[2], f[3]).unwrap_or(MacsecPType::Modified),
        endstation_id: b(f[0]),
        scb: b(f[1]),
        an: MacsecAn::try_new(f[4] as u8).unwrap(),
        short_len: MacsecShortLen::try_from_u8(f[5] as u8).unwrap(),
        packet_nr: f[6] as u32,
        sci: None,
    }
    .to_bytes()
    .to_vec()
}
fn macsec_dec(x: &[u8]) -> Vec<(&'static str, Result<Vec<u64>, String>)> {
    let conv = |h: MacsecHeader| -> Vec<u64> {
        let (e, c) = match h.ptype {
            MacsecPType::Modified => (0, 1),
            MacsecPType::Encrypted => (1, 1),
            MacsecPType::EncryptedUnmodified => (1, 0),
            MacsecPType::Unmodified(_) => (0, 0),
        };
        vec![h.endstation_id as u64, h.scb as u64, e, c, h.an.value() as u64, h.short_len.value() as u64, h.packet_nr as u64]
    };
    vec![
        ("MacsecHeader::from_slice", MacsecHeader::from_slice(x).map(conv).map_err(|e| format!("{:?}", e))),
        ("MacsecHeader::read", MacsecHeader::read(&mut std::io::Cursor::new(x)).map(conv).map_err(|e| format!("{:?}", e))),
        (
            "MacsecHeaderSlice",
            MacsecHeaderSlice::from_slice(x)
                .map(|s| vec![s.endstation_id() as u64, s.tci_scb() as u64, s.encrypted() as u64, s.userdata_changed() as u64, s.an().value() as u64, s.short_len().value() as u64, s.packet_nr() as u64])
                .map_err(|e| format!("{:?}", e)),
        ),
    ]
}

const HDRS: &[Hdr] = &[
    Hdr {
        name: "SingleVlanHeader",
        len: 4,
        fields: &[("pcp", 0, 3), ("dei", 3, 1), ("vlan_id", 4, 12), ("ether_type", 16, 16)],
        fixed: &[],
        enc: vlan_enc,
        dec: vlan_dec,
    },
    Hdr {
        name: "Ipv4Header",
        len: 20,
        fields: &[
            ("dscp", 8, 6),
            ("ecn", 14, 2),
            ("total_len", 16, 16),
            ("identification", 32, 16),
            ("dont_fragment", 49, 1),
            ("more_fragments", 50, 1),
            ("fragment_offset", 51, 13),
            ("ttl", 64, 8),
            ("protocol", 72, 8),
            ("header_checksum", 80, 16),
            ("source", 96, 32),
            ("destination", 128, 32),
        ],
        fixed: &[(0, 4, 4), (4, 4, 5), (48, 1, 0)],
        enc: ipv4_enc,
        dec: ipv4_dec,
    },
    Hdr {
        name: "Ipv6Header",
        len: 40,
        fields: &[("traffic_class", 4, 8), ("flow_label", 12, 20), ("payload_length", 32, 16), ("next_header", 48, 8), ("hop_limit", 56, 8), ("src_hi", 64, 64), ("src_lo", 128, 64), ("dst_hi", 192, 64), ("dst_lo", 256, 64)],
        fixed: &[(0, 4, 6)],
        enc: ipv6_enc,
        dec: ipv6_dec,
    },
    Hdr {
        name: "Ipv6FragmentHeader",
        len: 8,
        fields: &[("next_header", 0, 8), ("fragment_offset", 16, 13), ("more_fragments", 31, 1), ("identification", 32, 32)],
        fixed: &[(8, 8, 0), (29, 2, 0)],
        enc: frag_enc,
        dec: frag_dec,
    },
    Hdr {
        name: "MacsecHeader",
        len: 6,
        fields: &[("es", 1, 1), ("scb", 3, 1), ("e", 4, 1), ("c", 5, 1), ("an", 6, 2), ("short_len", 10, 6), ("packet_nr", 16, 32)],
        fixed: &[(0, 1, 0), (2, 1, 0), (8, 2, 0)],
        enc: macsec_enc,
        dec: macsec_dec,
    },
];

fn field_max(bits: usize) -> u64 {
    if bits >= 64 {
        u64::MAX
    } else {
        (1u64 << bits) - 1
    }
}

/// field values the encoder accepts for header `h` given the background (`MacsecHeader`: e=c=0 selects another layout)
fn legal(h: &Hdr, f: &[u64]) -> bool {
    if h.name == "MacsecHeader" {
        return !(f[2] == 0 && f[3] == 0);
    }
    true
}

/// reference encoding from the diagram
fn ref_enc(h: &Hdr, f: &[u64]) -> Vec<u8> {
    let mut out = vec![0u8; h.len];
    for (s, n, v) in h.fixed {
        set_bits(&mut out, *s, *n, *v);
    }
    for (i, (_, s, n)) in h.fields.iter().enumerate() {
        set_bits(&mut out, *s, *n, f[i]);
    }
    out
}

fn values_for(bits: usize, thorough: bool) -> Vec<u64> {
    // every value of fields up to 16 bits (20 in thorough), boundary patterns above
    let lim = if thorough { 20 } else { 16 };
    if bits <= lim {
        (0..=field_max(bits)).collect()
    } else {
        let mut v = vec![0, 1, field_max(bits), field_max(bits) - 1];
        for k in 0..bits {
            v.push(1u64 << k);
            v.push(field_max(bits) ^ (1u64 << k));
            v.push((1u64 << k).wrapping_sub(1) & field_max(bits));
        }
        v.push(0x5a5a_5a5a_5a5a_5a5a & field_max(bits));
        v.push(0xa5a5_a5a5_a5a5_a5a5 & field_max(bits));
        v.sort();
        v.dedup();
        v
    }
}

/// backgrounds for the other fields
fn backgrounds(h: &Hdr) -> Vec<Vec<u64>> {
    let n = h.fields.len();
    let zeros: Vec<u64> = vec![0; n];
    let ones: Vec<u64> = h.fields.iter().map(|(_, _, b)| field_max(*b)).collect();
    let alt: Vec<u64> = h.fields.iter().enumerate().map(|(i, (_, _, b))| if i % 2 == 0 { field_max(*b) } else { 0 }).collect();
    let alt2: Vec<u64> = h.fields.iter().enumerate().map(|(i, (_, _, b))| if i % 2 == 1 { field_max(*b) } else { 0 }).collect();
    let mut out = vec![zeros, ones, alt, alt2];
    if h.name == "MacsecHeader" {
        for bg in out.iter_mut() {
            if bg[2] == 0 && bg[3] == 0 {
                bg[3] = 1;
            }
        }
    }
    out
}

impl C15 {
    fn flow_units(tier: Tier) -> u64 {
        if tier.is_thorough() {
            256
        } else {
            1
        }
    }
}

// unit layout:
//   0..9                 constructors (Ipv6FlowLabel: quick subset in unit 8)
//   9..9+F               flow label domain slices (thorough only beyond the first)
//   then per header: encode unit, decode unit(s)
const N_CTOR: u64 = 9;

impl Check for C15 {
    fn quick_is_thorough(&self) -> bool {
        true
    }
    fn id(&self) -> &'static str {
        "C15"
    }
    fn rule(&self, tier: Tier) -> String {
        format!(
            "alphabet: (a) the complete input domain of try_new and TryFrom of VlanId, IpFragOffset (2^16), VlanPcp, IpDscp, IpEcn, MacsecAn, MacsecShortLen, Qrv (2^8), Ipv6FlowLabel ({}), plus every other safe way to obtain such a value (MacsecShortLen::from_len over 0..=70000 and 2^k±1 up to usize::MAX, the named constants, Default) and the conversions out of the types; \
             (b) encode: for SingleVlanHeader, Ipv4Header, Ipv6Header, Ipv6FragmentHeader, MacsecHeader and the IGMPv3 query byte-8 setters every value of every field of <= {} bits (boundary patterns 2^k, 2^k-1, ~2^k above) x 4 backgrounds (all other fields min / max / alternating); \
             (c) decode: every value of the 1-3 bytes holding each bit field x backgrounds 0x00/0xff through every decoder of the header (struct from_slice / from_bytes / read(io::Read) and *Slice accessors). \
             oracle: Ok(v) with v.value()==x iff x < 2^bits else Err{{actual:x,max_allowed:2^bits-1}}; encoded bytes == reference bit placement from the RFC diagram (so the XOR against the baseline is confined to the field's mask); decoded values == reference bit extraction and <= max. \
             a state = one (api, value) or (header, field, value, background) tuple; all are distinct by construction; non-trivial = value != 0 (the field actually carries bits).",
            if tier.is_thorough() { "all 2^32 values" } else { "all values < 2^21 plus 2^k, 2^k±1 for every k<32" },
            if tier.is_thorough() { 20 } else { 16 }
        )
    }
    fn assumptions(&self, _tier: Tier) -> Vec<String> {
        vec!["bit positions of the reference are transcribed from RFC 791/8200, IEEE 802.1Q/802.1AE and RFC 3376 diagrams".into()]
    }
    fn units(&self, tier: Tier) -> u64 {
        N_CTOR + Self::flow_units(tier) + (HDRS.len() as u64) * 5 + 3
    }
    fn expect_reach(&self, _tier: Tier) -> Vec<String> {
        vec!["ctor-ok".into(), "ctor-err".into(), "enc".into(), "dec-ok".into(), "dec-err".into(), "igmp-byte8".into(), "ipv6-traffic-class".into(), "other-safe-constructors".into()]
            .into_iter()
            .chain(["dec-ok:SingleVlanHeader:bytes0..=1", "dec-ok:Ipv4Header:bytes1..=1", "dec-ok:Ipv4Header:bytes6..=7", "dec-ok:Ipv6FragmentHeader:bytes2..=3", "dec-ok:Ipv6Header:bytes0..=2", "dec-ok:Ipv6Header:bytes1..=3", "dec-ok:MacsecHeader:bytes0..=0", "dec-ok:MacsecHeader:bytes1..=1"].iter().map(|s| s.to_string()))
            .collect()
    }
    fn run_unit(&self, tier: Tier, u: u64, ctx: &mut Ctx) {
        let thorough = tier.is_thorough();
        if u < N_CTOR {
            let c = &CTORS[u as usize];
            if c.domain_bits == 32 {
                // boundary set only; the dense part lives in the flow units
                let mut vals: Vec<u64> = vec![0, u32::MAX as u64];
                for k in 0..32 {
                    let p = 1u64 << k;
                    vals.extend([p - 1, p, (p + 1).min(u32::MAX as u64)]);
                }
                vals.sort();
                vals.dedup();
                ctx.case(
                    None,
                    || CaseDesc { shape: format!("ctor:{}", c.name), text: format!("{}::try_new/try_from over 2^k, 2^k±1", c.name), rank: 0 },
                    |case| {
                        case.at(c.name);
                        for v in &vals {
                            check_ctor(c, *v, case);
                        }
                        case.states(vals.len() as u64 * 2);
                        case.evals(vals.len() as u64 * 2);
                        case.nontrivial_n(vals.len() as u64 * 2 - 2);
                        case.reach("ctor-ok");
                        case.reach("ctor-err");
                    },
                );
                return;
            }
            let n = 1u64 << c.domain_bits;
            // one case per block of 256 values so that a violation names a small block
            for blk in 0..(n / 256) {
                ctx.case(
                    None,
                    || CaseDesc { shape: format!("ctor:{}", c.name), text: format!("{}::try_new/try_from({}..{})", c.name, blk * 256, blk * 256 + 255), rank: blk },
                    |case| {
                        case.at(c.name);
                        let mut ok = false;
                        let mut er = false;
                        for x in blk * 256..blk * 256 + 256 {
                            check_ctor(c, x, case);
                            if x < (1 << c.bits) {
                                ok = true
                            } else {
                                er = true
                            }
                        }
                        case.states(512);
                        case.evals(512);
                        case.nontrivial_n(if blk == 0 { 510 } else { 512 });
                        if ok {
                            case.reach("ctor-ok");
                        }
                        if er {
                            case.reach("ctor-err");
                        }
                        case.outcome(format!("{}:{}{}", c.name, if ok { "ok" } else { "" }, if er { "err" } else { "" }));
                    },
                );
            }
            return;
        }
        let u = u - N_CTOR;
        if u < Self::flow_units(tier) {
            let c = &CTORS[8];
            let (lo, hi) = if thorough { (u << 24, (u + 1) << 24) } else { (0, 1u64 << 21) };
            let step = 1u64 << 16;
            let mut s = lo;
            while s < hi {
                let e = s + step;
                ctx.case(
                    None,
                    || CaseDesc { shape: "ctor:Ipv6FlowLabel".into(), text: format!("Ipv6FlowLabel::try_new/try_from({:#x}..{:#x})", s, e), rank: s },
                    |case| {
                        case.at("Ipv6FlowLabel");
                        for x in s..e {
                            check_ctor(c, x, case);
                        }
                        case.states(2 * step);
                        case.evals(2 * step);
                        case.nontrivial_n(2 * step - if s == 0 { 2 } else { 0 });
                        case.reach(if s < (1 << 20) { "ctor-ok" } else { "ctor-err" });
                        case.outcome(if s < (1 << 20) { "Ipv6FlowLabel:ok" } else { "Ipv6FlowLabel:err" });
                    },
                );
                s = e;
            }
            return;
        }
        let u = u - Self::flow_units(tier);
        if u < (HDRS.len() as u64) * 5 {
            // per header: unit 0 = encode side, units 1..=4 = decode side with one background byte each
            let h = &HDRS[(u / 5) as usize];
            if u % 5 == 0 {
                // ---- encode side
                for (fi, (fname, _fs, fbits)) in h.fields.iter().enumerate() {
                    let vals = values_for(*fbits, thorough);
                    for (bi, bg) in backgrounds(h).iter().enumerate() {
                        let vals = &vals;
                        ctx.case(
                            None,
                            || CaseDesc { shape: format!("enc:{}:{}", h.name, fname), text: format!("{}::to_bytes with every value of field `{}` ({} values), background #{} = {:?}", h.name, fname, vals.len(), bi, bg), rank: (fi * 4 + bi) as u64 },
                            |case| {
                                case.at(h.name);
                                let mut f = bg.clone();
                                let mut n = 0u64;
                                for v in vals {
                                    f[fi] = *v;
                                    if !legal(h, &f) {
                                        continue;
                                    }
                                    n += 1;
                                    let got = (h.enc)(&f);
                                    let want = ref_enc(h, &f);
                                    if got != want {
                                        let bad: Vec<usize> = (0..want.len().min(got.len())).filter(|i| got[*i] != want[*i]).collect();
                                        let inside = bad.iter().all(|i| {
                                            let (_, s, nb) = h.fields[fi];
                                            *i >= s / 8 && *i <= (s + nb - 1) / 8
                                        });
                                        case.fail(
                                            format!("encode:{}:{}:{}", h.name, fname, if inside { "field-bits-wrong" } else { "neighbour-changed" }),
                                            format!("{}::to_bytes with {}={:#x} on background {:?}: got {} want {} (differing bytes {:?})", h.name, fname, v, bg, hex(&got), hex(&want), bad),
                                        );
                                        break;
                                    }
                                }
                                case.states(n);
                                case.evals(n);
                                case.nontrivial_n(n.saturating_sub(1));
                                case.reach("enc");
                                case.outcome(format!("enc:{}:{}", h.name, fname));
                            },
                        );
                    }
                }
            } else {
                // ---- decode side: every value of the bytes that hold bit fields narrower than a byte multiple
                // byte windows: each maximal run of bytes touched by sub-byte-aligned fields
                let mut windows: Vec<(usize, usize)> = vec![];
                for (_, s, nb) in h.fields.iter() {
                    if s % 8 != 0 || nb % 8 != 0 {
                        let lo = s / 8;
                        let hi = (s + nb - 1) / 8;
                        if let Some(last) = windows.last_mut() {
                            if lo <= last.1 {
                                last.1 = last.1.max(hi);
                                continue;
                            }
                        }
                        windows.push((lo, hi));
                    }
                }
                for (lo, hi) in windows {
                    let wbytes = hi - lo + 1;
                    // windows are swept completely up to 2 bytes (quick) / 3 bytes (thorough); wider windows by overlapping sweeps of that width
                    let w = if thorough { 3 } else { 2 };
                    let sweeps: Vec<(usize, usize)> = if wbytes <= w { vec![(lo, hi)] } else { (lo..=hi + 1 - w).map(|i| (i, i + w - 1)).collect() };
                    for (slo, shi) in sweeps {
                        let sb = shi - slo + 1;
                        for bgv in [[0x00u8, 0xff, 0x0f, 0xf0][(u % 5 - 1) as usize]] {
                            let total = 1u64 << (8 * sb);
                            let blocks = (total / 65536).max(1);
                            for blk in 0..blocks {
                                ctx.case(
                                    None,
                                    || CaseDesc { shape: format!("dec:{}", h.name), text: format!("{} decoders on bytes {}..={} = every value (block {}), all other bytes {:#04x}", h.name, slo, shi, blk, bgv), rank: blk },
                                    |case| {
                                        case.at(h.name);
                                        let mut raw = vec![bgv; h.len];
                                        // the constant fields of the format (IP version, IHL 5) outside the swept window keep their
                                        // value, otherwise every decoder rejects the header before it looks at the swept bits
                                        for (fs, fnb, fv) in h.fixed {
                                            let (blo, bhi) = (fs / 8, (fs + fnb - 1) / 8);
                                            if bhi < slo || blo > shi {
                                                set_bits(&mut raw, *fs, *fnb, *fv);
                                            }
                                        }
                                        let per = (total / blocks).min(total);
                                        let mut nstates = 0u64;
                                        let mut saw_ok = false;
                                        let mut saw_err = false;
                                        for k in 0..per {
                                            let v = blk * per + k;
                                            for bi in 0..sb {
                                                raw[slo + bi] = (v >> (8 * (sb - 1 - bi))) as u8;
                                            }
                                            // does the reference accept? (fixed bits that the decoder validates)
                                            let ref_ok = ref_accepts(h, &raw);
                                            let want: Vec<u64> = h.fields.iter().map(|(_, s, nb)| get_bits(&raw, *s, *nb)).collect();
                                            for (dname, r) in (h.dec)(&raw) {
                                                nstates += 1;
                                                match r {
                                                    Ok(got) => {
                                                        saw_ok = true;
                                                        if !ref_ok && dname != "SingleVlanHeader::from_bytes" {
                                                            case.fail(format!("decode-accepts-invalid:{}:{}", h.name, dname), format!("{} accepted {}", dname, hex(&raw)));
                                                        }
                                                        for (i, g) in got.iter().enumerate() {
                                                            let (fname, _, nb) = h.fields[i];
                                                            if *g > field_max(nb) {
                                                                case.fail(format!("decode-out-of-range:{}:{}:{}", h.name, dname, fname), format!("{} of {} gave {}={:#x} which exceeds {} bits", dname, hex(&raw), fname, g, nb));
                                                            } else if *g != want[i] && !macsec_sl_norm(h, fname, &raw) {
                                                                case.fail(format!("decode-wrong-bits:{}:{}:{}", h.name, dname, fname), format!("{} of {} gave {}={:#x}, the bits say {:#x}", dname, hex(&raw), fname, g, want[i]));
                                                            }
                                                        }
                                                    }
                                                    Err(e) => {
                                                        saw_err = true;
                                                        if ref_ok {
                                                            case.fail(format!("decode-rejects-valid:{}:{}", h.name, dname), format!("{} rejected {} with {}", dname, hex(&raw), e));
                                                        }
                                                    }
                                                }
                                            }
                                        }
                                        case.states(nstates);
                                        case.evals(nstates);
                                        case.nontrivial_n(nstates);
                                        if saw_ok {
                                            case.reach("dec-ok");
                                            // per header and window: a sweep in which no decoder ever accepts decides nothing about decoding
                                            case.reach(format!("dec-ok:{}:bytes{}..={}", h.name, slo, shi));
                                        }
                                        if saw_err {
                                            case.reach("dec-err");
                                        }
                                        case.outcome(format!("dec:{}:{}{}", h.name, if saw_ok { "ok" } else { "" }, if saw_err { "err" } else { "" }));
                                    },
                                );
                            }
                        }
                    }
                }
            }
            return;
        }
        if u == (HDRS.len() as u64) * 5 + 2 {
            // ---- every other safe way to obtain a value of a bounded type: the saturating MacsecShortLen::from_len, the
            // named constants, Default, and the conversions out of the types
            ctx.case(
                None,
                || CaseDesc { shape: "other-safe-constructors".into(), text: "MacsecShortLen::from_len over 0..=70000 and 2^k, 2^k±1 up to usize::MAX; named constants and Default of every bounded type; From<T> for the integer; IpFragOffset::byte_offset".into(), rank: 0 },
                |case| {
                    case.at("MacsecShortLen::from_len");
                    let mut lens: Vec<usize> = (0..=70_000usize).collect();
                    for k in 0..usize::BITS {
                        let p = 1usize << k;
                        lens.extend([p - 1, p, p.saturating_add(1)]);
                    }
                    lens.push(usize::MAX);
                    let mut n = 0u64;
                    for l in &lens {
                        let v = MacsecShortLen::from_len(*l).value();
                        n += 1;
                        // documented: lengths the 6 bit field cannot represent give the "unknown" value 0
                        let want = if *l <= 63 { *l as u8 } else { 0 };
                        if v > 63 {
                            case.fail("safe-ctor-out-of-range:MacsecShortLen::from_len", format!("MacsecShortLen::from_len({}).value() == {} which does not fit 6 bits", l, v));
                            break;
                        } else if v != want {
                            case.fail("safe-ctor-wrong-value:MacsecShortLen::from_len", format!("MacsecShortLen::from_len({}).value() == {}, expected {}", l, v, want));
                            break;
                        }
                    }
                    case.at("constants");
                    let consts: Vec<(&str, u64, u32)> = vec![
                        ("VlanId::ZERO", VlanId::ZERO.value() as u64, 12),
                        ("VlanId::default", VlanId::default().value() as u64, 12),
                        ("VlanPcp::ZERO", VlanPcp::ZERO.value() as u64, 3),
                        ("VlanPcp::default", VlanPcp::default().value() as u64, 3),
                        ("IpDscp::ZERO", IpDscp::ZERO.value() as u64, 6),
                        ("IpDscp::MAX", IpDscp::MAX.value() as u64, 6),
                        ("IpDscp::default", IpDscp::default().value() as u64, 6),
                        ("IpDscp::CS0", IpDscp::CS0.value() as u64, 6),
                        ("IpDscp::CS1", IpDscp::CS1.value() as u64, 6),
                        ("IpDscp::CS2", IpDscp::CS2.value() as u64, 6),
                        ("IpDscp::CS3", IpDscp::CS3.value() as u64, 6),
                        ("IpDscp::CS4", IpDscp::CS4.value() as u64, 6),
                        ("IpDscp::CS5", IpDscp::CS5.value() as u64, 6),
                        ("IpDscp::CS6", IpDscp::CS6.value() as u64, 6),
                        ("IpDscp::CS7", IpDscp::CS7.value() as u64, 6),
                        ("IpDscp::AF11", IpDscp::AF11.value() as u64, 6),
                        ("IpDscp::AF12", IpDscp::AF12.value() as u64, 6),
                        ("IpDscp::AF13", IpDscp::AF13.value() as u64, 6),
                        ("IpDscp::AF21", IpDscp::AF21.value() as u64, 6),
                        ("IpDscp::AF22", IpDscp::AF22.value() as u64, 6),
                        ("IpDscp::AF23", IpDscp::AF23.value() as u64, 6),
                        ("IpDscp::AF31", IpDscp::AF31.value() as u64, 6),
                        ("IpDscp::AF32", IpDscp::AF32.value() as u64, 6),
                        ("IpDscp::AF33", IpDscp::AF33.value() as u64, 6),
                        ("IpDscp::AF41", IpDscp::AF41.value() as u64, 6),
                        ("IpDscp::AF42", IpDscp::AF42.value() as u64, 6),
                        ("IpDscp::AF43", IpDscp::AF43.value() as u64, 6),
                        ("IpDscp::EF", IpDscp::EF.value() as u64, 6),
                        ("IpDscp::VOICE_ADMIT", IpDscp::VOICE_ADMIT.value() as u64, 6),
                        ("IpDscp::LOWER_EFFORT", IpDscp::LOWER_EFFORT.value() as u64, 6),
                        ("IpEcn::ZERO", IpEcn::ZERO.value() as u64, 2),
                        ("IpEcn::ONE", IpEcn::ONE.value() as u64, 2),
                        ("IpEcn::TWO", IpEcn::TWO.value() as u64, 2),
                        ("IpEcn::THREE", IpEcn::THREE.value() as u64, 2),
                        ("IpEcn::default", IpEcn::default().value() as u64, 2),
                        ("IpFragOffset::ZERO", IpFragOffset::ZERO.value() as u64, 13),
                        ("IpFragOffset::default", IpFragOffset::default().value() as u64, 13),
                        ("Ipv6FlowLabel::ZERO", Ipv6FlowLabel::ZERO.value() as u64, 20),
                        ("Ipv6FlowLabel::default", Ipv6FlowLabel::default().value() as u64, 20),
                        ("MacsecAn::ZERO", MacsecAn::ZERO.value() as u64, 2),
                        ("MacsecAn::default", MacsecAn::default().value() as u64, 2),
                        ("MacsecShortLen::ZERO", MacsecShortLen::ZERO.value() as u64, 6),
                        ("MacsecShortLen::default", MacsecShortLen::default().value() as u64, 6),
                        ("Qrv::ZERO", igmp::Qrv::ZERO.value() as u64, 3),
                        ("Qrv::MAX", igmp::Qrv::MAX.value() as u64, 3),
                        ("Qrv::default", igmp::Qrv::default().value() as u64, 3),
                    ];
                    for (name, v, bits) in &consts {
                        n += 1;
                        if *v >= (1u64 << bits) {
                            case.fail(format!("safe-ctor-out-of-range:{}", name), format!("{} has the value {} which does not fit {} bits", name, v, bits));
                        }
                    }
                    case.at("conversions");
                    for x in 0..=0x1fffu16 {
                        n += 2;
                        let o = IpFragOffset::try_new(x).unwrap();
                        if o.byte_offset() != x * 8 || u16::from(o) != x {
                            case.fail("conversion:IpFragOffset", format!("IpFragOffset({}): byte_offset() {} u16::from {}", x, o.byte_offset(), u16::from(o)));
                            break;
                        }
                    }
                    for x in 0..=0x0fffu16 {
                        n += 1;
                        if u16::from(VlanId::try_new(x).unwrap()) != x {
                            case.fail("conversion:VlanId", format!("u16::from(VlanId({})) differs", x));
                            break;
                        }
                    }
                    for x in 0..=63u8 {
                        n += 2;
                        if u8::from(IpDscp::try_new(x).unwrap()) != x || u8::from(MacsecShortLen::try_from_u8(x).unwrap()) != x {
                            case.fail("conversion:u8", format!("u8::from of IpDscp / MacsecShortLen({}) differs", x));
                            break;
                        }
                    }
                    for x in 0..=7u8 {
                        n += 2;
                        if u8::from(VlanPcp::try_new(x).unwrap()) != x || u8::from(igmp::Qrv::try_new(x).unwrap()) != x {
                            case.fail("conversion:u8", format!("u8::from of VlanPcp / Qrv({}) differs", x));
                        }
                    }
                    for x in 0..=3u8 {
                        n += 2;
                        if u8::from(IpEcn::try_new(x).unwrap()) != x || u8::from(MacsecAn::try_new(x).unwrap()) != x {
                            case.fail("conversion:u8", format!("u8::from of IpEcn / MacsecAn({}) differs", x));
                        }
                    }
                    case.states(n);
                    case.evals(n);
                    case.nontrivial_n(n.saturating_sub(20));
                    case.reach("other-safe-constructors");
                    case.outcome("other-safe-constructors".to_string());
                },
            );
            return;
        }
        if u == (HDRS.len() as u64) * 5 + 1 {
            // ---- IPv6 traffic class octet = DSCP(6) | ECN(2) through the struct level setters / getters, and what is encoded:
            // every start value of the octet x every ECN / DSCP value
            ctx.case(
                None,
                || CaseDesc { shape: "ipv6-traffic-class".into(), text: "Ipv6Header: every traffic_class x every set_ecn / set_dscp value, getters, to_bytes".into(), rank: 0 },
                |case| {
                    case.at("Ipv6Header::set_ecn/set_dscp");
                    let mut n = 0u64;
                    for tc in 0..=255u8 {
                        let mk = || Ipv6Header { traffic_class: tc, flow_label: Ipv6FlowLabel::try_new(0xABCDE).unwrap(), payload_length: 0x1234, next_header: IpNumber(17), hop_limit: 9, source: [0x11; 16], destination: [0x22; 16] };
                        let h0 = mk();
                        if h0.ecn().value() != tc & 3 || h0.dscp().value() != tc >> 2 {
                            case.fail("ipv6-traffic-class:getter", format!("traffic_class {:#04x}: ecn() {} dscp() {}", tc, h0.ecn().value(), h0.dscp().value()));
                        }
                        let base = h0.to_bytes();
                        for e in 0..4u8 {
                            let mut h = mk();
                            h.set_ecn(IpEcn::try_new(e).unwrap());
                            n += 1;
                            let want = (tc & 0xfc) | e;
                            let mut wb = base;
                            wb[0] = 0x60 | (want >> 4);
                            wb[1] = (want << 4) | (base[1] & 0x0f);
                            if h.traffic_class != want || h.to_bytes() != wb || h.dscp().value() != tc >> 2 {
                                case.fail("ipv6-traffic-class:set_ecn-alters-neighbour", format!("traffic_class {:#04x} set_ecn({}) -> {:#04x} (want {:#04x}), bytes {}", tc, e, h.traffic_class, want, hex(&h.to_bytes()[..4])));
                            }
                        }
                        for d in 0..64u8 {
                            let mut h = mk();
                            h.set_dscp(IpDscp::try_new(d).unwrap());
                            n += 1;
                            let want = (d << 2) | (tc & 3);
                            let mut wb = base;
                            wb[0] = 0x60 | (want >> 4);
                            wb[1] = (want << 4) | (base[1] & 0x0f);
                            if h.traffic_class != want || h.to_bytes() != wb || h.ecn().value() != tc & 3 {
                                case.fail("ipv6-traffic-class:set_dscp-alters-neighbour", format!("traffic_class {:#04x} set_dscp({}) -> {:#04x} (want {:#04x}), bytes {}", tc, d, h.traffic_class, want, hex(&h.to_bytes()[..4])));
                            }
                        }
                    }
                    case.states(n);
                    case.evals(n);
                    case.nontrivial_n(n);
                    case.reach("ipv6-traffic-class");
                    case.outcome("ipv6-traffic-class");
                },
            );
            return;
        }
        // ---- IGMPv3 query byte 8: resv(4) | S | QRV(3) through the setters, from every start byte
        ctx.case(
            None,
            || CaseDesc { shape: "igmp-byte8".into(), text: "MembershipQueryWithSourcesHeader: every raw_byte_8 x every set_flags/set_s_flag/set_qrv value".into(), rank: 0 },
            |case| {
                case.at("MembershipQueryWithSourcesHeader");
                use etherparse::igmp::*;
                let mut n = 0u64;
                for raw in 0..=255u8 {
                    let mk = || MembershipQueryWithSourcesHeader { max_response_code: MaxResponseCode(0), group_address: GroupAddress { octets: [0; 4] }, raw_byte_8: raw, qqic: 0, num_of_sources: 0 };
                    let h0 = mk();
                    if h0.flags() != raw >> 4 || h0.s_flag() != (raw & 8 != 0) || h0.qrv().value() != raw & 7 {
                        case.fail("igmp-byte8:getter", format!("raw_byte_8={:#04x}: flags()={} s_flag()={} qrv()={}", raw, h0.flags(), h0.s_flag(), h0.qrv().value()));
                    }
                    for v in 0..=255u8 {
                        let mut h = mk();
                        h.set_flags(v);
                        n += 1;
                        // values that do not fit the 4 bit field must not touch S / QRV
                        if h.raw_byte_8 & 0x0f != raw & 0x0f || (v < 16 && h.raw_byte_8 >> 4 != v) {
                            case.fail("igmp-byte8:set_flags", format!("raw {:#04x} set_flags({}) -> {:#04x}", raw, v, h.raw_byte_8));
                        }
                    }
                    for q in 0..8u8 {
                        let mut h = mk();
                        h.set_qrv(Qrv::try_new(q).unwrap());
                        n += 1;
                        if h.raw_byte_8 != (raw & 0xf8) | q {
                            case.fail("igmp-byte8:set_qrv", format!("raw {:#04x} set_qrv({}) -> {:#04x}", raw, q, h.raw_byte_8));
                        }
                    }
                    for s in [false, true] {
                        let mut h = mk();
                        h.set_s_flag(s);
                        n += 1;
                        if h.raw_byte_8 != (raw & 0xf7) | if s { 8 } else { 0 } {
                            case.fail("igmp-byte8:set_s_flag", format!("raw {:#04x} set_s_flag({}) -> {:#04x}", raw, s, h.raw_byte_8));
                        }
                    }
                }
                case.states(n);
                case.evals(n);
                case.nontrivial_n(n);
                case.reach("igmp-byte8");
                case.outcome("igmp-byte8");
            },
        );
    }
}

/// MACsec decoders are allowed (and documented) to hand out the raw 6 bits of the short length; nothing is normalised
fn macsec_sl_norm(_h: &Hdr, _fname: &str, _raw: &[u8]) -> bool {
    false
}


/// content rules of the decoders, from the formats: IPv4 version 4 and IHL >= 5 (IHL 5 here because the buffer has
/// 20 bytes: larger IHL is a length error), total_len >= header for nothing (Ipv4HeaderSlice checks total_len >= ihl*4);
/// IPv6 version 6; MACsec version bit 0, and SL==1 illegal only for unmodified payloads
fn ref_accepts(h: &Hdr, raw: &[u8]) -> bool {
    match h.name {
        // header decoders validate version and IHL (20 byte buffer: IHL 5); the total length is a packet level rule (C03)
        "Ipv4Header" => raw[0] >> 4 == 4 && raw[0] & 0xf == 5,
        "Ipv6Header" => raw[0] >> 4 == 6,
        "MacsecHeader" => {
            let v = raw[0] & 0x80 != 0;
            let sc = raw[0] & 0x20 != 0;
            let e = raw[0] & 0x08 != 0;
            let c = raw[0] & 0x04 != 0;
            // 6 byte buffer: SCI (8 more bytes) or an ether type (2 more) do not fit -> length error
            !v && !sc && (e || c)
        }
        _ => true,
    }
}
