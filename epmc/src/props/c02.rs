//! C02 — decoders are total: Ok or Err for every input, never a panic, abort, overflow or hang.
//!
//! E1 sweeps x every entry point of the door x full observation (accessors, conversions,
//! iterators driven to exhaustion + 2, Debug/Display of every value and error), checked build
//! (overflow checks + debug assertions + std UB precondition checks), one placement (input
//! flush against a guard page). A panic is caught per case, an abort / fatal signal / hang is
//! attributed to the case by the supervisor.

use crate::fw::*;
use crate::mem::Arena;
use crate::pkt::{obs, sweep};

pub struct C02;

thread_local! {
    static ARENA: Arena = Arena::new(40);
}

impl Check for C02 {
    fn id(&self) -> &'static str {
        "C02"
    }
    fn rule(&self, tier: Tier) -> String {
        format!(
            "alphabet/bound: {}. Each case = (door, byte string); all entry points of the door are called and every accessor, to_header/to_packet/try_to_header conversion, option/extension/NDP iterator (driven until None + 2 more calls, budget bytes+2) and Debug/Display formatter of every Ok and Err value is exercised. \
             oracle: no panic (catch_unwind, overflow checks and debug assertions on), no abort/fatal signal, no hang (watchdog), iterators make progress, yield <= bytes items and stay exhausted. \
             distinct = distinct (door, bytes) by 64-bit hash; non-trivial = at least one entry point got past its first header (returned Ok) or failed with something other than 'first header too short'.",
            sweep::describe_bounds(tier)
        )
    }
    fn assumptions(&self, _tier: Tier) -> Vec<String> {
        vec!["a panic aborts the remaining entry points of that one case (the case is reported); other cases are unaffected".into()]
    }
    fn units(&self, tier: Tier) -> u64 {
        sweep::units(tier)
    }
    fn dedup_bits(&self, tier: Tier) -> u32 {
        if tier.is_thorough() {
            30
        } else {
            26
        }
    }
    fn expect_reach(&self, _tier: Tier) -> Vec<String> {
        vec!["ok:SlicedPacket::from_ethernet".into(), "err:SlicedPacket::from_ethernet".into(), "ok:LaxSlicedPacket::from_ip".into(), "ok:TcpSlice::from_slice".into(), "err:Ipv6ExtensionsSlice::from_slice".into()]
    }
    fn run_unit(&self, tier: Tier, u: u64, ctx: &mut Ctx) {
        sweep::run_unit(tier, u, ctx, &|door, bytes, _shape, case| {
            ARENA.with(|a| {
                let b = a.place_end(bytes);
                let mut s = obs::Sink::new(b, false);
                obs::run_door(door, b, &mut s, case);
                obs::checksum_touch(b, &mut s, case);
                case.evals(s.evals);
                summarize(&s, case);
                for (sig, d) in s.bad.drain(..) {
                    if !sig.starts_with("slice-outside-input") {
                        case.fail(sig, d);
                    }
                }
            });
        });
    }
}

/// outcome signature, reachability and non-triviality from a finished observation
pub fn summarize(s: &obs::Sink, case: &mut Case) {
    let mut sig = String::new();
    for n in &s.ok {
        sig.push_str(short(n));
        sig.push('+');
    }
    sig.push('|');
    for n in &s.err {
        sig.push_str(short(n));
        sig.push('-');
    }
    if !s.ok.is_empty() || s.input.len() >= 20 {
        case.nontrivial();
    }
    for n in &s.ok {
        case.reach(format!("ok:{}", n));
    }
    for n in &s.err {
        case.reach(format!("err:{}", n));
    }
    case.outcome(sig);
}

fn short(n: &str) -> &str {
    // initials keep the signature compact
    n
}
