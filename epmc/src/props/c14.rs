//! C14 — out-of-range lengths and values are rejected, never truncated.
//!
//! Every length-taking constructor / setter / checksum function / builder terminal is called
//! with the lengths {0,1,2} ∪ {L−2 … L+2} for every L in a table of alignment units, field
//! limits, powers of two and "power of two minus header size" values. Oracle: the harness
//! computes the true maximum from the wire field width and the header sizes (RFC 791, 8200,
//! 768, 9293, 4443, 4302, 826, IEEE 802.1AE), accept ⇔ value ≤ maximum (and alignment rule);
//! accepted values are decoded from the serialised bytes with plain big-endian extraction
//! (length fields) or through an independent ones-complement reference (pseudo-header
//! lengths); rejected values must come back as an error naming the overshoot and must leave
//! the header unchanged. Nothing may panic.

use crate::fw::*;
use etherparse::*;
use std::sync::OnceLock;

pub struct C14;

const UNITS: u64 = 64;

// ---- environment: patterned bytes + one lazily mapped zero region ---------------------------

/// patterned (non-zero) payload bytes for every length up to this
const PAT_LEN: usize = 72 * 1024;
const PAGE: usize = 4096;

struct Env {
    pat: Vec<u8>,
    /// pre[i] = sum of the big-endian 16 bit words of pat[..2*i]
    pre: Vec<u64>,
    /// mapping: [one read+write page][zero_len bytes read-only, never written => all zero]
    base: *mut u8,
    zero_len: usize,
}
unsafe impl Sync for Env {}
unsafe impl Send for Env {}

static ENV: OnceLock<Env> = OnceLock::new();

fn env(tier: Tier) -> &'static Env {
    ENV.get_or_init(|| Env::new(tier.is_thorough()))
}

impl Env {
    fn new(thorough: bool) -> Env {
        let mut pat = vec![0u8; PAT_LEN + 2];
        for (i, b) in pat.iter_mut().enumerate() {
            *b = ((i * 7 + 3) % 251 + 1) as u8;
        }
        let mut pre = Vec::with_capacity(PAT_LEN / 2 + 2);
        let mut s = 0u64;
        pre.push(0);
        for c in pat.chunks_exact(2) {
            s += u16::from_be_bytes([c[0], c[1]]) as u64;
            pre.push(s);
        }
        let zero_len: usize = if thorough { (1usize << 32) + 64 * 1024 } else { 64 * 1024 };
        let base = unsafe {
            let p = libc::mmap(
                std::ptr::null_mut(),
                PAGE + zero_len,
                libc::PROT_READ,
                libc::MAP_PRIVATE | libc::MAP_ANONYMOUS | libc::MAP_NORESERVE,
                -1,
                0,
            );
            assert!(p != libc::MAP_FAILED, "mmap of the zero region failed");
            assert_eq!(libc::mprotect(p, PAGE, libc::PROT_READ | libc::PROT_WRITE), 0, "mprotect");
            p as *mut u8
        };
        Env { pat, pre, base, zero_len }
    }
    /// payload of `len` bytes: patterned up to PAT_LEN, a view into the zero mapping above
    fn payload(&self, len: u64) -> &[u8] {
        let len = len as usize;
        if len <= PAT_LEN {
            &self.pat[..len]
        } else {
            assert!(len <= self.zero_len, "length {} exceeds the zero mapping", len);
            unsafe { std::slice::from_raw_parts(self.base.add(PAGE), len) }
        }
    }
    /// second payload with different content (same length)
    fn payload2(&self, len: u64) -> &[u8] {
        let len = len as usize;
        if len + 1 <= PAT_LEN {
            &self.pat[1..1 + len]
        } else {
            self.payload(len as u64)
        }
    }
    /// sum of the big-endian 16 bit words of `payload(len)` (odd trailing byte padded with 0)
    fn payload_sum(&self, len: u64) -> u64 {
        let len = len as usize;
        if len <= PAT_LEN {
            self.pre[len / 2] + if len % 2 == 1 { (self.pat[len - 1] as u64) << 8 } else { 0 }
        } else {
            0
        }
    }
    /// `hdr` immediately followed by `payload(len)` as one slice
    fn hdr_and_payload(&self, hdr: &[u8], len: u64) -> std::borrow::Cow<'_, [u8]> {
        if len as usize <= PAT_LEN {
            let mut v = hdr.to_vec();
            v.extend_from_slice(self.payload(len));
            std::borrow::Cow::Owned(v)
        } else {
            assert!(hdr.len() <= PAGE && len as usize <= self.zero_len);
            unsafe {
                let p = self.base.add(PAGE - hdr.len());
                std::ptr::copy_nonoverlapping(hdr.as_ptr(), p, hdr.len());
                std::borrow::Cow::Borrowed(std::slice::from_raw_parts(p, hdr.len() + len as usize))
            }
        }
    }
}

// ---- reference helpers -----------------------------------------------------------------------

fn be16(b: &[u8], at: usize) -> u64 {
    u16::from_be_bytes([b[at], b[at + 1]]) as u64
}
/// add the big-endian 16 bit words of `b` (odd trailing byte padded with zero)
fn wsum(mut acc: u64, b: &[u8]) -> u64 {
    let mut it = b.chunks_exact(2);
    for c in &mut it {
        acc += u16::from_be_bytes([c[0], c[1]]) as u64;
    }
    if let [x] = it.remainder() {
        acc += (*x as u64) << 8;
    }
    acc
}
fn fold(mut acc: u64) -> u16 {
    while acc >> 16 != 0 {
        acc = (acc & 0xffff) + (acc >> 16);
    }
    !(acc as u16)
}
fn pseudo4(src: [u8; 4], dst: [u8; 4], proto: u8, len: u64) -> u64 {
    let mut a = wsum(0, &src);
    a = wsum(a, &dst);
    a += proto as u64;
    a + (len & 0xffff)
}
fn pseudo6(src: [u8; 16], dst: [u8; 16], next: u8, len: u64) -> u64 {
    let mut a = wsum(0, &src);
    a = wsum(a, &dst);
    a = wsum(a, &(len as u32).to_be_bytes());
    a + next as u64
}

const SRC4: [u8; 4] = [192, 168, 1, 1];
const DST4: [u8; 4] = [10, 0, 0, 42];
const SRC6: [u8; 16] = [0x20, 0x01, 0x0d, 0xb8, 0, 1, 0, 2, 0, 3, 0, 4, 0, 5, 0, 6];
const DST6: [u8; 16] = [0xfe, 0x80, 0, 0, 0, 0, 0, 0, 0x11, 0x22, 0x33, 0x44, 0x55, 0x66, 0x77, 0x88];
const SP: u16 = 1000;
const DP: u16 = 2000;
const SEQ: u32 = 0x0102_0304;
const WIN: u16 = 4096;

/// TCP header bytes for TcpHeader::new(SP, DP, SEQ, WIN) with `opt` raw option bytes, checksum 0
fn ref_tcp_hdr(opts: &[u8]) -> Vec<u8> {
    let padded = (opts.len() + 3) / 4 * 4;
    let mut v = Vec::with_capacity(20 + padded);
    v.extend_from_slice(&SP.to_be_bytes());
    v.extend_from_slice(&DP.to_be_bytes());
    v.extend_from_slice(&SEQ.to_be_bytes());
    v.extend_from_slice(&0u32.to_be_bytes());
    v.push((((20 + padded) / 4) as u8) << 4);
    v.push(0);
    v.extend_from_slice(&WIN.to_be_bytes());
    v.extend_from_slice(&[0, 0, 0, 0]);
    v.extend_from_slice(opts);
    v.resize(20 + padded, 0);
    v
}
fn ref_ipv4_hdr() -> [u8; 20] {
    let mut b = [0u8; 20];
    b[0] = 0x45;
    b[3] = 20;
    b[8] = 64;
    b[9] = 6;
    b[12..16].copy_from_slice(&SRC4);
    b[16..20].copy_from_slice(&DST4);
    b
}
fn ref_ipv6_hdr() -> [u8; 40] {
    let mut b = [0u8; 40];
    b[0] = 0x60;
    b[6] = 6;
    b[7] = 64;
    b[8..24].copy_from_slice(&SRC6);
    b[24..40].copy_from_slice(&DST6);
    b
}

// ---- API alphabet ----------------------------------------------------------------------------

#[derive(Clone, Debug)]
enum Api {
    Ipv4New,
    Ipv4SetPayloadLen { opt: usize },
    Ipv6SetPayloadLength,
    IpHeadersSet { v6: bool, opt: usize, ext: u8 },
    UdpWithout,
    UdpWith { v6: bool },
    UdpCalc { v6: bool, raw: bool },
    TcpCalc { v6: bool, raw: bool, opt: usize, slice: bool },
    TcpSliceCalc { v6: bool, opt: usize },
    /// f: 0 calc_checksum, 1 with_checksum, 2 update_checksum, 3 to_header; ty: 0 echo request, 1 packet too big
    Icmp6 { f: u8, ty: u8 },
    MacsecSet { ptype: u8, sci: bool },
    MacsecFromLen,
    MacsecTryFrom,
    AuthNew,
    AuthSet,
    RawExtNew,
    RawExtSet,
    Ipv4OptTryFrom,
    Ipv4SetOptions,
    /// via: 0 try_from_slice, 1 TryFrom<&[u8]>, 2 TcpHeader::set_options_raw, 3 builder options_raw
    TcpOptRaw { via: u8 },
    /// via: 0 try_from_elements, 1 TryFrom<&[TcpOptionElement]>, 2 TcpHeader::set_options, 3 builder options
    TcpOptElems { via: u8, mix: u8 },
    /// which: 0 hw=len, 1 proto=len, 2 both=len, 3 hw sender=len target=len+1, 4 proto sender=len target=len+1
    ArpNew { which: u8 },
    ArpSetHw { mismatch: bool },
    ArpSetProto { mismatch: bool },
    Builder { link: u8, net: u8, tr: u8, w: u8 },
}

/// domain of the length argument
#[derive(Clone, Copy, PartialEq)]
enum Dom {
    U8,
    U16,
    /// a usize number (no memory behind it): also sampled just below 2^64
    Value,
    /// a slice: limited by the mapping (quick: 70000, thorough: 2^32 + 1024)
    Slice,
    /// a slice / element list that must really be materialised: 2^16 + 1024
    Small,
}

struct Meta {
    name: &'static str,
    variant: String,
    family: &'static str,
    dom: Dom,
    /// true maxima of this API (sampled ±2)
    limits: Vec<u128>,
}

const BUILDER_NAMES: [[&str; 3]; 6] = [
    ["PacketBuilderStep<UdpHeader>::write", "PacketBuilderStep<UdpHeader>::write_to_vec", "PacketBuilderStep<UdpHeader>::write_to_slice"],
    ["PacketBuilderStep<TcpHeader>::write", "PacketBuilderStep<TcpHeader>::write_to_vec", "PacketBuilderStep<TcpHeader>::write_to_slice"],
    ["PacketBuilderStep<TcpHeader>::write", "PacketBuilderStep<TcpHeader>::write_to_vec", "PacketBuilderStep<TcpHeader>::write_to_slice"],
    ["PacketBuilderStep<Icmpv4Header>::write", "PacketBuilderStep<Icmpv4Header>::write_to_vec", "PacketBuilderStep<Icmpv4Header>::write_to_slice"],
    ["PacketBuilderStep<Icmpv6Header>::write", "PacketBuilderStep<Icmpv6Header>::write_to_vec", "PacketBuilderStep<Icmpv6Header>::write_to_slice"],
    ["PacketBuilderStep<IpHeaders>::write", "PacketBuilderStep<IpHeaders>::write_to_vec", "PacketBuilderStep<IpHeaders>::write_to_slice"],
];

const U16M: u128 = 65535;
const U32M: u128 = (1u128 << 32) - 1;

/// sizes of the extension header sets used with `IpHeaders::set_payload_len` (computed by hand:
/// AH = 12 + icv, fragment = 8, raw ext = 2 + payload)
fn ext4_len(ext: u8) -> usize {
    match ext {
        0 => 0,
        1 => 12,      // AH, empty ICV
        _ => 12 + 12, // AH, 12 byte ICV
    }
}
fn ext6_len(ext: u8) -> usize {
    match ext {
        0 => 0,
        1 => 8,                          // fragment
        2 => 8 + 8,                      // hop-by-hop(6) + fragment
        _ => 16 + 8 + 8 + 8 + 8 + 12 + 4, // hbh(14) dest(6) routing(6) final dest(6) fragment AH(icv 4)
    }
}
fn ext4(ext: u8) -> Ipv4Extensions {
    match ext {
        0 => Ipv4Extensions { auth: None },
        1 => Ipv4Extensions { auth: Some(IpAuthHeader::new(IpNumber::UDP, 1, 2, &[]).unwrap()) },
        _ => Ipv4Extensions { auth: Some(IpAuthHeader::new(IpNumber::UDP, 1, 2, &[9; 12]).unwrap()) },
    }
}
fn ext6(ext: u8) -> Ipv6Extensions {
    let raw = |n: usize| Ipv6RawExtHeader::new_raw(IpNumber::UDP, &vec![0u8; n]).unwrap();
    let frag = Ipv6FragmentHeader::new(IpNumber::UDP, IpFragOffset::try_new(0).unwrap(), false, 77);
    match ext {
        0 => Default::default(),
        1 => Ipv6Extensions { fragment: Some(frag), ..Default::default() },
        2 => Ipv6Extensions { hop_by_hop_options: Some(raw(6)), fragment: Some(frag), ..Default::default() },
        _ => Ipv6Extensions {
            hop_by_hop_options: Some(raw(14)),
            destination_options: Some(raw(6)),
            routing: Some(Ipv6RoutingExtensions { routing: raw(6), final_destination_options: Some(raw(6)) }),
            fragment: Some(frag),
            auth: Some(IpAuthHeader::new(IpNumber::UDP, 1, 2, &[9; 4]).unwrap()),
        },
    }
}

// ---- builder stacks --------------------------------------------------------------------------

const LINK_LEN: [usize; 5] = [0, 14, 14 + 4, 14 + 8, 16];
const LINK_NAME: [&str; 5] = ["none", "eth", "eth+vlan", "eth+qinq", "sll"];
const N_NET: u8 = 6;
/// (is v6, ip header length incl. options, extension header bytes)
fn net_dims(net: u8) -> (bool, usize, usize) {
    match net {
        0 => (false, 20, 0),
        1 => (true, 40, 0),
        2 => (false, 20 + 8, 12 + 4),      // 8 option bytes, AH with 4 byte ICV
        3 => (true, 40, 8),                // fragment header
        4 => (true, 40, 8 + 12 + 12),      // hop-by-hop(6) + AH with 12 byte ICV
        _ => (false, 20 + 40, 12 + 1016),  // 40 option bytes, AH with the largest ICV
    }
}
const NET_NAME: [&str; 6] = ["ipv4", "ipv6", "ipv4+opt8+ah4", "ipv6+frag", "ipv6+hbh+ah12", "ipv4+opt40+ah1016"];
fn net_headers(net: u8) -> IpHeaders {
    let v4 = |opt: usize, icv: usize| {
        let mut h = Ipv4Header::new(0, 64, IpNumber::UDP, SRC4, DST4).unwrap();
        h.options = Ipv4Options::try_from(&vec![1u8; opt][..]).unwrap();
        IpHeaders::Ipv4(h, Ipv4Extensions { auth: Some(IpAuthHeader::new(IpNumber::UDP, 1, 2, &vec![7u8; icv]).unwrap()) })
    };
    let v6h = Ipv6Header { hop_limit: 64, source: SRC6, destination: DST6, ..Default::default() };
    match net {
        2 => v4(8, 4),
        3 => IpHeaders::Ipv6(v6h, ext6(1)),
        4 => IpHeaders::Ipv6(
            v6h,
            Ipv6Extensions {
                hop_by_hop_options: Some(Ipv6RawExtHeader::new_raw(IpNumber::UDP, &[0; 6]).unwrap()),
                auth: Some(IpAuthHeader::new(IpNumber::UDP, 1, 2, &[7; 12]).unwrap()),
                ..Default::default()
            },
        ),
        _ => v4(40, 1016),
    }
}
/// transport kinds: 0 udp, 1 tcp, 2 tcp + 8 option bytes, 3 icmpv4 echo, 4 icmpv6 echo, 5 none (raw write)
const TR_LEN: [usize; 6] = [8, 20, 28, 8, 8, 0];
const TR_NAME: [&str; 6] = ["udp", "tcp", "tcp+opt8", "icmpv4", "icmpv6", "raw"];
const TCPOPT8: [u8; 8] = [2, 4, 5, 0xb4, 1, 3, 3, 7];
const W_NAME: [&str; 3] = ["write", "write_to_vec", "write_to_slice"];

impl Api {
    fn meta(&self) -> Meta {
        use Api::*;
        let m = |name: &'static str, variant: String, family: &'static str, dom: Dom, limits: Vec<u128>| Meta { name, variant, family, dom, limits };
        match self {
            Ipv4New => m("Ipv4Header::new", String::new(), "ipv4", Dom::U16, vec![U16M - 20]),
            Ipv4SetPayloadLen { opt } => m("Ipv4Header::set_payload_len", format!("options={}", opt), "ipv4", Dom::Value, vec![U16M - 20 - *opt as u128]),
            Ipv6SetPayloadLength => m("Ipv6Header::set_payload_length", String::new(), "ipv6", Dom::Value, vec![U16M]),
            IpHeadersSet { v6, opt, ext } => {
                let (hl, el) = if *v6 { (0, ext6_len(*ext)) } else { (20 + opt, ext4_len(*ext)) };
                m("IpHeaders::set_payload_len", format!("{} options={} ext-set={} ({} bytes)", if *v6 { "v6" } else { "v4" }, opt, ext, el), "ip_headers", Dom::Value, vec![U16M - hl as u128 - el as u128])
            }
            UdpWithout => m("UdpHeader::without_ipv4_checksum", String::new(), "udp", Dom::Value, vec![U16M - 8]),
            UdpWith { v6 } => m(if *v6 { "UdpHeader::with_ipv6_checksum" } else { "UdpHeader::with_ipv4_checksum" }, String::new(), "udp", Dom::Slice, vec![U16M - 8]),
            UdpCalc { v6, raw } => m(
                match (*v6, *raw) {
                    (false, false) => "UdpHeader::calc_checksum_ipv4",
                    (false, true) => "UdpHeader::calc_checksum_ipv4_raw",
                    (true, false) => "UdpHeader::calc_checksum_ipv6",
                    (true, true) => "UdpHeader::calc_checksum_ipv6_raw",
                },
                String::new(),
                "udp",
                Dom::Slice,
                vec![if *v6 { U32M - 8 } else { U16M - 8 }],
            ),
            TcpCalc { v6, raw, opt, slice } => m(
                match (*slice, *v6, *raw) {
                    (false, false, false) => "TcpHeader::calc_checksum_ipv4",
                    (false, false, true) => "TcpHeader::calc_checksum_ipv4_raw",
                    (false, true, false) => "TcpHeader::calc_checksum_ipv6",
                    (false, true, true) => "TcpHeader::calc_checksum_ipv6_raw",
                    (true, false, false) => "TcpHeaderSlice::calc_checksum_ipv4",
                    (true, false, true) => "TcpHeaderSlice::calc_checksum_ipv4_raw",
                    (true, true, false) => "TcpHeaderSlice::calc_checksum_ipv6",
                    (true, true, true) => "TcpHeaderSlice::calc_checksum_ipv6_raw",
                },
                format!("options={}", opt),
                "tcp",
                Dom::Slice,
                vec![(if *v6 { U32M } else { U16M }) - 20 - *opt as u128],
            ),
            TcpSliceCalc { v6, opt } => m(
                if *v6 { "TcpSlice::calc_checksum_ipv6" } else { "TcpSlice::calc_checksum_ipv4" },
                format!("options={}", opt),
                "tcp",
                Dom::Slice,
                vec![(if *v6 { U32M } else { U16M }) - 20 - *opt as u128],
            ),
            Icmp6 { f, ty } => m(
                ["Icmpv6Type::calc_checksum", "Icmpv6Header::with_checksum", "Icmpv6Header::update_checksum", "Icmpv6Type::to_header"][*f as usize],
                (if *ty == 0 { "EchoRequest" } else { "PacketTooBig" }).to_string(),
                "icmpv6",
                Dom::Slice,
                vec![U32M - 8],
            ),
            MacsecSet { ptype, sci } => m(
                "MacsecHeader::set_payload_len",
                format!("ptype={} sci={}", ["Unmodified", "Modified", "Encrypted", "EncryptedUnmodified"][*ptype as usize], sci),
                "macsec",
                Dom::Value,
                vec![if *ptype == 0 { 61 } else { 63 }],
            ),
            MacsecFromLen => m("MacsecShortLen::from_len", String::new(), "macsec", Dom::Value, vec![63]),
            MacsecTryFrom => m("MacsecShortLen::try_from", String::new(), "macsec", Dom::U8, vec![63]),
            AuthNew => m("IpAuthHeader::new", String::new(), "auth", Dom::Slice, vec![1016]),
            AuthSet => m("IpAuthHeader::set_raw_icv", String::new(), "auth", Dom::Slice, vec![1016]),
            RawExtNew => m("Ipv6RawExtHeader::new_raw", String::new(), "raw_ext", Dom::Slice, vec![2046]),
            RawExtSet => m("Ipv6RawExtHeader::set_payload", String::new(), "raw_ext", Dom::Slice, vec![2046]),
            Ipv4OptTryFrom => m("Ipv4Options::try_from", String::new(), "ipv4_options", Dom::Slice, vec![40]),
            Ipv4SetOptions => m("Ipv4Header::set_options", String::new(), "ipv4_options", Dom::Slice, vec![40]),
            TcpOptRaw { via } => m(
                ["TcpOptions::try_from_slice", "TcpOptions::try_from(&[u8])", "TcpHeader::set_options_raw", "PacketBuilderStep<TcpHeader>::options_raw"][*via as usize],
                String::new(),
                "tcp_options",
                Dom::Slice,
                vec![40],
            ),
            TcpOptElems { via, mix } => m(
                ["TcpOptions::try_from_elements", "TcpOptions::try_from(&[TcpOptionElement])", "TcpHeader::set_options", "PacketBuilderStep<TcpHeader>::options"][*via as usize],
                format!("element mix {}", mix),
                "tcp_options",
                Dom::Small,
                vec![40],
            ),
            ArpNew { which } => m("ArpPacket::new", ["hw=len", "proto=len", "hw=proto=len", "hw sender=len target=len+1", "proto sender=len target=len+1"][*which as usize].to_string(), "arp", Dom::Slice, vec![255]),
            ArpSetHw { mismatch } => m("ArpPacket::set_hw_addrs", if *mismatch { "target=len+1".into() } else { String::new() }, "arp", Dom::Slice, vec![255]),
            ArpSetProto { mismatch } => m("ArpPacket::set_protocol_addrs", if *mismatch { "target=len+1".into() } else { String::new() }, "arp", Dom::Slice, vec![255]),
            Builder { link, net, tr, w } => {
                let (_v6, ihl, el) = net_dims(*net);
                let counted = if net_dims(*net).0 { 0 } else { ihl };
                m(
                    BUILDER_NAMES[*tr as usize][*w as usize],
                    format!("link={} net={} transport={}", LINK_NAME[*link as usize], NET_NAME[*net as usize], TR_NAME[*tr as usize]),
                    "builder",
                    if *w == 0 { Dom::Slice } else { Dom::Small },
                    vec![U16M - counted as u128 - el as u128 - TR_LEN[*tr as usize] as u128],
                )
            }
        }
    }
}

fn apis() -> Vec<Api> {
    use Api::*;
    let mut v = vec![Ipv4New];
    for opt in [0usize, 4, 20, 40] {
        v.push(Ipv4SetPayloadLen { opt });
    }
    v.push(Ipv6SetPayloadLength);
    for opt in [0usize, 8, 40] {
        for ext in 0..3u8 {
            v.push(IpHeadersSet { v6: false, opt, ext });
        }
    }
    for ext in 0..4u8 {
        v.push(IpHeadersSet { v6: true, opt: 0, ext });
    }
    v.push(UdpWithout);
    for v6 in [false, true] {
        v.push(UdpWith { v6 });
        for raw in [false, true] {
            v.push(UdpCalc { v6, raw });
        }
    }
    for slice in [false, true] {
        for v6 in [false, true] {
            for raw in [false, true] {
                for opt in [0usize, 4, 40] {
                    v.push(TcpCalc { v6, raw, opt, slice });
                }
            }
        }
    }
    for v6 in [false, true] {
        for opt in [0usize, 4, 40] {
            v.push(TcpSliceCalc { v6, opt });
        }
    }
    for f in 0..4u8 {
        for ty in 0..2u8 {
            v.push(Icmp6 { f, ty });
        }
    }
    for ptype in 0..4u8 {
        for sci in [false, true] {
            v.push(MacsecSet { ptype, sci });
        }
    }
    v.extend([MacsecFromLen, MacsecTryFrom, AuthNew, AuthSet, RawExtNew, RawExtSet, Ipv4OptTryFrom, Ipv4SetOptions]);
    for via in 0..4u8 {
        v.push(TcpOptRaw { via });
    }
    for via in 0..4u8 {
        for mix in 0..3u8 {
            v.push(TcpOptElems { via, mix });
        }
    }
    for which in 0..5u8 {
        v.push(ArpNew { which });
    }
    for mismatch in [false, true] {
        v.push(ArpSetHw { mismatch });
        v.push(ArpSetProto { mismatch });
    }
    for link in 0..5u8 {
        for net in 0..N_NET {
            for tr in 0..6u8 {
                for w in 0..3u8 {
                    v.push(Builder { link, net, tr, w });
                }
            }
        }
    }
    v
}

// ---- length alphabet -------------------------------------------------------------------------

/// header sizes subtracted from 2^16 (8 UDP/ICMP/fragment, 12 AH, 20 IPv4/TCP, 20+options, 40 IPv6, 40+ext, 60 ...)
const HS16: [u128; 15] = [8, 12, 16, 20, 24, 28, 32, 36, 40, 44, 48, 60, 68, 80, 100];
/// header sizes subtracted from 2^32
const HS32: [u128; 6] = [8, 20, 24, 28, 40, 60];

/// Accepted lengths next to 2^32 cost a 4 GiB checksum each (about a second). The variants that only
/// differ in something unrelated to the 32 bit limit (4 option bytes instead of 0/40, second ICMPv6 type
/// through the three wrappers of calc_checksum) are sampled up to 70000 bytes only.
fn skip_4g(api: &Api) -> bool {
    match api {
        Api::TcpCalc { v6: true, opt: 4, .. } | Api::TcpSliceCalc { v6: true, opt: 4 } => true,
        Api::Icmp6 { f, ty: 1 } => *f != 0,
        _ => false,
    }
}

fn lens(api: &Api, meta: &Meta, thorough: bool) -> Vec<u64> {
    let thorough = thorough && !(meta.dom == Dom::Slice && skip_4g(api));
    let cap: u128 = match meta.dom {
        Dom::U8 => 255,
        Dom::U16 => 65535,
        Dom::Value => u64::MAX as u128,
        Dom::Slice => {
            if thorough {
                (1u128 << 32) + 1024
            } else {
                70000
            }
        }
        Dom::Small => 65536 + 1024,
    };
    // alignment units, small field limits, powers of two
    let mut ls: Vec<u128> = vec![4, 8, 6, 14, 40, 44, 48, 61, 63, 64, 255, 256, 1016, 1020, 1024, 1028, 2046, 2048, 2054, 65535, 65536];
    for h in HS16 {
        ls.push(65536 - h);
        ls.push(65535 - h);
    }
    if thorough {
        ls.push(1u128 << 32);
        for h in HS32 {
            ls.push((1u128 << 32) - h);
        }
    }
    if meta.dom == Dom::Value {
        ls.push(1u128 << 64);
    }
    ls.extend(meta.limits.iter().copied());
    let mut out: Vec<u128> = vec![0, 1, 2];
    for l in ls {
        for d in 0..5u128 {
            if l + d >= 2 {
                out.push(l + d - 2);
            }
        }
    }
    out.retain(|x| *x <= cap);
    out.sort();
    out.dedup();
    out.into_iter().map(|x| x as u64).collect()
}

// ---- oracle helpers --------------------------------------------------------------------------

struct Run<'a> {
    name: &'static str,
    variant: &'a str,
    len: u64,
}
impl<'a> Run<'a> {
    fn fail(&self, case: &mut Case, clause: &str, detail: String) {
        case.fail(format!("{}:{}", self.name, clause), format!("{} [{}] length {}: {}", self.name, self.variant, self.len, detail));
    }
    /// Ok/Err decision + error fields. `got`: Ok(()) or Err((actual, max_allowed)).
    /// `offs`: header sizes that the API may have added to both numbers (0 = the given length and
    /// its true maximum, the full sum = resulting field value and field maximum).
    /// Some(true) = correctly accepted, Some(false) = correctly rejected, None = violation reported.
    fn judge(&self, case: &mut Case, max: u128, offs: &[u128], got: Result<(), (u128, u128)>) -> Option<bool> {
        let given = self.len as u128;
        match got {
            Ok(()) => {
                if given > max {
                    self.fail(case, "accepts-out-of-range", format!("returned Ok although the true maximum is {}", max));
                    None
                } else {
                    Some(true)
                }
            }
            Err((a, m)) => {
                if given <= max {
                    self.fail(case, "rejects-in-range", format!("returned Err{{actual:{}, max_allowed:{}}} although the true maximum is {}", a, m, max));
                    None
                } else if a > m && offs.iter().any(|c| a == given + c && m == max + c) {
                    Some(false)
                } else {
                    self.fail(
                        case,
                        "error-fields",
                        format!("Err{{actual:{}, max_allowed:{}}} does not describe the overshoot: expected (given, max) = ({}, {}) plus one of the header offsets {:?} on both", a, m, given, max, offs),
                    );
                    None
                }
            }
        }
    }
    fn panic(&self, case: &mut Case, msg: &str) {
        self.fail(case, "panic", format!("panicked: {}", msg));
    }
}

fn vtb(e: err::ValueTooBigError<usize>) -> (u128, u128) {
    (e.actual as u128, e.max_allowed as u128)
}

/// unwrap a guarded call: a panic is a violation
macro_rules! call {
    ($run:expr, $case:expr, $e:expr) => {{
        $case.at($run.name);
        $case.eval();
        match guarded(|| $e) {
            Ok(v) => v,
            Err(p) => {
                $run.panic($case, &p);
                return None;
            }
        }
    }};
}

// ---- runners: IP length fields ---------------------------------------------------------------

fn differs_outside(a: &[u8], b: &[u8], lo: usize, hi: usize) -> bool {
    a.len() != b.len() || a.iter().zip(b.iter()).enumerate().any(|(i, (x, y))| (i < lo || i >= hi) && x != y)
}

fn run_ipv4_new(run: &Run, case: &mut Case) -> Option<bool> {
    let v = run.len as u16;
    let r = call!(run, case, Ipv4Header::new(v, 64, IpNumber::UDP, SRC4, DST4));
    let acc = run.judge(case, U16M - 20, &[0, 20], r.as_ref().map(|_| ()).map_err(|e| (e.actual as u128, e.max_allowed as u128)))?;
    if let Ok(h) = r {
        let b = h.to_bytes();
        if b.len() != 20 || b[0] != 0x45 || be16(&b, 2) != 20 + run.len {
            run.fail(case, "encoded-field-wrong", format!("total length field decodes to {} (expected {}), bytes {}", be16(&b, 2), 20 + run.len, hex(&b)));
            return None;
        }
    }
    Some(acc)
}

fn run_ipv4_set(run: &Run, case: &mut Case, env: &Env, opt: usize) -> Option<bool> {
    let mut h = Ipv4Header::new(100, 64, IpNumber::UDP, SRC4, DST4).unwrap();
    h.options = Ipv4Options::try_from(&env.pat[..opt]).unwrap();
    h.identification = 0x1234;
    let before = h.clone();
    let before_b = before.to_bytes();
    let max = U16M - 20 - opt as u128;
    let stated = call!(run, case, h.max_payload_len());
    if stated as u128 != max {
        case.fail("Ipv4Header::max_payload_len:stated-maximum-wrong", format!("max_payload_len() with {} option bytes is {}, the total length field allows {}", opt, stated, max));
        return None;
    }
    let r = call!(run, case, h.set_payload_len(run.len as usize));
    let acc = run.judge(case, max, &[0, 20 + opt as u128], r.map_err(vtb))?;
    if acc {
        let b = h.to_bytes();
        let want = 20 + opt as u64 + run.len;
        if be16(&b, 2) != want || differs_outside(&b, &before_b, 2, 4) {
            run.fail(case, "encoded-field-wrong", format!("total length field decodes to {} (expected {}); before {} after {}", be16(&b, 2), want, hex(&before_b), hex(&b)));
            return None;
        }
    } else if h != before || h.to_bytes() != before_b {
        run.fail(case, "changed-on-reject", format!("header changed by the rejected call: before {} after {}", hex(&before_b), hex(&h.to_bytes())));
        return None;
    }
    Some(acc)
}

fn run_ipv6_set(run: &Run, case: &mut Case) -> Option<bool> {
    let mut h = Ipv6Header { traffic_class: 3, payload_length: 77, next_header: IpNumber::UDP, hop_limit: 64, source: SRC6, destination: DST6, ..Default::default() };
    let before = h.clone();
    let before_b = before.to_bytes();
    let r = call!(run, case, h.set_payload_length(run.len as usize));
    let acc = run.judge(case, U16M, &[0], r.map_err(vtb))?;
    if acc {
        let b = h.to_bytes();
        if be16(&b, 4) != run.len || differs_outside(&b, &before_b, 4, 6) {
            run.fail(case, "encoded-field-wrong", format!("payload length field decodes to {} (expected {}); before {} after {}", be16(&b, 4), run.len, hex(&before_b), hex(&b)));
            return None;
        }
    } else if h != before || h.to_bytes() != before_b {
        run.fail(case, "changed-on-reject", format!("header changed by the rejected call: before {} after {}", hex(&before_b), hex(&h.to_bytes())));
        return None;
    }
    Some(acc)
}

fn run_ip_headers_set(run: &Run, case: &mut Case, env: &Env, v6: bool, opt: usize, ext: u8) -> Option<bool> {
    let (mut h, hl, el) = if v6 {
        let ip = Ipv6Header { payload_length: 77, next_header: IpNumber::UDP, hop_limit: 64, source: SRC6, destination: DST6, ..Default::default() };
        (IpHeaders::Ipv6(ip, ext6(ext)), 0usize, ext6_len(ext))
    } else {
        let mut ip = Ipv4Header::new(100, 64, IpNumber::UDP, SRC4, DST4).unwrap();
        ip.options = Ipv4Options::try_from(&env.pat[..opt]).unwrap();
        (IpHeaders::Ipv4(ip, ext4(ext)), 20 + opt, ext4_len(ext))
    };
    let before = h.clone();
    let ser = |h: &IpHeaders| -> Vec<u8> {
        match h {
            IpHeaders::Ipv4(ip, _) => ip.to_bytes().to_vec(),
            IpHeaders::Ipv6(ip, _) => ip.to_bytes().to_vec(),
        }
    };
    let before_b = ser(&before);
    let max = U16M - hl as u128 - el as u128;
    let r = call!(run, case, h.set_payload_len(run.len as usize));
    let offs = [0, el as u128, (el + hl) as u128];
    let acc = run.judge(case, max, &offs, r.map_err(vtb))?;
    if acc {
        let b = ser(&h);
        let (at, want) = if v6 { (4, el as u64 + run.len) } else { (2, (hl + el) as u64 + run.len) };
        if be16(&b, at) != want || differs_outside(&b, &before_b, at, at + 2) {
            run.fail(case, "encoded-field-wrong", format!("length field decodes to {} (expected {} = headers counted by the field + extension headers {} + given length); before {} after {}", be16(&b, at), want, el, hex(&before_b), hex(&b)));
            return None;
        }
        // the extension headers must not have been touched
        let mut exp = before.clone();
        match (&mut exp, &h) {
            (IpHeaders::Ipv4(a, _), IpHeaders::Ipv4(b, _)) => a.total_len = b.total_len,
            (IpHeaders::Ipv6(a, _), IpHeaders::Ipv6(b, _)) => a.payload_length = b.payload_length,
            _ => {}
        }
        if exp != h {
            run.fail(case, "encoded-field-wrong", "something besides the length field changed".into());
            return None;
        }
    } else if h != before || ser(&h) != before_b {
        run.fail(case, "changed-on-reject", format!("headers changed by the rejected call: before {} after {}", hex(&before_b), hex(&ser(&h))));
        return None;
    }
    Some(acc)
}

// ---- runners: UDP ----------------------------------------------------------------------------

fn ref_udp_checksum(env: &Env, v6: bool, length_field: u64, len: u64) -> u16 {
    let mut a = if v6 { pseudo6(SRC6, DST6, 17, length_field) } else { pseudo4(SRC4, DST4, 17, length_field) };
    a += SP as u64 + DP as u64 + length_field;
    a += env.payload_sum(len);
    let c = fold(a);
    if c == 0 {
        0xffff
    } else {
        c
    }
}

fn run_udp_without(run: &Run, case: &mut Case) -> Option<bool> {
    let r = call!(run, case, UdpHeader::without_ipv4_checksum(SP, DP, run.len as usize));
    let acc = run.judge(case, U16M - 8, &[0, 8], r.as_ref().map(|_| ()).map_err(|e| vtb(e.clone())))?;
    if let Ok(h) = r {
        let b = h.to_bytes();
        if be16(&b, 0) != SP as u64 || be16(&b, 2) != DP as u64 || be16(&b, 4) != 8 + run.len || be16(&b, 6) != 0 {
            run.fail(case, "encoded-field-wrong", format!("UDP length field decodes to {} (expected {}), bytes {}", be16(&b, 4), 8 + run.len, hex(&b)));
            return None;
        }
    }
    Some(acc)
}

fn run_udp_with(run: &Run, case: &mut Case, env: &Env, v6: bool) -> Option<bool> {
    let payload = env.payload(run.len);
    let r = if v6 {
        let ip = Ipv6Header { source: SRC6, destination: DST6, ..Default::default() };
        call!(run, case, UdpHeader::with_ipv6_checksum(SP, DP, &ip, payload))
    } else {
        let ip = Ipv4Header::new(0, 64, IpNumber::UDP, SRC4, DST4).unwrap();
        call!(run, case, UdpHeader::with_ipv4_checksum(SP, DP, &ip, payload))
    };
    let acc = run.judge(case, U16M - 8, &[0, 8], r.as_ref().map(|_| ()).map_err(|e| vtb(e.clone())))?;
    if let Ok(h) = r {
        let b = h.to_bytes();
        let want = ref_udp_checksum(env, v6, 8 + run.len, run.len);
        if be16(&b, 4) != 8 + run.len || be16(&b, 0) != SP as u64 || be16(&b, 2) != DP as u64 {
            run.fail(case, "encoded-field-wrong", format!("UDP length field decodes to {} (expected {}), bytes {}", be16(&b, 4), 8 + run.len, hex(&b)));
            return None;
        }
        if be16(&b, 6) != want as u64 {
            run.fail(case, "pseudo-header-length-wrong", format!("checksum {:#06x}, the reference with UDP length {} in the pseudo header gives {:#06x}", be16(&b, 6), 8 + run.len, want));
            return None;
        }
    }
    Some(acc)
}

fn run_udp_calc(run: &Run, case: &mut Case, env: &Env, v6: bool, raw: bool) -> Option<bool> {
    let payload = env.payload(run.len);
    let consistent = 8 + run.len <= 65535;
    let h = UdpHeader { source_port: SP, destination_port: DP, length: if consistent { (8 + run.len) as u16 } else { 0 }, checksum: 0 };
    let r = match (v6, raw) {
        (false, false) => {
            let ip = Ipv4Header::new(0, 64, IpNumber::UDP, SRC4, DST4).unwrap();
            call!(run, case, h.calc_checksum_ipv4(&ip, payload))
        }
        (false, true) => call!(run, case, h.calc_checksum_ipv4_raw(SRC4, DST4, payload)),
        (true, false) => {
            let ip = Ipv6Header { source: SRC6, destination: DST6, ..Default::default() };
            call!(run, case, h.calc_checksum_ipv6(&ip, payload))
        }
        (true, true) => call!(run, case, h.calc_checksum_ipv6_raw(SRC6, DST6, payload)),
    };
    let max = if v6 { U32M - 8 } else { U16M - 8 };
    let acc = run.judge(case, max, &[0, 8], r.as_ref().map(|_| ()).map_err(|e| vtb(e.clone())))?;
    if let (Ok(c), true) = (r, consistent) {
        let want = ref_udp_checksum(env, v6, 8 + run.len, run.len);
        if c != want {
            run.fail(case, "pseudo-header-length-wrong", format!("checksum {:#06x}, the reference with UDP length {} gives {:#06x}", c, 8 + run.len, want));
            return None;
        }
    }
    Some(acc)
}

// ---- runners: TCP ----------------------------------------------------------------------------

fn ref_tcp_checksum(env: &Env, v6: bool, hdr: &[u8], len: u64) -> u16 {
    let tl = hdr.len() as u64 + len;
    let a = if v6 { pseudo6(SRC6, DST6, 6, tl) } else { pseudo4(SRC4, DST4, 6, tl) };
    fold(wsum(a, hdr) + env.payload_sum(len))
}

fn run_tcp_calc(run: &Run, case: &mut Case, env: &Env, v6: bool, raw: bool, opt: usize, slice: bool) -> Option<bool> {
    let payload = env.payload(run.len);
    let hdr = ref_tcp_hdr(&env.pat[..opt]);
    let r = if slice {
        let s = TcpHeaderSlice::from_slice(&hdr).unwrap();
        match (v6, raw) {
            (false, false) => {
                let ipb = ref_ipv4_hdr();
                let ip = Ipv4HeaderSlice::from_slice(&ipb).unwrap();
                call!(run, case, s.calc_checksum_ipv4(&ip, payload))
            }
            (false, true) => call!(run, case, s.calc_checksum_ipv4_raw(SRC4, DST4, payload)),
            (true, false) => {
                let ipb = ref_ipv6_hdr();
                let ip = Ipv6HeaderSlice::from_slice(&ipb).unwrap();
                call!(run, case, s.calc_checksum_ipv6(&ip, payload))
            }
            (true, true) => call!(run, case, s.calc_checksum_ipv6_raw(SRC6, DST6, payload)),
        }
    } else {
        let mut h = TcpHeader::new(SP, DP, SEQ, WIN);
        if let Err(e) = h.set_options_raw(&env.pat[..opt]) {
            run.fail(case, "setup", format!("set_options_raw with {} bytes failed: {:?}", opt, e));
            return None;
        }
        match (v6, raw) {
            (false, false) => {
                let ip = Ipv4Header::new(0, 64, IpNumber::TCP, SRC4, DST4).unwrap();
                call!(run, case, h.calc_checksum_ipv4(&ip, payload))
            }
            (false, true) => call!(run, case, h.calc_checksum_ipv4_raw(SRC4, DST4, payload)),
            (true, false) => {
                let ip = Ipv6Header { source: SRC6, destination: DST6, ..Default::default() };
                call!(run, case, h.calc_checksum_ipv6(&ip, payload))
            }
            (true, true) => call!(run, case, h.calc_checksum_ipv6_raw(SRC6, DST6, payload)),
        }
    };
    let hl = hdr.len() as u128;
    let max = (if v6 { U32M } else { U16M }) - hl;
    let acc = run.judge(case, max, &[0, hl], r.as_ref().map(|_| ()).map_err(|e| vtb(e.clone())))?;
    if let Ok(c) = r {
        let want = ref_tcp_checksum(env, v6, &hdr, run.len);
        if c != want {
            run.fail(case, "pseudo-header-length-wrong", format!("checksum {:#06x}, the reference with TCP length {} in the pseudo header gives {:#06x}", c, hl as u64 + run.len, want));
            return None;
        }
    }
    Some(acc)
}

fn run_tcp_slice_calc(run: &Run, case: &mut Case, env: &Env, v6: bool, opt: usize) -> Option<bool> {
    let hdr = ref_tcp_hdr(&env.pat[..opt]);
    let buf = env.hdr_and_payload(&hdr, run.len);
    let s = match TcpSlice::from_slice(&buf) {
        Ok(s) => s,
        Err(e) => {
            run.fail(case, "setup", format!("TcpSlice::from_slice failed: {:?}", e));
            return None;
        }
    };
    let r = if v6 { call!(run, case, s.calc_checksum_ipv6(SRC6, DST6)) } else { call!(run, case, s.calc_checksum_ipv4(SRC4, DST4)) };
    let hl = hdr.len() as u128;
    let max = (if v6 { U32M } else { U16M }) - hl;
    let acc = run.judge(case, max, &[0, hl], r.as_ref().map(|_| ()).map_err(|e| vtb(e.clone())))?;
    if let Ok(c) = r {
        let want = ref_tcp_checksum(env, v6, &hdr, run.len);
        if c != want {
            run.fail(case, "pseudo-header-length-wrong", format!("checksum {:#06x}, the reference with TCP length {} in the pseudo header gives {:#06x}", c, hl as u64 + run.len, want));
            return None;
        }
    }
    Some(acc)
}

// ---- runners: ICMPv6 -------------------------------------------------------------------------

fn run_icmp6(run: &Run, case: &mut Case, env: &Env, f: u8, ty: u8) -> Option<bool> {
    let payload = env.payload(run.len);
    let (t, hb): (Icmpv6Type, [u8; 8]) = if ty == 0 {
        (Icmpv6Type::EchoRequest(IcmpEchoHeader { id: 0x1234, seq: 0x5678 }), [128, 0, 0, 0, 0x12, 0x34, 0x56, 0x78])
    } else {
        (Icmpv6Type::PacketTooBig { mtu: 1280 }, [2, 0, 0, 0, 0, 0, 5, 0])
    };
    let want = fold(wsum(pseudo6(SRC6, DST6, 58, 8 + run.len), &hb) + env.payload_sum(run.len));
    let max = U32M - 8;
    // (Ok(checksum as encoded) | Err)
    let (got, unchanged): (Result<u64, (u128, u128)>, bool) = match f {
        0 => (call!(run, case, t.calc_checksum(SRC6, DST6, payload)).map(|c| c as u64).map_err(vtb), true),
        1 => (call!(run, case, Icmpv6Header::with_checksum(t.clone(), SRC6, DST6, payload)).map(|h| be16(&h.to_bytes(), 2)).map_err(vtb), true),
        2 => {
            let mut h = Icmpv6Header { icmp_type: t.clone(), checksum: 0xabcd };
            let before = h.clone();
            let r = call!(run, case, h.update_checksum(SRC6, DST6, payload));
            let b = h.to_bytes();
            let same = h == before;
            if r.is_ok() && (b.len() != 8 || b[..2] != hb[..2] || b[4..8] != hb[4..8]) {
                run.fail(case, "encoded-field-wrong", format!("header bytes {} after update_checksum, expected type/code/rest of {}", hex(&b), hex(&hb)));
                return None;
            }
            (r.map(|_| be16(&b, 2)).map_err(vtb), same)
        }
        _ => (call!(run, case, t.clone().to_header(SRC6, DST6, payload)).map(|h| be16(&h.to_bytes(), 2)).map_err(vtb), true),
    };
    let acc = run.judge(case, max, &[0, 8], got.as_ref().map(|_| ()).map_err(|e| *e))?;
    match got {
        Ok(c) => {
            if c != want as u64 {
                run.fail(case, "pseudo-header-length-wrong", format!("checksum {:#06x}, the reference with upper-layer length {} in the pseudo header gives {:#06x}", c, 8 + run.len, want));
                return None;
            }
        }
        Err(_) => {
            if !unchanged {
                run.fail(case, "changed-on-reject", "header changed by the rejected update_checksum".into());
                return None;
            }
        }
    }
    Some(acc)
}

// ---- runners: MACsec -------------------------------------------------------------------------

fn run_macsec_set(run: &Run, case: &mut Case, ptype: u8, sci: bool) -> Option<bool> {
    let pt = match ptype {
        0 => MacsecPType::Unmodified(EtherType(0x88b5)),
        1 => MacsecPType::Modified,
        2 => MacsecPType::Encrypted,
        _ => MacsecPType::EncryptedUnmodified,
    };
    let adj: u64 = if ptype == 0 { 2 } else { 0 };
    let mut h = MacsecHeader {
        ptype: pt,
        endstation_id: false,
        scb: true,
        an: MacsecAn::try_new(2).unwrap(),
        short_len: MacsecShortLen::try_from_u8(5).unwrap(),
        packet_nr: 0x0a0b_0c0d,
        sci: if sci { Some(0x1122_3344_5566_7788) } else { None },
    };
    let before = h.clone();
    let before_b = before.to_bytes();
    call!(run, case, h.set_payload_len(run.len as usize));
    let b = h.to_bytes();
    let in_range = run.len as u128 + adj as u128 <= 63; // 6 bit field; it counts the ether type of an unmodified payload
    let want = if in_range { run.len + adj } else { 0 };
    let mut exp = before.clone();
    exp.short_len = h.short_len;
    if b.len() != before_b.len() || b[1] as u64 != want || differs_outside(&b, &before_b, 1, 2) || exp != h {
        run.fail(
            case,
            if in_range { "encoded-field-wrong" } else { "out-of-range-not-zero" },
            format!("short length byte is {:#04x}, expected {} ({}); before {} after {}", b[1], want, if in_range { "the given length (+2 for the ether type)" } else { "the documented 0 = unknown" }, hex(&before_b), hex(&b)),
        );
        return None;
    }
    Some(in_range)
}

fn run_macsec_from_len(run: &Run, case: &mut Case) -> Option<bool> {
    let v = call!(run, case, MacsecShortLen::from_len(run.len as usize));
    let in_range = run.len <= 63;
    let want = if in_range { run.len } else { 0 };
    let h = MacsecHeader { ptype: MacsecPType::Modified, endstation_id: false, scb: false, an: MacsecAn::try_new(0).unwrap(), short_len: v, packet_nr: 1, sci: None };
    let b = h.to_bytes();
    if v.value() as u64 != want || b[1] as u64 != want {
        run.fail(case, if in_range { "encoded-field-wrong" } else { "out-of-range-not-zero" }, format!("value() = {}, encoded byte {:#04x}, expected {}", v.value(), b[1], want));
        return None;
    }
    Some(in_range)
}

fn run_macsec_try_from(run: &Run, case: &mut Case) -> Option<bool> {
    let x = run.len as u8;
    let a = call!(run, case, MacsecShortLen::try_from(x));
    let b = call!(run, case, MacsecShortLen::try_from_u8(x));
    let mut acc = None;
    for r in [a, b] {
        acc = Some(run.judge(case, 63, &[0], r.as_ref().map(|_| ()).map_err(|e| (e.actual as u128, e.max_allowed as u128)))?);
        if let Ok(v) = r {
            if v.value() != x {
                run.fail(case, "encoded-field-wrong", format!("value() = {}", v.value()));
                return None;
            }
        }
    }
    acc
}

// ---- runners: AH, raw extension header, options ---------------------------------------------

fn run_auth(run: &Run, case: &mut Case, env: &Env, set: bool) -> Option<bool> {
    use err::ip_auth::IcvLenError;
    let data = env.payload(run.len);
    let ok_len = run.len % 4 == 0 && run.len <= 1016; // 8 bit "payload len" = (12 + icv)/4 - 2 <= 255
    let mut h = IpAuthHeader::new(IpNumber::UDP, 0x0102_0304, 0x0506_0708, &[0xEE; 8]).unwrap();
    let before = h.clone();
    let before_b = before.to_bytes();
    let r: Result<(), IcvLenError> = if set {
        call!(run, case, h.set_raw_icv(data))
    } else {
        call!(run, case, IpAuthHeader::new(IpNumber::UDP, 0x0102_0304, 0x0506_0708, data)).map(|n| h = n)
    };
    match r {
        Ok(()) => {
            if !ok_len {
                run.fail(case, "accepts-out-of-range", "returned Ok although the ICV must be a multiple of 4 and at most 1016 bytes".into());
                return None;
            }
            let b = h.to_bytes();
            if b.len() as u64 != 12 + run.len || b[1] as u64 != run.len / 4 + 1 || b[0] != 17 || b[2..12] != [0, 0, 1, 2, 3, 4, 5, 6, 7, 8] || &b[12..] != data {
                run.fail(case, "encoded-field-wrong", format!("serialised length {} payload-len byte {} (expected {} and {}), start {}", b.len(), b[1], 12 + run.len, run.len / 4 + 1, hex(&b[..12.min(b.len())])));
                return None;
            }
            Some(true)
        }
        Err(e) => {
            if ok_len {
                run.fail(case, "rejects-in-range", format!("returned {:?}", e));
                return None;
            }
            let good = match e {
                IcvLenError::TooBig(x) => x as u64 == run.len && run.len > 1016,
                IcvLenError::Unaligned(x) => x as u64 == run.len && run.len % 4 != 0,
            };
            if !good {
                run.fail(case, "error-fields", format!("{:?} does not describe the violated rule (given {}, maximum 1016, multiple of 4)", e, run.len));
                return None;
            }
            if set && (h != before || h.to_bytes() != before_b) {
                run.fail(case, "changed-on-reject", format!("header changed by the rejected call: before {} after {}", hex(&before_b), hex(&h.to_bytes())));
                return None;
            }
            Some(false)
        }
    }
}

fn run_raw_ext(run: &Run, case: &mut Case, env: &Env, set: bool) -> Option<bool> {
    use err::ipv6_exts::ExtPayloadLenError;
    let data = env.payload(run.len);
    let ok_len = run.len >= 6 && run.len <= 2046 && (run.len + 2) % 8 == 0; // 8 bit "hdr ext len" = (2 + payload)/8 - 1 <= 255
    let mut h = Ipv6RawExtHeader::new_raw(IpNumber::TCP, &[0xEE; 14]).unwrap();
    let before = h.clone();
    let before_b = before.to_bytes();
    let r: Result<(), ExtPayloadLenError> = if set {
        call!(run, case, h.set_payload(data))
    } else {
        call!(run, case, Ipv6RawExtHeader::new_raw(IpNumber::TCP, data)).map(|n| h = n)
    };
    match r {
        Ok(()) => {
            if !ok_len {
                run.fail(case, "accepts-out-of-range", "returned Ok although the payload must be 6..=2046 bytes with (len + 2) % 8 == 0".into());
                return None;
            }
            let b = h.to_bytes();
            if b.len() as u64 != 2 + run.len || b[1] as u64 != (run.len - 6) / 8 || b[0] != 6 || &b[2..] != data {
                run.fail(case, "encoded-field-wrong", format!("serialised length {} ext-len byte {} (expected {} and {})", b.len(), b[1], 2 + run.len, (run.len - 6) / 8));
                return None;
            }
            Some(true)
        }
        Err(e) => {
            if ok_len {
                run.fail(case, "rejects-in-range", format!("returned {:?}", e));
                return None;
            }
            let good = match e {
                ExtPayloadLenError::TooSmall(x) => x as u64 == run.len && run.len < 6,
                ExtPayloadLenError::TooBig(x) => x as u64 == run.len && run.len > 2046,
                ExtPayloadLenError::Unaligned(x) => x as u64 == run.len && (run.len + 2) % 8 != 0,
            };
            if !good {
                run.fail(case, "error-fields", format!("{:?} does not describe the violated rule (given {})", e, run.len));
                return None;
            }
            if set && (h != before || h.to_bytes() != before_b) {
                run.fail(case, "changed-on-reject", format!("header changed by the rejected call: before {} after {}", hex(&before_b), hex(&h.to_bytes())));
                return None;
            }
            Some(false)
        }
    }
}

#[allow(deprecated)]
fn run_ipv4_options(run: &Run, case: &mut Case, env: &Env, set: bool) -> Option<bool> {
    let data = env.payload(run.len);
    let ok_len = run.len <= 40 && run.len % 4 == 0; // 4 bit IHL <= 15 words, 5 of them fixed
    let mut h = Ipv4Header::new(10, 64, IpNumber::UDP, SRC4, DST4).unwrap();
    h.options = Ipv4Options::try_from(&[0xEEu8; 8][..]).unwrap();
    let before = h.clone();
    let before_b = before.to_bytes();
    let r: Result<(), err::ipv4::BadOptionsLen> = if set {
        call!(run, case, h.set_options(data))
    } else {
        call!(run, case, Ipv4Options::try_from(data)).map(|o| h.options = o)
    };
    match r {
        Ok(()) => {
            if !ok_len {
                run.fail(case, "accepts-out-of-range", "returned Ok although options must be a multiple of 4 and at most 40 bytes".into());
                return None;
            }
            let b = h.to_bytes();
            if b.len() as u64 != 20 + run.len || b[0] as u64 != 0x40 | (5 + run.len / 4) || &b[20..] != data {
                run.fail(case, "encoded-field-wrong", format!("serialised header {} (expected IHL {} and the given option bytes)", hex(&b), 5 + run.len / 4));
                return None;
            }
            Some(true)
        }
        Err(e) => {
            if ok_len {
                run.fail(case, "rejects-in-range", format!("returned {:?}", e));
                return None;
            }
            if e.bad_len as u64 != run.len {
                run.fail(case, "error-fields", format!("{:?} does not carry the given length", e));
                return None;
            }
            if set && (h != before || h.to_bytes() != before_b) {
                run.fail(case, "changed-on-reject", "header changed by the rejected call".into());
                return None;
            }
            Some(false)
        }
    }
}

// ---- runners: TCP options --------------------------------------------------------------------

/// decode the options area out of an encoded TCP header and compare with `want` (+ zero padding)
fn check_tcp_opts_encoded(run: &Run, case: &mut Case, b: &[u8], want: &[u8]) -> Option<()> {
    let exp = ref_tcp_hdr(want);
    if b != &exp[..] {
        run.fail(case, "encoded-field-wrong", format!("TCP header {} : expected {} (data offset {} words, options {} padded with zeros)", hex(b), hex(&exp), exp.len() / 4, hex(want)));
        return None;
    }
    Some(())
}

fn tcp_opt_verdict(run: &Run, case: &mut Case, r: Result<Vec<u8>, TcpOptionWriteError>, want: &[u8], unchanged: bool) -> Option<bool> {
    let ok_len = run.len <= 40; // 4 bit data offset <= 15 words, 5 of them fixed
    match r {
        Ok(b) => {
            if !ok_len {
                run.fail(case, "accepts-out-of-range", format!("returned Ok although at most 40 option bytes fit; header {}", hex(&b[..b.len().min(64)])));
                return None;
            }
            check_tcp_opts_encoded(run, case, &b, want)?;
            Some(true)
        }
        Err(e) => {
            if ok_len {
                run.fail(case, "rejects-in-range", format!("returned {:?}", e));
                return None;
            }
            let TcpOptionWriteError::NotEnoughSpace(x) = e;
            if x as u64 != run.len {
                run.fail(case, "error-fields", format!("NotEnoughSpace({}) does not carry the required length {}", x, run.len));
                return None;
            }
            if !unchanged {
                run.fail(case, "changed-on-reject", "header changed by the rejected call".into());
                return None;
            }
            Some(false)
        }
    }
}

/// (header bytes through the API | error, header unchanged after an error)
fn tcp_opt_apply<T: ?Sized>(
    run: &Run,
    case: &mut Case,
    via: u8,
    arg: &T,
    ctor: impl FnOnce(&T) -> Result<TcpOptions, TcpOptionWriteError>,
    ctor_trait: impl FnOnce(&T) -> Result<TcpOptions, TcpOptionWriteError>,
    setter: impl FnOnce(&mut TcpHeader, &T) -> Result<(), TcpOptionWriteError>,
    builder: impl FnOnce(PacketBuilderStep<TcpHeader>, &T) -> Result<PacketBuilderStep<TcpHeader>, TcpOptionWriteError>,
) -> Option<(Result<Vec<u8>, TcpOptionWriteError>, bool)> {
    let mut h = TcpHeader::new(SP, DP, SEQ, WIN);
    h.set_options_raw(&[1, 1, 1, 1]).unwrap();
    let before = h.clone();
    Some(match via {
        0 | 1 => {
            let r = if via == 0 { call!(run, case, ctor(arg)) } else { call!(run, case, ctor_trait(arg)) };
            (
                r.map(|o| {
                    h.options = o;
                    h.to_bytes().to_vec()
                }),
                true,
            )
        }
        2 => {
            let r = call!(run, case, setter(&mut h, arg));
            let same = h == before;
            (r.map(|_| h.to_bytes().to_vec()), same)
        }
        _ => {
            let step = PacketBuilder::ipv4(SRC4, DST4, 64).tcp(SP, DP, SEQ, WIN);
            let r = call!(run, case, builder(step, arg));
            match r {
                Ok(step) => {
                    let mut out = Vec::new();
                    let w = call!(run, case, step.write_to_vec(&mut out, &[9, 9, 9]));
                    if let Err(e) = w {
                        run.fail(case, "rejects-in-range", format!("write_to_vec after accepted options failed: {:?}", e));
                        return None;
                    }
                    if out.len() < 43 || be16(&out, 2) as usize != out.len() {
                        run.fail(case, "encoded-field-wrong", format!("packet of {} bytes, IPv4 total length {}", out.len(), be16(&out, 2)));
                        return None;
                    }
                    let mut t = out[20..out.len() - 3].to_vec();
                    t[16] = 0;
                    t[17] = 0;
                    (Ok(t), true)
                }
                Err(e) => (Err(e), true),
            }
        }
    })
}

fn run_tcp_opt_raw(run: &Run, case: &mut Case, env: &Env, via: u8) -> Option<bool> {
    let data = env.payload(run.len);
    let (r, same) = tcp_opt_apply(
        run,
        case,
        via,
        data,
        |d| TcpOptions::try_from_slice(d),
        |d| TcpOptions::try_from(d),
        |h, d| h.set_options_raw(d),
        |s, d| s.options_raw(d),
    )?;
    tcp_opt_verdict(run, case, r, &data[..data.len().min(40)], same)
}

fn elems_for(len: u64, mix: u8) -> (Vec<TcpOptionElement>, Vec<u8>) {
    use TcpOptionElement::*;
    let mut e = vec![];
    let mut enc = vec![];
    let mut rest = len as usize;
    match mix {
        0 => {}
        1 => {
            for i in 0..rest / 10 {
                let (a, b) = (0x0101_0000 + i as u32, 0x0202_0000 + i as u32);
                e.push(Timestamp(a, b));
                enc.extend([8, 10]);
                enc.extend(a.to_be_bytes());
                enc.extend(b.to_be_bytes());
            }
            rest %= 10;
        }
        _ => {
            for _ in 0..rest / 34 {
                e.push(SelectiveAcknowledgement((1, 2), [Some((3, 4)), Some((5, 6)), Some((7, 8))]));
                enc.extend([5, 34]);
                for v in 1..=8u32 {
                    enc.extend(v.to_be_bytes());
                }
            }
            rest %= 34;
            for _ in 0..rest / 4 {
                e.push(MaximumSegmentSize(0x05b4));
                enc.extend([2, 4, 5, 0xb4]);
            }
            rest %= 4;
            if rest == 3 {
                e.push(WindowScale(7));
                enc.extend([3, 3, 7]);
                rest = 0;
            } else if rest == 2 {
                e.push(SelectiveAcknowledgementPermitted);
                enc.extend([4, 2]);
                rest = 0;
            }
        }
    }
    for _ in 0..rest {
        e.push(Noop);
        enc.push(1);
    }
    debug_assert_eq!(enc.len() as u64, len);
    (e, enc)
}

fn run_tcp_opt_elems(run: &Run, case: &mut Case, via: u8, mix: u8) -> Option<bool> {
    let (elems, enc) = elems_for(run.len, mix);
    let (r, same) = tcp_opt_apply(
        run,
        case,
        via,
        &elems[..],
        |d| TcpOptions::try_from_elements(d),
        |d| TcpOptions::try_from(d),
        |h, d| h.set_options(d),
        |s, d| s.options(d),
    )?;
    tcp_opt_verdict(run, case, r, &enc[..enc.len().min(40)], same)
}

// ---- runners: ARP ----------------------------------------------------------------------------

fn arp_check_bytes(run: &Run, case: &mut Case, b: &[u8], shw: &[u8], spr: &[u8], thw: &[u8], tpr: &[u8]) -> Option<()> {
    let mut want = vec![0, 1, 8, 0, shw.len() as u8, spr.len() as u8, 0, 1];
    want.extend_from_slice(shw);
    want.extend_from_slice(spr);
    want.extend_from_slice(thw);
    want.extend_from_slice(tpr);
    if b != &want[..] {
        run.fail(case, "encoded-field-wrong", format!("serialised {} bytes with size bytes hw={} proto={}, expected {} bytes with hw={} proto={}", b.len(), b.get(4).copied().unwrap_or(0), b.get(5).copied().unwrap_or(0), want.len(), shw.len(), spr.len()));
        return None;
    }
    Some(())
}

/// error check shared by the ARP APIs: `too_big`/`non_matching` are what the error carried
fn arp_err_ok(a: usize, b: usize, too_big: Option<usize>, non_matching: Option<(usize, usize)>) -> bool {
    match (too_big, non_matching) {
        (Some(x), None) => (x == a || x == b) && x > 255,
        (None, Some((x, y))) => x == a && y == b && a != b,
        _ => false,
    }
}

fn run_arp_new(run: &Run, case: &mut Case, env: &Env, which: u8) -> Option<bool> {
    use err::arp::{ArpHwAddrError as H, ArpNewError as N, ArpProtoAddrError as P};
    let l = run.len;
    let six = &env.pat[100..106];
    let four = &env.pat[200..204];
    let (shw, spr, thw, tpr): (&[u8], &[u8], &[u8], &[u8]) = match which {
        0 => (env.payload(l), four, env.payload2(l), &four[..]),
        1 => (six, env.payload(l), six, env.payload2(l)),
        2 => (env.payload(l), env.payload2(l), env.payload2(l), env.payload(l)),
        3 => (env.payload(l), four, env.payload2(l + 1), four),
        _ => (six, env.payload(l), six, env.payload2(l + 1)),
    };
    let r = call!(run, case, ArpPacket::new(ArpHardwareId::ETHERNET, EtherType::IPV4, ArpOperation::REQUEST, shw, spr, thw, tpr));
    let ok = shw.len() == thw.len() && spr.len() == tpr.len() && shw.len() <= 255 && spr.len() <= 255; // 8 bit size fields shared by sender and target
    match r {
        Ok(p) => {
            if !ok {
                run.fail(case, "accepts-out-of-range", format!("returned Ok for address lengths hw {}/{} proto {}/{}", shw.len(), thw.len(), spr.len(), tpr.len()));
                return None;
            }
            arp_check_bytes(run, case, &p.to_bytes(), shw, spr, thw, tpr)?;
            Some(true)
        }
        Err(e) => {
            if ok {
                run.fail(case, "rejects-in-range", format!("returned {:?}", e));
                return None;
            }
            let good = match e {
                N::HwAddr(H::LenTooBig(x)) => arp_err_ok(shw.len(), thw.len(), Some(x), None),
                N::HwAddr(H::LenNonMatching(x, y)) => arp_err_ok(shw.len(), thw.len(), None, Some((x, y))),
                N::ProtoAddr(P::LenTooBig(x)) => arp_err_ok(spr.len(), tpr.len(), Some(x), None),
                N::ProtoAddr(P::LenNonMatching(x, y)) => arp_err_ok(spr.len(), tpr.len(), None, Some((x, y))),
            };
            if !good {
                run.fail(case, "error-fields", format!("{:?} does not describe the offending lengths hw {}/{} proto {}/{}", e, shw.len(), thw.len(), spr.len(), tpr.len()));
                return None;
            }
            Some(false)
        }
    }
}

fn run_arp_set(run: &Run, case: &mut Case, env: &Env, proto: bool, mismatch: bool) -> Option<bool> {
    use err::arp::{ArpHwAddrError as H, ArpProtoAddrError as P};
    let six = &env.pat[100..106];
    let four = &env.pat[200..204];
    let mut p = ArpPacket::new(ArpHardwareId::ETHERNET, EtherType::IPV4, ArpOperation::REQUEST, six, four, &env.pat[300..306], &env.pat[400..404]).unwrap();
    let before = p.clone();
    let before_b = before.to_bytes();
    let s = env.payload(run.len);
    let t = env.payload2(run.len + mismatch as u64);
    let ok = s.len() == t.len() && s.len() <= 255;
    let r: Result<(), (Option<usize>, Option<(usize, usize)>, String)> = if proto {
        call!(run, case, p.set_protocol_addrs(s, t)).map_err(|e| match e {
            P::LenTooBig(x) => (Some(x), None, format!("{:?}", e)),
            P::LenNonMatching(x, y) => (None, Some((x, y)), format!("{:?}", e)),
        })
    } else {
        call!(run, case, p.set_hw_addrs(s, t)).map_err(|e| match e {
            H::LenTooBig(x) => (Some(x), None, format!("{:?}", e)),
            H::LenNonMatching(x, y) => (None, Some((x, y)), format!("{:?}", e)),
        })
    };
    match r {
        Ok(()) => {
            if !ok {
                run.fail(case, "accepts-out-of-range", format!("returned Ok for address lengths {}/{}", s.len(), t.len()));
                return None;
            }
            if proto {
                arp_check_bytes(run, case, &p.to_bytes(), six, s, &env.pat[300..306], t)?;
            } else {
                arp_check_bytes(run, case, &p.to_bytes(), s, four, t, &env.pat[400..404])?;
            }
            Some(true)
        }
        Err((tb, nm, txt)) => {
            if ok {
                run.fail(case, "rejects-in-range", format!("returned {}", txt));
                return None;
            }
            if !arp_err_ok(s.len(), t.len(), tb, nm) {
                run.fail(case, "error-fields", format!("{} does not describe the offending lengths {}/{}", txt, s.len(), t.len()));
                return None;
            }
            if p != before || p.to_bytes() != before_b {
                run.fail(case, "changed-on-reject", "packet changed by the rejected call".into());
                return None;
            }
            Some(false)
        }
    }
}

// ---- runners: PacketBuilder terminals --------------------------------------------------------

const SINK_CAP: usize = 80 * 1024;
/// io::Write that keeps the first SINK_CAP bytes and counts the rest
struct Sink {
    head: Vec<u8>,
    total: u64,
}
impl std::io::Write for Sink {
    fn write(&mut self, b: &[u8]) -> std::io::Result<usize> {
        let room = SINK_CAP - self.head.len();
        self.head.extend_from_slice(&b[..room.min(b.len())]);
        self.total += b.len() as u64;
        Ok(b.len())
    }
    fn flush(&mut self) -> std::io::Result<()> {
        Ok(())
    }
}

enum BErr {
    PayloadLen(u128, u128),
    Icmpv6InIpv4,
    Other(String),
}
fn berr_io(e: err::packet::BuildWriteError) -> BErr {
    use err::packet::BuildWriteError::*;
    match e {
        PayloadLen(v) => BErr::PayloadLen(v.actual as u128, v.max_allowed as u128),
        Icmpv6InIpv4 => BErr::Icmpv6InIpv4,
        o => BErr::Other(format!("{:?}", o)),
    }
}
fn berr_vec(e: err::packet::BuildVecWriteError) -> BErr {
    use err::packet::BuildVecWriteError::*;
    match e {
        PayloadLen(v) => BErr::PayloadLen(v.actual as u128, v.max_allowed as u128),
        Icmpv6InIpv4 => BErr::Icmpv6InIpv4,
        o => BErr::Other(format!("{:?}", o)),
    }
}
fn berr_slice(e: err::packet::BuildSliceWriteError) -> BErr {
    use err::packet::BuildSliceWriteError::*;
    match e {
        PayloadLen(v) => BErr::PayloadLen(v.actual as u128, v.max_allowed as u128),
        Icmpv6InIpv4 => BErr::Icmpv6InIpv4,
        o => BErr::Other(format!("{:?}", o)),
    }
}

struct BRun {
    size: usize,
    res: Result<(), BErr>,
    /// what was written (Io: the first SINK_CAP bytes)
    out: Vec<u8>,
    total: u64,
    /// write_to_slice: bytes behind the reported end untouched and reported length == size
    slice_ok: bool,
}

macro_rules! terminals {
    ($step:expr, $w:expr, $payload:expr, $bufcap:expr $(, $extra:expr)*) => {{
        let step = $step;
        let size = step.size($payload.len());
        match $w {
            0 => {
                let mut s = Sink { head: Vec::new(), total: 0 };
                let res = step.write(&mut s, $($extra,)* $payload).map_err(berr_io);
                BRun { size, res, out: s.head, total: s.total, slice_ok: true }
            }
            1 => {
                let mut v = Vec::new();
                let res = step.write_to_vec(&mut v, $($extra,)* $payload).map_err(berr_vec);
                let total = v.len() as u64;
                BRun { size, res, out: v, total, slice_ok: true }
            }
            _ => {
                let mut buf = vec![0xAAu8; $bufcap];
                match step.write_to_slice(&mut buf, $($extra,)* $payload) {
                    Ok(n) => {
                        let slice_ok = n == size && n <= buf.len() && buf[n.min(buf.len())..].iter().all(|b| *b == 0xAA);
                        buf.truncate(n);
                        BRun { size, res: Ok(()), out: buf, total: n as u64, slice_ok }
                    }
                    Err(e) => {
                        // written prefix = up to the last byte that is not the fill pattern
                        let n = buf.iter().rposition(|b| *b != 0xAA).map(|p| p + 1).unwrap_or(0);
                        buf.truncate(n);
                        BRun { size, res: Err(berr_slice(e)), out: buf, total: n as u64, slice_ok: true }
                    }
                }
            }
        }
    }};
}

macro_rules! with_net {
    ($prev:expr, $net:expr) => {
        match $net {
            0 => $prev.ipv4(SRC4, DST4, 64),
            1 => $prev.ipv6(SRC6, DST6, 64),
            n => $prev.ip(net_headers(n)),
        }
    };
}

fn ip_step(link: u8, net: u8) -> PacketBuilderStep<IpHeaders> {
    let m1 = [1, 2, 3, 4, 5, 6];
    let m2 = [7, 8, 9, 10, 11, 12];
    match link {
        0 => match net {
            0 => PacketBuilder::ipv4(SRC4, DST4, 64),
            1 => PacketBuilder::ipv6(SRC6, DST6, 64),
            n => PacketBuilder::ip(net_headers(n)),
        },
        1 => with_net!(PacketBuilder::ethernet2(m1, m2), net),
        2 => with_net!(PacketBuilder::ethernet2(m1, m2).single_vlan(VlanId::try_new(5).unwrap()), net),
        3 => with_net!(PacketBuilder::ethernet2(m1, m2).double_vlan(VlanId::try_new(5).unwrap(), VlanId::try_new(6).unwrap()), net),
        _ => with_net!(PacketBuilder::linux_sll(LinuxSllPacketType::HOST, 6, [1, 2, 3, 4, 5, 6, 0, 0]), net),
    }
}

fn builder_exec(link: u8, net: u8, tr: u8, w: u8, payload: &[u8], bufcap: usize) -> BRun {
    let s = ip_step(link, net);
    match tr {
        0 => terminals!(s.udp(SP, DP), w, payload, bufcap),
        1 => terminals!(s.tcp(SP, DP, SEQ, WIN), w, payload, bufcap),
        2 => terminals!(s.tcp(SP, DP, SEQ, WIN).options_raw(&TCPOPT8).unwrap(), w, payload, bufcap),
        3 => terminals!(s.icmpv4_echo_request(0x1234, 0x5678), w, payload, bufcap),
        4 => terminals!(s.icmpv6_echo_request(0x1234, 0x5678), w, payload, bufcap),
        _ => terminals!(s, w, payload, bufcap, IpNumber(253)),
    }
}

fn run_builder(run: &Run, case: &mut Case, env: &Env, link: u8, net: u8, tr: u8, w: u8) -> Option<bool> {
    let n = run.len;
    let payload = env.payload(n);
    let (v6, ihl, el) = net_dims(net);
    let ll = LINK_LEN[link as usize];
    let tl = TR_LEN[tr as usize];
    let counted = if v6 { 0 } else { ihl }; // bytes of the IP header itself that the length field counts
    let max = U16M - (counted + el + tl) as u128;
    let want_size = (ll + ihl + el + tl) as u128 + n as u128;
    let bufcap = if w == 2 { want_size as usize + 16 } else { 0 };
    let r = call!(run, case, builder_exec(link, net, tr, w, payload, bufcap));
    if r.size as u128 != want_size {
        case.fail(format!("{}:size-wrong", run.name.replace("write_to_vec", "size").replace("write_to_slice", "size").replace("write", "size")), format!("[{}] size({}) = {}, headers {}+{}+{}+{} + payload = {}", run.variant, n, r.size, ll, ihl, el, tl, want_size));
        return None;
    }
    let ip_at = ll;
    let tr_at = ll + ihl + el;
    // length field of an IP header found in the output (if one was written completely)
    let ip_field = if r.out.len() >= ip_at + ihl { Some(if v6 { be16(&r.out, ip_at + 4) } else { be16(&r.out, ip_at + 2) }) } else { None };
    let true_field = (counted + el + tl) as u128 + n as u128;
    let offs = [0, tl as u128, (tl + el) as u128, (tl + el + counted) as u128];
    let icmp6_in_v4 = tr == 4 && !v6;
    match r.res {
        Ok(()) => {
            if n as u128 > max {
                run.fail(case, "accepts-out-of-range", format!("returned Ok although at most {} payload bytes fit; the IP length field in the output is {:?}, the true value would be {}", max, ip_field, true_field));
                return None;
            }
            if icmp6_in_v4 {
                run.fail(case, "accepts-out-of-range", "ICMPv6 in IPv4 is documented to be rejected".into());
                return None;
            }
            if r.total as u128 != want_size || !r.slice_ok {
                run.fail(case, "encoded-field-wrong", format!("{} bytes written (slice guard ok: {}), expected {}", r.total, r.slice_ok, want_size));
                return None;
            }
            let o = &r.out;
            if ip_field.map(|f| f as u128) != Some(true_field) {
                run.fail(case, "encoded-field-wrong", format!("IP length field decodes to {:?}, expected {}", ip_field, true_field));
                return None;
            }
            if (v6 && o[ip_at] >> 4 != 6) || (!v6 && o[ip_at] as usize != 0x40 | (ihl / 4)) {
                run.fail(case, "encoded-field-wrong", format!("IP version/IHL byte {:#04x}", o[ip_at]));
                return None;
            }
            let th = &o[tr_at..tr_at + tl];
            let (src4, dst4) = (SRC4, DST4);
            let pseudo = |proto: u8| if v6 { pseudo6(SRC6, DST6, proto, (tl as u64) + n) } else { pseudo4(src4, dst4, proto, (tl as u64) + n) };
            let zeroed = |at: usize| {
                let mut t = th.to_vec();
                t[at] = 0;
                t[at + 1] = 0;
                t
            };
            match tr {
                0 => {
                    if be16(th, 4) != 8 + n {
                        run.fail(case, "encoded-field-wrong", format!("UDP length field decodes to {}, expected {}", be16(th, 4), 8 + n));
                        return None;
                    }
                    let mut c = fold(wsum(pseudo(17), &zeroed(6)) + env.payload_sum(n));
                    if c == 0 {
                        c = 0xffff;
                    }
                    if be16(th, 6) != c as u64 {
                        run.fail(case, "pseudo-header-length-wrong", format!("UDP checksum {:#06x}, reference with length {} gives {:#06x}", be16(th, 6), 8 + n, c));
                        return None;
                    }
                }
                1 | 2 => {
                    if (th[12] >> 4) as usize != tl / 4 {
                        run.fail(case, "encoded-field-wrong", format!("TCP data offset {}", th[12] >> 4));
                        return None;
                    }
                    let c = fold(wsum(pseudo(6), &zeroed(16)) + env.payload_sum(n));
                    if be16(th, 16) != c as u64 {
                        run.fail(case, "pseudo-header-length-wrong", format!("TCP checksum {:#06x}, reference with TCP length {} gives {:#06x}", be16(th, 16), tl as u64 + n, c));
                        return None;
                    }
                }
                4 => {
                    let c = fold(wsum(pseudo(58), &zeroed(2)) + env.payload_sum(n));
                    if be16(th, 2) != c as u64 {
                        run.fail(case, "pseudo-header-length-wrong", format!("ICMPv6 checksum {:#06x}, reference with length {} gives {:#06x}", be16(th, 2), 8 + n, c));
                        return None;
                    }
                }
                _ => {}
            }
            if (o.len() as u128) == want_size && &o[tr_at + tl..] != payload {
                run.fail(case, "encoded-field-wrong", "payload bytes in the output differ from the payload given".into());
                return None;
            }
            Some(true)
        }
        Err(e) => {
            // whatever happened: an IP header that made it into the output must not carry a wrapped length
            if let Some(f) = ip_field {
                if f as u128 != true_field {
                    run.fail(case, "wrapped-length-in-output", format!("the call failed but the output holds an IP header whose length field is {} (true value {})", f, true_field));
                    return None;
                }
            }
            match e {
                BErr::PayloadLen(a, m) => {
                    run.judge(case, max, &offs, Err((a, m)))?;
                    Some(false)
                }
                BErr::Icmpv6InIpv4 if icmp6_in_v4 => Some(false),
                BErr::Icmpv6InIpv4 => {
                    run.fail(case, "rejects-in-range", "Icmpv6InIpv4 for a packet that is not ICMPv6 in IPv4".into());
                    None
                }
                BErr::Other(t) => {
                    run.fail(case, if n as u128 > max { "error-fields" } else { "rejects-in-range" }, format!("unexpected error {}", t));
                    None
                }
            }
        }
    }
}

// ---- the check -------------------------------------------------------------------------------

fn run_one(api: &Api, meta: &Meta, len: u64, env: &Env, case: &mut Case) -> Option<bool> {
    let run = Run { name: meta.name, variant: &meta.variant, len };
    let run = &run;
    use Api::*;
    match api {
        Ipv4New => run_ipv4_new(run, case),
        Ipv4SetPayloadLen { opt } => run_ipv4_set(run, case, env, *opt),
        Ipv6SetPayloadLength => run_ipv6_set(run, case),
        IpHeadersSet { v6, opt, ext } => run_ip_headers_set(run, case, env, *v6, *opt, *ext),
        UdpWithout => run_udp_without(run, case),
        UdpWith { v6 } => run_udp_with(run, case, env, *v6),
        UdpCalc { v6, raw } => run_udp_calc(run, case, env, *v6, *raw),
        TcpCalc { v6, raw, opt, slice } => run_tcp_calc(run, case, env, *v6, *raw, *opt, *slice),
        TcpSliceCalc { v6, opt } => run_tcp_slice_calc(run, case, env, *v6, *opt),
        Icmp6 { f, ty } => run_icmp6(run, case, env, *f, *ty),
        MacsecSet { ptype, sci } => run_macsec_set(run, case, *ptype, *sci),
        MacsecFromLen => run_macsec_from_len(run, case),
        MacsecTryFrom => run_macsec_try_from(run, case),
        AuthNew => run_auth(run, case, env, false),
        AuthSet => run_auth(run, case, env, true),
        RawExtNew => run_raw_ext(run, case, env, false),
        RawExtSet => run_raw_ext(run, case, env, true),
        Ipv4OptTryFrom => run_ipv4_options(run, case, env, false),
        Ipv4SetOptions => run_ipv4_options(run, case, env, true),
        TcpOptRaw { via } => run_tcp_opt_raw(run, case, env, *via),
        TcpOptElems { via, mix } => run_tcp_opt_elems(run, case, *via, *mix),
        ArpNew { which } => run_arp_new(run, case, env, *which),
        ArpSetHw { mismatch } => run_arp_set(run, case, env, false, *mismatch),
        ArpSetProto { mismatch } => run_arp_set(run, case, env, true, *mismatch),
        Builder { link, net, tr, w } => run_builder(run, case, env, *link, *net, *tr, *w),
    }
}

const FAMILIES: [&str; 13] = ["ipv4", "ipv6", "ip_headers", "udp", "tcp", "icmpv6", "macsec", "auth", "raw_ext", "ipv4_options", "tcp_options", "arp", "builder"];

impl Check for C14 {
    fn id(&self) -> &'static str {
        "C14"
    }
    fn rule(&self, tier: Tier) -> String {
        let t = tier.is_thorough();
        let napi = apis().len();
        format!(
            "alphabet: {} API variants (Ipv4Header::new/set_payload_len x options 0/4/20/40, Ipv6Header::set_payload_length, IpHeaders::set_payload_len x v4 options 0/8/40 x 0-1 AH and v6 x 0/1/2/6 extension headers, \
             UdpHeader::without_ipv4_checksum/with_ipv4_checksum/with_ipv6_checksum/calc_checksum_ipv4(_raw)/ipv6(_raw), TcpHeader and TcpHeaderSlice::calc_checksum_ipv4(_raw)/ipv6(_raw) x options 0/4/40, TcpSlice::calc_checksum_ipv4/ipv6, \
             Icmpv6Type::calc_checksum/to_header, Icmpv6Header::with_checksum/update_checksum x 2 types, MacsecHeader::set_payload_len x 4 ptypes x SCI, MacsecShortLen::from_len/try_from/try_from_u8, IpAuthHeader::new/set_raw_icv, \
             Ipv6RawExtHeader::new_raw/set_payload, Ipv4Options::try_from, Ipv4Header::set_options, TcpOptions::try_from_slice/try_from_elements + TryFrom + TcpHeader::set_options(_raw) + builder options(_raw) x 3 element mixes, \
             ArpPacket::new/set_hw_addrs/set_protocol_addrs incl. non-matching sender/target, PacketBuilder size + write/write_to_vec/write_to_slice x 5 link stacks x 6 IP header sets x udp/tcp/tcp+options/icmpv4/icmpv6/raw) \
             x lengths {{0,1,2}} ∪ {{L-2..L+2}} for L in {{4,6,8,14,40,44,48,61,63,64,255,256,1016,1020,1024,1028,2046,2048,2054,2^16-1,2^16, 2^16-h and 2^16-1-h for h in {:?}, the true limit(s) of the API{}{}}}, cut to the argument's domain (u8/u16/usize; slices up to {}). \
             bound: every (API variant, length) pair of that product, once. \
             oracle: accept iff length <= maximum computed from the wire field width minus the header bytes the field also counts (and the alignment rule); accepted: the field decoded big-endian from to_bytes()/the written packet equals the value given \
             (pseudo-header lengths: returned checksum == independent ones-complement reference with the true length), nothing else in the header changes; rejected: Err with actual > max_allowed and (actual, max_allowed) == (given, true max) + c on both for c in the \
             partial sums of the header sizes the API adds (c=0: given length form, c=all: field value form), kind+length for the enum errors, header == clone taken before (MACsec: short length 0, rest unchanged); no panic; \
             builder: Ok with exact IP/UDP length fields, TCP data offset, transport checksum, byte count == size(n), or Err(PayloadLen) as above, never an IP header with a wrapped length in the output. \
             a state = one (API variant, length) pair, distinct by construction; non-trivial = length > 2 (sits in the neighbourhood of a limit, alignment unit or power of two).",
            napi,
            HS16,
            if t { format!(", 2^32, 2^32-h for h in {:?}", HS32) } else { String::new() },
            ", 2^64-1 for arguments that are plain usize numbers",
            if t { "2^32+1024 bytes, views into one read-only zero mapping; TCP over IPv6 with 4 option bytes and the PacketTooBig type through with_checksum/update_checksum/to_header stay below 70000" } else { "70000 bytes" }
        )
    }
    fn assumptions(&self, tier: Tier) -> Vec<String> {
        let mut v = vec![
            "true maxima follow RFC 791 (16 bit total length incl. header), RFC 8200 (16 bit payload length incl. extension headers; 32 bit upper-layer length in the pseudo header), RFC 768/9293 (16 bit UDP length incl. 8 byte header; 16 bit TCP length in the IPv4 pseudo header), RFC 4302 (8 bit AH payload len), RFC 8200 4.x (8 bit hdr ext len), 4 bit IHL / data offset, RFC 826 (8 bit address lengths), IEEE 802.1AE (6 bit short length; the crate documents 0 = unknown for larger payloads)".to_string(),
            "payloads up to 72 KiB are patterned non-zero bytes, longer ones are all zero (so their reference sum is 0 and only the pseudo-header length decides the checksum)".to_string(),
            "UdpHeader::calc_checksum_ipv6(_raw) above 65527 bytes: only Ok/Err is judged because the 16 bit length field of the header cannot be made consistent".to_string(),
        ];
        if !tier.is_thorough() {
            v.push("quick tier: no length above 70000 for slice arguments (2^32 neighbourhood is thorough-only)".into());
        }
        v
    }
    fn units(&self, _tier: Tier) -> u64 {
        UNITS
    }
    fn watchdog_s(&self, tier: Tier) -> u64 {
        if tier.is_thorough() {
            600
        } else {
            60
        }
    }
    fn expect_reach(&self, tier: Tier) -> Vec<String> {
        let mut v = vec![];
        for f in FAMILIES {
            v.push(format!("{}:accept", f));
            // the ICMPv6 functions only reject above 2^32 - 9 bytes, which needs the 4 GiB mapping
            if f != "icmpv6" || tier.is_thorough() {
                v.push(format!("{}:reject", f));
            }
        }
        if tier.is_thorough() {
            v.push("len>=2^32-100:accept".into());
            v.push("len>=2^32-100:reject".into());
        }
        v
    }
    fn coverage_extra(&self, tier: Tier) -> Vec<(String, String)> {
        let t = tier.is_thorough();
        let all = apis();
        let pairs: usize = all.iter().map(|a| lens(a, &a.meta(), t).len()).sum();
        vec![("api_variants".into(), all.len().to_string()), ("api_length_pairs".into(), pairs.to_string()), ("largest_length".into(), if t { "2^32+2 (slices), 2^64-1 (numbers)".into() } else { "65538 (slices), 2^64-1 (numbers)".into() })]
    }
    fn run_unit(&self, tier: Tier, u: u64, ctx: &mut Ctx) {
        let t = tier.is_thorough();
        let e = env(tier);
        let mut j = 0u64;
        for api in apis() {
            let meta = api.meta();
            for len in lens(&api, &meta, t) {
                let mine = j % UNITS == u;
                j += 1;
                if !mine {
                    continue;
                }
                if ctx.done() {
                    return;
                }
                ctx.case(
                    None,
                    || CaseDesc { shape: format!("{} [{}]", meta.name, meta.variant), text: format!("{} [{}] with length {} ({:#x})", meta.name, meta.variant, len, len), rank: len },
                    |case| {
                        case.at(meta.name);
                        let r = run_one(&api, &meta, len, e, case);
                        if len > 2 {
                            case.nontrivial();
                        }
                        if let Some(acc) = r {
                            let o = if acc { "accept" } else { "reject" };
                            case.reach(format!("{}:{}", meta.family, o));
                            if len >= (1u64 << 32) - 100 && meta.dom == Dom::Slice {
                                case.reach(format!("len>=2^32-100:{}", o));
                            }
                            case.outcome(format!("{}:{}", meta.name, o));
                        }
                    },
                );
            }
        }
    }
}
