use crate::fw::Check;

pub mod c01;
pub mod c02;
pub mod c13;
pub mod c15;
pub mod c16;

pub fn all() -> Vec<Box<dyn Check>> {
    vec![Box::new(c01::C01), Box::new(c02::C02), Box::new(c13::C13), Box::new(c15::C15), Box::new(c16::C16)]
}
