use crate::fw::Check;

pub mod c15;

pub fn all() -> Vec<Box<dyn Check>> {
    vec![Box::new(c15::C15)]
}
