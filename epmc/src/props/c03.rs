//! C03 — strict packet slicing matches the wire formats for every byte string.
//!
//! E1 sweeps x the strict whole-packet slicers (from_ethernet, from_linux_sll,
//! from_ether_type, from_ip) and the strict single-layer slicers; oracle = `refdec`:
//! same layer sequence, header/payload ranges, field values, fragmentation flags, payload cut
//! to the innermost applicable length field; Err exactly when the first faulty layer has a
//! fault, and the error must name a fault that is really present in that layer.

use crate::fw::*;
use crate::pkt::conv::{self, ToCErr};
use crate::pkt::gen::Door;
use crate::pkt::refdec::{self, RefResult, RK};
use crate::pkt::sweep;
use etherparse::*;

pub struct C03;

/// compare one strict result with the reference decoding
pub fn judge<E: ToCErr + std::fmt::Debug>(api: &'static str, case: &mut Case, want: &RefResult, got: Result<Vec<refdec::RLayer>, String>, err: Option<&E>) {
    case.eval();
    match (err, &want.stop) {
        (None, None) => match got {
            Ok(layers) => {
                for (sig, d) in conv::compare_layers(api, &want.layers, &layers, true) {
                    case.fail(sig, d);
                }
            }
            Err(e) => case.fail(format!("result-not-observable:{}", api), format!("{}: {}", api, e)),
        },
        (None, Some(st)) => {
            case.fail(
                format!("accepts-faulty-input:{}:{:?}:{}", api, st.kind, st.faults.iter().map(refdec::fault_class).collect::<Vec<_>>().join("+")),
                format!("{} returned Ok although the {:?} layer at offset {} ({} bytes available) has the fault(s) {:?}", api, st.kind, st.off, st.avail, st.faults),
            );
        }
        (Some(e), None) => {
            case.fail(format!("rejects-well-formed-input:{}:{}", api, e.cerr().class()), format!("{} returned {:?} but every layer is well formed: {}", api, e, want.shape()));
        }
        (Some(e), Some(st)) => {
            if let Err(why) = conv::explain(&e.cerr(), st, false) {
                case.fail(format!("error-names-no-real-fault:{}:{}:{:?}", api, e.cerr().class(), st.kind), format!("{}: {:?}: {}", api, e, why));
            }
        }
    }
}

/// header-only slice decoder against the header part of the first reference layer. `hdr_faults`: the faults such a
/// decoder is concerned with (cut-short header, content rules) -- payload length fields are not its business.
fn judge_header<E: ToCErr + std::fmt::Debug>(api: &'static str, case: &mut Case, want: &RefResult, got: Result<refdec::RLayer, String>, err: Option<&E>, lax_want: &RefResult) {
    case.eval();
    // reference: first layer as decoded when payload length fields are handled leniently (lax), so that only header faults stop it
    let first = lax_want.layers.first();
    match (err, first) {
        (None, Some(w)) => match got {
            Ok(g) => {
                let mut w1 = w.clone();
                w1.pay = conv::NOPAY;
                w1.incomplete = false;
                w1.fragmented = g.fragmented;
                w1.pay_srcs = vec![];
                for (sig, d) in conv::compare_layers(api, &[w1], &[g], false) {
                    case.fail(sig, d);
                }
            }
            Err(e) => case.fail(format!("result-not-observable:{}", api), format!("{}: {}", api, e)),
        },
        (None, None) => {
            let _ = want;
            if let Some(st) = &lax_want.stop {
                case.fail(format!("accepts-faulty-input:{}:{:?}", api, st.kind), format!("{} returned Ok although the header has the fault(s) {:?}", api, st.faults));
            }
        }
        (Some(e), Some(_)) => case.fail(format!("rejects-well-formed-input:{}:{}", api, e.cerr().class()), format!("{} returned {:?} but the header is well formed", api, e)),
        (Some(e), None) => {
            if let Some(st) = &lax_want.stop {
                if let Err(why) = conv::explain(&e.cerr(), st, false) {
                    case.fail(format!("error-names-no-real-fault:{}:{}:{:?}", api, e.cerr().class(), st.kind), format!("{}: {:?}: {}", api, e, why));
                }
            }
        }
    }
}

/// derived views (`ether_payload()`, `ip_payload()`, `vlan()`, `vlan_ids()`, `payload_ether_type()`,
/// `is_ip_payload_fragmented()`) of an accepted packet against the reference layers
fn judge_views(api: &'static str, case: &mut Case, door: Door, b: &[u8], want: &RefResult, p: &SlicedPacket) {
    if want.stop.is_some() {
        return;
    }
    case.eval();
    let ed = match door {
        Door::Ether(t) => Some(t),
        _ => None,
    };
    match conv::views_strict(b, p) {
        Ok(v) => {
            for (sig, d) in conv::check_views(api, ed, b.len(), &want.layers, &v) {
                case.fail(sig, d);
            }
        }
        Err(e) => case.fail(format!("result-not-observable:{}:views", api), format!("{}: {}", api, e)),
    }
}

fn head(want: &RefResult, n: usize) -> RefResult {
    // reference restricted to the first `n` layers: a fault behind them does not concern a single-layer slicer
    let mut r = want.clone();
    if r.layers.len() >= n {
        r.layers.truncate(n);
        r.stop = None;
    }
    r
}

pub fn check_case(door: Door, b: &[u8], case: &mut Case) {
    let want = refdec::decode(door, b, false);
    // lenient about payload length fields: what a header-only decoder sees
    let lax = refdec::decode(door, b, true);
    case.outcome(format!("{}:{}", door_class(door), want.shape()));
    match &want.stop {
        Some(st) => case.reach(format!("stop:{:?}:{}", st.kind, st.faults.iter().map(refdec::fault_class).collect::<Vec<_>>().join("+"))),
        None => case.reach(format!("ok:{}", want.layers.last().map(|l| format!("{:?}", l.kind)).unwrap_or_else(|| "-".into()))),
    }
    if !want.layers.is_empty() || want.stop.as_ref().map(|s| !s.first).unwrap_or(false) {
        case.nontrivial();
    }
    match door {
        Door::Eth2 => {
            case.at("SlicedPacket::from_ethernet");
            let r = SlicedPacket::from_ethernet(b);
            judge("SlicedPacket::from_ethernet", case, &want, r.as_ref().map_err(|_| String::new()).and_then(|p| conv::sliced_layers(b, p)), r.as_ref().err());
            if let Ok(p) = &r {
                judge_views("SlicedPacket::from_ethernet", case, door, b, &want, p);
            }
            case.at("Ethernet2Slice::from_slice_without_fcs");
            let r = Ethernet2Slice::from_slice_without_fcs(b);
            let w1 = head(&want, 1);
            judge("Ethernet2Slice::from_slice_without_fcs", case, &w1, r.as_ref().map_err(|_| String::new()).and_then(|e| conv::eth2_layer(b, e).map(|l| vec![l])), r.as_ref().err());
            case.at("Ethernet2HeaderSlice::from_slice");
            let r = Ethernet2HeaderSlice::from_slice(b);
            judge_header("Ethernet2HeaderSlice::from_slice", case, &want, r.as_ref().map_err(|_| String::new()).and_then(|e| conv::eth2_header_layer(b, e)), r.as_ref().err(), &lax);
            // FCS variant: the last four bytes are the frame check sequence, not payload
            case.at("Ethernet2Slice::from_slice_with_crc32_fcs");
            let r = Ethernet2Slice::from_slice_with_crc32_fcs(b);
            case.eval();
            match &r {
                Ok(e) => {
                    if b.len() < 18 {
                        case.fail("accepts-faulty-input:Ethernet2Slice::from_slice_with_crc32_fcs", format!("accepted {} bytes, 14 + 4 are required", b.len()));
                    } else {
                        match conv::eth2_layer(b, e) {
                            Ok(l) => {
                                if l.pay != (14, b.len() - 18) || e.fcs() != Some([b[b.len() - 4], b[b.len() - 3], b[b.len() - 2], b[b.len() - 1]]) {
                                    case.fail("payload-range:Ethernet2Slice::from_slice_with_crc32_fcs:Eth2", format!("payload {:?} fcs {:?} for a frame of {} bytes", l.pay, e.fcs(), b.len()));
                                }
                            }
                            Err(x) => case.fail("result-not-observable:Ethernet2Slice::from_slice_with_crc32_fcs", x),
                        }
                    }
                }
                Err(e) => {
                    if b.len() >= 18 {
                        case.fail("rejects-well-formed-input:Ethernet2Slice::from_slice_with_crc32_fcs", format!("{:?} for {} bytes", e, b.len()));
                    } else if e.required_len != 18 || e.len != b.len() {
                        case.fail("error-names-no-real-fault:Ethernet2Slice::from_slice_with_crc32_fcs", format!("{:?} for {} bytes", e, b.len()));
                    }
                }
            }
        }
        Door::Sll => {
            case.at("SlicedPacket::from_linux_sll");
            let r = SlicedPacket::from_linux_sll(b);
            judge("SlicedPacket::from_linux_sll", case, &want, r.as_ref().map_err(|_| String::new()).and_then(|p| conv::sliced_layers(b, p)), r.as_ref().err());
            if let Ok(p) = &r {
                judge_views("SlicedPacket::from_linux_sll", case, door, b, &want, p);
            }
            case.at("LinuxSllSlice::from_slice");
            let r = LinuxSllSlice::from_slice(b);
            let w1 = head(&want, 1);
            judge("LinuxSllSlice::from_slice", case, &w1, r.as_ref().map_err(|_| String::new()).and_then(|e| conv::sll_layer(b, e).map(|l| vec![l])), r.as_ref().err());
            case.at("LinuxSllHeaderSlice::from_slice");
            let r = LinuxSllHeaderSlice::from_slice(b);
            judge_header("LinuxSllHeaderSlice::from_slice", case, &want, r.as_ref().map_err(|_| String::new()).and_then(|e| conv::sll_header_layer(b, e)), r.as_ref().err(), &lax);
        }
        Door::Ether(t) => {
            case.at("SlicedPacket::from_ether_type");
            let r = SlicedPacket::from_ether_type(EtherType(t), b);
            judge("SlicedPacket::from_ether_type", case, &want, r.as_ref().map_err(|_| String::new()).and_then(|p| conv::sliced_layers(b, p)), r.as_ref().err());
            if let Ok(p) = &r {
                judge_views("SlicedPacket::from_ether_type", case, door, b, &want, p);
            }
            if let Ok(p) = &r {
                // the link "layer" of this door is the announced ether type with the complete input as payload
                match &p.link {
                    Some(LinkSlice::EtherPayload(e)) if e.ether_type.0 == t && crate::mem::rel(b, e.payload) == Ok((0, b.len())) || (b.is_empty() && e.payload.is_empty() && e.ether_type.0 == t) => {}
                    other => case.fail("ether-door-link:SlicedPacket::from_ether_type", format!("link is {:?}, expected EtherPayload{{{:#06x}, whole input}}", other, t)),
                }
            }
            let w1 = head(&want, 1);
            match t {
                0x8100 | 0x88A8 | 0x9100 => {
                    case.at("SingleVlanSlice::from_slice");
                    let r = SingleVlanSlice::from_slice(b);
                    judge("SingleVlanSlice::from_slice", case, &w1, r.as_ref().map_err(|_| String::new()).and_then(|e| conv::vlan_layer(b, e).map(|l| vec![l])), r.as_ref().err());
                    case.at("SingleVlanHeaderSlice::from_slice");
                    let r = SingleVlanHeaderSlice::from_slice(b);
                    judge_header("SingleVlanHeaderSlice::from_slice", case, &want, r.as_ref().map_err(|_| String::new()).and_then(|e| conv::vlan_header_layer(b, e)), r.as_ref().err(), &lax);
                }
                0x88E5 => {
                    case.at("MacsecSlice::from_slice");
                    let r = MacsecSlice::from_slice(b);
                    judge("MacsecSlice::from_slice", case, &w1, r.as_ref().map_err(|_| String::new()).and_then(|e| conv::macsec_layer(b, e).map(|l| vec![l])), r.as_ref().err());
                    case.at("MacsecHeaderSlice::from_slice");
                    let r = MacsecHeaderSlice::from_slice(b);
                    judge_header("MacsecHeaderSlice::from_slice", case, &want, r.as_ref().map_err(|_| String::new()).and_then(|e| conv::macsec_header_layer(b, e)), r.as_ref().err(), &lax);
                }
                0x0806 => {
                    case.at("ArpPacketSlice::from_slice");
                    let r = ArpPacketSlice::from_slice(b);
                    judge("ArpPacketSlice::from_slice", case, &w1, r.as_ref().map_err(|_| String::new()).and_then(|e| conv::arp_layer(b, e).map(|l| vec![l])), r.as_ref().err());
                }
                _ => {}
            }
        }
        Door::Ip => {
            case.at("SlicedPacket::from_ip");
            let r = SlicedPacket::from_ip(b);
            judge("SlicedPacket::from_ip", case, &want, r.as_ref().map_err(|_| String::new()).and_then(|p| conv::sliced_layers(b, p)), r.as_ref().err());
            if let Ok(p) = &r {
                judge_views("SlicedPacket::from_ip", case, door, b, &want, p);
            }
            let wip = refdec::decode_ip_only(b, false, None);
            case.at("IpSlice::from_slice");
            let r = IpSlice::from_slice(b);
            judge(
                "IpSlice::from_slice",
                case,
                &wip,
                r.as_ref().map_err(|_| String::new()).and_then(|p| {
                    let mut v = vec![];
                    match p {
                        IpSlice::Ipv4(i) => conv::ipv4_layers(b, i, &mut v)?,
                        IpSlice::Ipv6(i) => conv::ipv6_layers(b, i, &mut v)?,
                    }
                    Ok(v)
                }),
                r.as_ref().err(),
            );
            let w4 = refdec::decode_ip_only(b, false, Some(4));
            case.at("Ipv4Slice::from_slice");
            let r = Ipv4Slice::from_slice(b);
            judge(
                "Ipv4Slice::from_slice",
                case,
                &w4,
                r.as_ref().map_err(|_| String::new()).and_then(|p| {
                    let mut v = vec![];
                    conv::ipv4_layers(b, p, &mut v)?;
                    Ok(v)
                }),
                r.as_ref().err(),
            );
            case.at("Ipv4HeaderSlice::from_slice");
            let r = Ipv4HeaderSlice::from_slice(b);
            let l4 = refdec::decode_ip_only(b, true, Some(4));
            judge_header("Ipv4HeaderSlice::from_slice", case, &w4, r.as_ref().map_err(|_| String::new()).and_then(|e| conv::ipv4_header_layer(b, e)), r.as_ref().err(), &l4);
            case.at("Ipv6HeaderSlice::from_slice");
            let r = Ipv6HeaderSlice::from_slice(b);
            let l6 = refdec::decode_ip_only(b, true, Some(6));
            let w6 = refdec::decode_ip_only(b, false, Some(6));
            judge_header("Ipv6HeaderSlice::from_slice", case, &w6, r.as_ref().map_err(|_| String::new()).and_then(|e| conv::ipv6_header_layer(b, e)), r.as_ref().err(), &l6);
            case.at("Ipv6Slice::from_slice");
            let r = Ipv6Slice::from_slice(b);
            judge(
                "Ipv6Slice::from_slice",
                case,
                &w6,
                r.as_ref().map_err(|_| String::new()).and_then(|p| {
                    let mut v = vec![];
                    conv::ipv6_layers(b, p, &mut v)?;
                    Ok(v)
                }),
                r.as_ref().err(),
            );
        }
        Door::Ipv4Exts(n) => {
            case.at("Ipv4ExtensionsSlice::from_slice");
            let r = Ipv4ExtensionsSlice::from_slice(IpNumber(n), b);
            judge(
                "Ipv4ExtensionsSlice::from_slice",
                case,
                &want,
                r.as_ref().map_err(|_| String::new()).and_then(|(e, _next, _rest)| match &e.auth {
                    Some(a) => conv::auth_layer(b, a).map(|l| vec![l]),
                    None => Ok(vec![]),
                }),
                r.as_ref().err(),
            );
            if let (Ok((_, next, rest)), None) = (&r, &want.stop) {
                let (wn, wo) = match want.layers.last() {
                    Some(l) => (l.fields[0].1 as u8, l.off + l.hlen),
                    None => (n, 0),
                };
                if next.0 != wn || crate::mem::rel(b, rest).map(|x| x.0 + if x.1 == 0 && wo == b.len() { 0 } else { 0 }) != Ok(wo) && !(rest.is_empty() && wo == b.len()) {
                    case.fail("exts-rest:Ipv4ExtensionsSlice::from_slice", format!("next {} rest at {:?}, expected next {} rest at {}", next.0, crate::mem::rel(b, rest), wn, wo));
                }
            }
        }
        Door::Ipv6Exts(n) => {
            case.at("Ipv6ExtensionsSlice::from_slice");
            let r = Ipv6ExtensionsSlice::from_slice(IpNumber(n), b);
            judge(
                "Ipv6ExtensionsSlice::from_slice",
                case,
                &want,
                r.as_ref().map_err(|_| String::new()).and_then(|(e, _next, _rest)| {
                    let mut v = vec![];
                    conv::ipv6_ext_layers(b, e, &mut v)?;
                    Ok(v)
                }),
                r.as_ref().err(),
            );
            if let (Ok((e, next, rest)), None) = (&r, &want.stop) {
                let (wn, wo) = match want.layers.last() {
                    Some(l) => (l.fields[0].1 as u8, l.off + l.hlen),
                    None => (n, 0),
                };
                let frag = want.layers.iter().any(|l| l.kind == RK::Frag && l.fragmented);
                if next.0 != wn || rest.len() != b.len() - wo || e.slice().len() != wo || e.is_fragmenting_payload() != frag {
                    case.fail(
                        "exts-rest:Ipv6ExtensionsSlice::from_slice",
                        format!("next {} rest {} bytes chain {} bytes fragmenting {}, expected next {} rest {} chain {} fragmenting {}", next.0, rest.len(), e.slice().len(), e.is_fragmenting_payload(), wn, b.len() - wo, wo, frag),
                    );
                }
            }
        }
        Door::Transport(n) => match n {
            17 => {
                case.at("UdpSlice::from_slice");
                let r = UdpSlice::from_slice(b);
                judge("UdpSlice::from_slice", case, &want, r.as_ref().map_err(|_| String::new()).and_then(|e| conv::udp_layer(b, e).map(|l| vec![l])), r.as_ref().err());
                case.at("UdpHeaderSlice::from_slice");
                let r = UdpHeaderSlice::from_slice(b);
                judge_header("UdpHeaderSlice::from_slice", case, &want, r.as_ref().map_err(|_| String::new()).and_then(|e| conv::udp_header_layer(b, e)), r.as_ref().err(), &lax);
            }
            6 => {
                case.at("TcpSlice::from_slice");
                let r = TcpSlice::from_slice(b);
                judge("TcpSlice::from_slice", case, &want, r.as_ref().map_err(|_| String::new()).and_then(|e| conv::tcp_layer(b, e).map(|l| vec![l])), r.as_ref().err());
                case.at("TcpHeaderSlice::from_slice");
                let r = TcpHeaderSlice::from_slice(b);
                judge_header("TcpHeaderSlice::from_slice", case, &want, r.as_ref().map_err(|_| String::new()).and_then(|e| conv::tcp_header_layer(b, e)), r.as_ref().err(), &lax);
            }
            1 => {
                case.at("Icmpv4Slice::from_slice");
                let r = Icmpv4Slice::from_slice(b);
                judge("Icmpv4Slice::from_slice", case, &want, r.as_ref().map_err(|_| String::new()).and_then(|e| conv::icmpv4_layer(b, e).map(|l| vec![l])), r.as_ref().err());
            }
            58 => {
                case.at("Icmpv6Slice::from_slice");
                let r = Icmpv6Slice::from_slice(b);
                judge("Icmpv6Slice::from_slice", case, &want, r.as_ref().map_err(|_| String::new()).and_then(|e| conv::icmpv6_layer(b, e).map(|l| vec![l])), r.as_ref().err());
            }
            _ => {}
        },
        Door::TcpOpts | Door::NdpOpts => {}
    }
}

pub fn door_class(d: Door) -> &'static str {
    match d {
        Door::Eth2 => "eth2",
        Door::Sll => "sll",
        Door::Ether(_) => "ether",
        Door::Ip => "ip",
        Door::Ipv4Exts(_) => "ipv4exts",
        Door::Ipv6Exts(_) => "ipv6exts",
        Door::Transport(_) => "transport",
        Door::TcpOpts | Door::NdpOpts => "options",
    }
}

impl Check for C03 {
    fn id(&self) -> &'static str {
        "C03"
    }
    fn rule(&self, tier: Tier) -> String {
        format!(
            "alphabet/bound: {}. Each case = (door, byte string) goes through the strict whole-packet slicer of its door and the strict single-layer slicers of its first layer. \
             oracle: independent reference decoder (safe Rust, written from the wire formats): same layer sequence, header (offset,len), payload (offset,len), every field value by own big-endian extraction, option/ICV/address sub-ranges, fragmentation flags, payload length source explained by a real field; Err iff the first faulty layer has a fault and the error names a fault really present there (either one when a header has two). \
             distinct = distinct (door, bytes) by 64-bit hash; non-trivial = the reference decodes at least one layer or stops behind the first header.",
            sweep::describe_bounds(tier)
        )
    }
    fn assumptions(&self, _tier: Tier) -> Vec<String> {
        vec![
            "the reference decoder is the trusted base; it is self-tested against the serialiser on every well-formed stack at start-up of each unit".into(),
            "which of several coexisting faults of ONE header is reported is not constrained (DESIGN.md 4/C03 reading)".into(),
        ]
    }
    fn units(&self, tier: Tier) -> u64 {
        sweep::units(tier)
    }
    fn dedup_bits(&self, tier: Tier) -> u32 {
        if tier.is_thorough() {
            30
        } else {
            26
        }
    }
    fn expect_reach(&self, _tier: Tier) -> Vec<String> {
        [
            "ok:Udp",
            "ok:Tcp",
            "ok:Icmpv4",
            "ok:Icmpv6",
            "ok:Arp",
            "stop:Macsec:MacsecSl>data",
            "stop:Ipv4:Ipv4Total>data",
            "stop:Ipv4:Ipv4Total<hdr",
            "stop:Ipv6:Ipv6Plen>data",
            "stop:Udp:UdpLen>data",
            "stop:Udp:UdpLen<hdr",
            "stop:Hbh:content:ipv6.hop_by_hop_not_at_start",
            "stop:Ah:content:ah.zero_payload_len",
            "stop:Tcp:content:tcp.data_offset",
            "stop:Icmpv4:oversize",
            "stop:Sll:content:sll.packet_type",
            "stop:Sll:content:sll.arphrd",
            "stop:Macsec:content:macsec.version",
            "stop:Macsec:content:macsec.short_len_1_unmodified",
            "stop:Vlan:short",
        ]
        .iter()
        .map(|s| s.to_string())
        .collect()
    }
    fn run_unit(&self, tier: Tier, u: u64, ctx: &mut Ctx) {
        sweep::run_unit(tier, u, ctx, &|door, bytes, _shape, case| check_case(door, bytes, case));
    }
}
