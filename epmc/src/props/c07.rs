//! C07 — length and content errors describe the real fault.
//!
//! E1 sweeps x every entry point that can return an error (strict Err, lax Err, lax stop
//! error). Every reported error is checked against the reference decoding of the same bytes:
//! the named layer is the faulty one, `layer_start_offset` is that layer's true offset from
//! the start of the buffer the caller passed, `len` is the number of bytes really available to
//! it (or the value of the too-small length field), `required_len` is a size the layer really
//! needs, `required_len > len` for missing and `< len` for oversized data, a non-slice length
//! source is reported only if that field exists and is what limits the layer to `len` bytes;
//! content errors carry the value that is present in the bytes.

use crate::fw::*;
use crate::pkt::conv::{self, CErr, ToCErr};
use crate::pkt::gen::Door;
use crate::pkt::refdec::{self, Fault, RStop, RefResult, RK};
use crate::pkt::sweep;
use etherparse::err::Layer;
use etherparse::*;
use std::io::Cursor;

pub struct C07;

fn judge_err(api: &'static str, case: &mut Case, want: &RefResult, e: &CErr) {
    case.nontrivial();
    case.reach(format!("err:{}", e.class()));
    match &want.stop {
        None => case.fail(format!("error-without-fault:{}:{}", api, e.class()), format!("{} reported {:?} but the reference finds no fault: {}", api, e, want.shape())),
        Some(st) => {
            if let Err(why) = conv::explain(e, st, true) {
                case.fail(format!("error-misdescribes-fault:{}:{}:{:?}:{}", api, e.class(), st.kind, clause(&why)), format!("{}: {:?}: {}", api, e, why));
            }
        }
    }
}

/// which clause of the property a mismatch text belongs to (value free, for the signature)
fn clause(why: &str) -> &'static str {
    if why.contains("layer_start_offset") {
        "layer_start_offset"
    } else if why.contains("names layer") {
        "layer"
    } else if why.contains("carries value") {
        "content-value"
    } else if why.contains("content error") {
        "content-rule"
    } else if why.contains("len_source") || why.contains("source") {
        "len_source-or-len"
    } else {
        "required_len-or-len"
    }
}

fn judge_stop(api: &'static str, case: &mut Case, want: &RefResult, stop: Option<(CErr, Layer)>) {
    if let Some((e, l)) = stop {
        judge_err(api, case, want, &e);
        if let Some(st) = &want.stop {
            if !conv::kinds_of_layer(l).contains(&st.kind) {
                case.fail(format!("stop-layer-wrong:{}:{:?}:{:?}", api, l, st.kind), format!("{}: stop error recorded on {:?} but the fault is in the {:?} layer at offset {}", api, l, st.kind, st.off));
            }
        }
    }
}

macro_rules! chk {
    ($case:expr, $api:literal, $want:expr, $r:expr) => {{
        $case.at($api);
        let r = $r;
        $case.eval();
        if let Err(e) = &r {
            judge_err($api, $case, $want, &e.cerr());
        }
        r
    }};
}

fn pstop(s: &Option<(err::packet::SliceError, Layer)>) -> Option<(CErr, Layer)> {
    s.as_ref().map(|(e, l)| (e.cerr(), *l))
}

/// reference for the extension skipping helpers (these also skip mobility / HIP / shim6 headers)
fn ref_skip(mut n: u8, b: &[u8], all: bool) -> Option<RStop> {
    let mut pos = 0usize;
    loop {
        let avail = b.len() - pos;
        let raw = matches!(n, 0 | 43 | 60 | 135 | 139 | 140);
        if !(raw || n == 44 || n == 51) {
            return None;
        }
        let kind = match n {
            44 => RK::Frag,
            51 => RK::Ah,
            0 => RK::Hbh,
            60 => RK::Dest,
            _ => RK::Routing,
        };
        if avail < 2 {
            return Some(RStop { kind, ip_generic: false, off: pos, avail, avail_srcs: vec![], faults: vec![Fault::Short { need: 2 }, Fault::Short { need: 8 }], first: pos == 0 });
        }
        let full = match n {
            44 => 8,
            51 => (b[pos + 1] as usize + 2) * 4,
            _ => (b[pos + 1] as usize + 1) * 8,
        };
        if avail < full {
            return Some(RStop { kind, ip_generic: false, off: pos, avail, avail_srcs: vec![], faults: vec![Fault::Short { need: full }], first: pos == 0 });
        }
        n = b[pos];
        pos += full;
        if !all {
            return None;
        }
    }
}

pub fn check_case(door: Door, b: &[u8], case: &mut Case) {
    let want = refdec::decode(door, b, false);
    let want_lax = refdec::decode(door, b, true);
    let want_s = refdec::decode_opts(door, b, false, true);
    let want_s_lax = refdec::decode_opts(door, b, true, true);
    case.outcome(format!("{}:{}", super::c03::door_class(door), want.shape()));
    // first layer only: what a single-layer decoder is concerned with
    let first = |w: &RefResult| -> RefResult {
        let mut r = w.clone();
        if !r.layers.is_empty() {
            r.stop = None;
        }
        r
    };
    let w1 = first(&want);
    match door {
        Door::Eth2 => {
            chk!(case, "SlicedPacket::from_ethernet", &want, SlicedPacket::from_ethernet(b)).ok();
            chk!(case, "PacketHeaders::from_ethernet_slice", &want_s, PacketHeaders::from_ethernet_slice(b)).ok();
            if let Ok(p) = chk!(case, "LaxSlicedPacket::from_ethernet", &want_lax, LaxSlicedPacket::from_ethernet(b)) {
                judge_stop("LaxSlicedPacket::from_ethernet", case, &want_lax, pstop(&p.stop_err));
            }
            if let Ok(p) = chk!(case, "LaxPacketHeaders::from_ethernet", &want_s_lax, LaxPacketHeaders::from_ethernet(b)) {
                judge_stop("LaxPacketHeaders::from_ethernet", case, &want_s_lax, pstop(&p.stop_err));
            }
            chk!(case, "Ethernet2Slice::from_slice_without_fcs", &w1, Ethernet2Slice::from_slice_without_fcs(b)).ok();
            chk!(case, "Ethernet2HeaderSlice::from_slice", &w1, Ethernet2HeaderSlice::from_slice(b)).ok();
            chk!(case, "Ethernet2Header::from_slice", &w1, Ethernet2Header::from_slice(b)).ok();
        }
        Door::Sll => {
            chk!(case, "SlicedPacket::from_linux_sll", &want, SlicedPacket::from_linux_sll(b)).ok();
            if let Ok(p) = chk!(case, "LaxPacketHeaders::from_linux_sll", &want_s_lax, LaxPacketHeaders::from_linux_sll(b)) {
                judge_stop("LaxPacketHeaders::from_linux_sll", case, &want_s_lax, pstop(&p.stop_err));
            }
            chk!(case, "LinuxSllSlice::from_slice", &w1, LinuxSllSlice::from_slice(b)).ok();
            chk!(case, "LinuxSllHeaderSlice::from_slice", &w1, LinuxSllHeaderSlice::from_slice(b)).ok();
            chk!(case, "LinuxSllHeader::from_slice", &w1, LinuxSllHeader::from_slice(b)).ok();
        }
        Door::Ether(t) => {
            let et = EtherType(t);
            chk!(case, "SlicedPacket::from_ether_type", &want, SlicedPacket::from_ether_type(et, b)).ok();
            chk!(case, "PacketHeaders::from_ether_type", &want_s, PacketHeaders::from_ether_type(et, b)).ok();
            case.at("LaxSlicedPacket::from_ether_type");
            let p = LaxSlicedPacket::from_ether_type(et, b);
            case.eval();
            judge_stop("LaxSlicedPacket::from_ether_type", case, &want_lax, pstop(&p.stop_err));
            case.at("LaxPacketHeaders::from_ether_type");
            let p = LaxPacketHeaders::from_ether_type(et, b);
            case.eval();
            judge_stop("LaxPacketHeaders::from_ether_type", case, &want_s_lax, pstop(&p.stop_err));
            match t {
                0x8100 | 0x88A8 | 0x9100 => {
                    chk!(case, "SingleVlanSlice::from_slice", &w1, SingleVlanSlice::from_slice(b)).ok();
                    chk!(case, "SingleVlanHeaderSlice::from_slice", &w1, SingleVlanHeaderSlice::from_slice(b)).ok();
                    chk!(case, "SingleVlanHeader::from_slice", &w1, SingleVlanHeader::from_slice(b)).ok();
                }
                0x88E5 => {
                    chk!(case, "MacsecSlice::from_slice", &w1, MacsecSlice::from_slice(b)).ok();
                    chk!(case, "LaxMacsecSlice::from_slice", &first(&want_lax), LaxMacsecSlice::from_slice(b)).ok();
                    chk!(case, "MacsecHeaderSlice::from_slice", &w1, MacsecHeaderSlice::from_slice(b)).ok();
                    chk!(case, "MacsecHeader::from_slice", &w1, MacsecHeader::from_slice(b)).ok();
                }
                0x0806 => {
                    chk!(case, "ArpPacketSlice::from_slice", &w1, ArpPacketSlice::from_slice(b)).ok();
                    chk!(case, "ArpPacket::from_slice", &w1, ArpPacket::from_slice(b)).ok();
                }
                _ => {}
            }
        }
        Door::Ip => {
            chk!(case, "SlicedPacket::from_ip", &want, SlicedPacket::from_ip(b)).ok();
            chk!(case, "PacketHeaders::from_ip_slice", &want_s, PacketHeaders::from_ip_slice(b)).ok();
            if let Ok(p) = chk!(case, "LaxSlicedPacket::from_ip", &want_lax, LaxSlicedPacket::from_ip(b)) {
                judge_stop("LaxSlicedPacket::from_ip", case, &want_lax, pstop(&p.stop_err));
            }
            if let Ok(p) = chk!(case, "LaxPacketHeaders::from_ip", &want_s_lax, LaxPacketHeaders::from_ip(b)) {
                judge_stop("LaxPacketHeaders::from_ip", case, &want_s_lax, pstop(&p.stop_err));
            }
            let wip = refdec::decode_ip_only(b, false, None);
            let w4 = refdec::decode_ip_only(b, false, Some(4));
            let w6 = refdec::decode_ip_only(b, false, Some(6));
            let wip_l = refdec::decode_ip_only(b, true, None);
            let w4_l = refdec::decode_ip_only(b, true, Some(4));
            let w6_l = refdec::decode_ip_only(b, true, Some(6));
            let sip = refdec::decode_ip_only_opts(b, false, None, true);
            let s4 = refdec::decode_ip_only_opts(b, false, Some(4), true);
            let s6 = refdec::decode_ip_only_opts(b, false, Some(6), true);
            let sip_l = refdec::decode_ip_only_opts(b, true, None, true);
            let s4_l = refdec::decode_ip_only_opts(b, true, Some(4), true);
            let s6_l = refdec::decode_ip_only_opts(b, true, Some(6), true);
            chk!(case, "IpSlice::from_slice", &wip, IpSlice::from_slice(b)).ok();
            chk!(case, "Ipv4Slice::from_slice", &w4, Ipv4Slice::from_slice(b)).ok();
            chk!(case, "Ipv6Slice::from_slice", &w6, Ipv6Slice::from_slice(b)).ok();
            chk!(case, "Ipv6Slice::from_slice_lax", &w6_l, Ipv6Slice::from_slice_lax(b)).ok();
            if let Ok((_, stop)) = chk!(case, "LaxIpSlice::from_slice", &wip_l, LaxIpSlice::from_slice(b)) {
                judge_stop("LaxIpSlice::from_slice", case, &wip_l, stop.as_ref().map(|(e, l)| (e.cerr(), *l)));
            }
            if let Ok((_, stop)) = chk!(case, "LaxIpv4Slice::from_slice", &w4_l, LaxIpv4Slice::from_slice(b)) {
                judge_stop("LaxIpv4Slice::from_slice", case, &w4_l, stop.as_ref().map(|e| (e.cerr(), Layer::IpAuthHeader)));
            }
            if let Ok((_, stop)) = chk!(case, "LaxIpv6Slice::from_slice", &w6_l, LaxIpv6Slice::from_slice(b)) {
                judge_stop("LaxIpv6Slice::from_slice", case, &w6_l, stop.as_ref().map(|(e, l)| (e.cerr(), *l)));
            }
            chk!(case, "IpHeaders::from_slice", &sip, IpHeaders::from_slice(b)).ok();
            chk!(case, "IpHeaders::from_ipv4_slice", &s4, IpHeaders::from_ipv4_slice(b)).ok();
            chk!(case, "IpHeaders::from_ipv6_slice", &s6, IpHeaders::from_ipv6_slice(b)).ok();
            if let Ok((_, _, stop)) = chk!(case, "IpHeaders::from_slice_lax", &sip_l, IpHeaders::from_slice_lax(b)) {
                judge_stop("IpHeaders::from_slice_lax", case, &sip_l, stop.as_ref().map(|(e, l)| (e.cerr(), *l)));
            }
            if let Ok((_, _, stop)) = chk!(case, "IpHeaders::from_ipv4_slice_lax", &s4_l, IpHeaders::from_ipv4_slice_lax(b)) {
                judge_stop("IpHeaders::from_ipv4_slice_lax", case, &s4_l, stop.as_ref().map(|e| (e.cerr(), Layer::IpAuthHeader)));
            }
            if let Ok((_, _, stop)) = chk!(case, "IpHeaders::from_ipv6_slice_lax", &s6_l, IpHeaders::from_ipv6_slice_lax(b)) {
                judge_stop("IpHeaders::from_ipv6_slice_lax", case, &s6_l, stop.as_ref().map(|(e, l)| (e.cerr(), *l)));
            }
            chk!(case, "Ipv4HeaderSlice::from_slice", &first(&w4), Ipv4HeaderSlice::from_slice(b)).ok();
            chk!(case, "Ipv4Header::from_slice", &first(&w4), Ipv4Header::from_slice(b)).ok();
            chk!(case, "Ipv6HeaderSlice::from_slice", &first(&w6), Ipv6HeaderSlice::from_slice(b)).ok();
            chk!(case, "Ipv6Header::from_slice", &first(&w6), Ipv6Header::from_slice(b)).ok();
            // limited reader: a length error of IpHeaders::read must be explained by a length field
            // (only judged where a length field of the packet really bounds the headers)
            case.at("IpHeaders::read");
            let mut c = Cursor::new(b);
            let r = IpHeaders::read(&mut c);
            case.eval();
            // a reader cannot compare the length field with the amount of data: where the reference's first fault is
            // "length field above the data" of the IP header itself the two worlds differ and nothing is judged
            let mut rd = sip.clone();
            let ip_len_fault = rd.stop.as_ref().map(|s| matches!(s.kind, RK::Ipv4 | RK::Ipv6) && s.faults.iter().any(|f| matches!(f, Fault::FieldAboveData { .. }))).unwrap_or(false);
            let plen0 = b.len() >= 40 && b[0] >> 4 == 6 && b[4] == 0 && b[5] == 0;
            if let Some(st) = rd.stop.as_mut() {
                // readers fetch the first two bytes of an extension header to learn its length
                if st.avail < 2 {
                    st.faults.push(Fault::Short { need: 2 });
                }
            }
            if !ip_len_fault && !plen0 {
                if let Err(err::ip::HeaderReadError::Len(l)) = &r {
                    judge_err("IpHeaders::read", case, &rd, &conv::len_err(l));
                }
                if let Err(err::ip::HeaderReadError::Content(c)) = &r {
                    judge_err("IpHeaders::read", case, &rd, &c.cerr());
                }
            }
        }
        Door::Ipv4Exts(n) => {
            let ipn = IpNumber(n);
            chk!(case, "Ipv4ExtensionsSlice::from_slice", &want, Ipv4ExtensionsSlice::from_slice(ipn, b)).ok();
            chk!(case, "Ipv4Extensions::from_slice", &want, Ipv4Extensions::from_slice(ipn, b)).ok();
            case.at("Ipv4ExtensionsSlice::from_slice_lax");
            let (_, _, _, stop) = Ipv4ExtensionsSlice::from_slice_lax(ipn, b);
            case.eval();
            judge_stop("Ipv4ExtensionsSlice::from_slice_lax", case, &want_lax, stop.as_ref().map(|e| (e.cerr(), Layer::IpAuthHeader)));
            case.at("Ipv4Extensions::from_slice_lax");
            let (_, _, _, stop) = Ipv4Extensions::from_slice_lax(ipn, b);
            case.eval();
            judge_stop("Ipv4Extensions::from_slice_lax", case, &want_lax, stop.as_ref().map(|e| (e.cerr(), Layer::IpAuthHeader)));
            if n == 51 {
                chk!(case, "IpAuthHeaderSlice::from_slice", &w1, IpAuthHeaderSlice::from_slice(b)).ok();
                chk!(case, "IpAuthHeader::from_slice", &w1, IpAuthHeader::from_slice(b)).ok();
            }
        }
        Door::Ipv6Exts(n) => {
            let ipn = IpNumber(n);
            chk!(case, "Ipv6ExtensionsSlice::from_slice", &want, Ipv6ExtensionsSlice::from_slice(ipn, b)).ok();
            chk!(case, "Ipv6Extensions::from_slice", &want_s, Ipv6Extensions::from_slice(ipn, b)).ok();
            case.at("Ipv6ExtensionsSlice::from_slice_lax");
            let (_, _, _, stop) = Ipv6ExtensionsSlice::from_slice_lax(ipn, b);
            case.eval();
            judge_stop("Ipv6ExtensionsSlice::from_slice_lax", case, &want_lax, stop.as_ref().map(|(e, l)| (e.cerr(), *l)));
            case.at("Ipv6Extensions::from_slice_lax");
            let (_, _, _, stop) = Ipv6Extensions::from_slice_lax(ipn, b);
            case.eval();
            judge_stop("Ipv6Extensions::from_slice_lax", case, &want_s_lax, stop.as_ref().map(|(e, l)| (e.cerr(), *l)));
            let mut ws = RefResult::default();
            ws.stop = ref_skip(n, b, false);
            chk!(case, "Ipv6Header::skip_header_extension_in_slice", &ws, Ipv6Header::skip_header_extension_in_slice(b, ipn)).ok();
            ws.stop = ref_skip(n, b, true);
            chk!(case, "Ipv6Header::skip_all_header_extensions_in_slice", &ws, Ipv6Header::skip_all_header_extensions_in_slice(b, ipn)).ok();
            match n {
                0 | 43 | 60 => {
                    chk!(case, "Ipv6RawExtHeaderSlice::from_slice", &w1, Ipv6RawExtHeaderSlice::from_slice(b)).ok();
                    chk!(case, "Ipv6RawExtHeader::from_slice", &w1, Ipv6RawExtHeader::from_slice(b)).ok();
                }
                44 => {
                    chk!(case, "Ipv6FragmentHeaderSlice::from_slice", &w1, Ipv6FragmentHeaderSlice::from_slice(b)).ok();
                    chk!(case, "Ipv6FragmentHeader::from_slice", &w1, Ipv6FragmentHeader::from_slice(b)).ok();
                }
                51 => {
                    chk!(case, "IpAuthHeaderSlice::from_slice", &w1, IpAuthHeaderSlice::from_slice(b)).ok();
                    chk!(case, "IpAuthHeader::from_slice", &w1, IpAuthHeader::from_slice(b)).ok();
                }
                _ => {}
            }
        }
        Door::Transport(n) => match n {
            17 => {
                chk!(case, "UdpSlice::from_slice", &want, UdpSlice::from_slice(b)).ok();
                chk!(case, "UdpSlice::from_slice_lax", &want_lax, UdpSlice::from_slice_lax(b)).ok();
                chk!(case, "UdpHeaderSlice::from_slice", &want_lax, UdpHeaderSlice::from_slice(b)).ok();
                chk!(case, "UdpHeader::from_slice", &want_lax, UdpHeader::from_slice(b)).ok();
            }
            6 => {
                chk!(case, "TcpSlice::from_slice", &want, TcpSlice::from_slice(b)).ok();
                chk!(case, "TcpHeaderSlice::from_slice", &want, TcpHeaderSlice::from_slice(b)).ok();
                chk!(case, "TcpHeader::from_slice", &want, TcpHeader::from_slice(b)).ok();
            }
            1 => {
                chk!(case, "Icmpv4Slice::from_slice", &want, Icmpv4Slice::from_slice(b)).ok();
                chk!(case, "Icmpv4Header::from_slice", &want, Icmpv4Header::from_slice(b)).ok();
            }
            58 => {
                chk!(case, "Icmpv6Slice::from_slice", &want, Icmpv6Slice::from_slice(b)).ok();
                chk!(case, "Icmpv6Header::from_slice", &want, Icmpv6Header::from_slice(b)).ok();
            }
            _ => {}
        },
        Door::TcpOpts | Door::NdpOpts => {}
    }
}

impl Check for C07 {
    fn id(&self) -> &'static str {
        "C07"
    }
    fn rule(&self, tier: Tier) -> String {
        format!(
            "alphabet/bound: {}. Each case = (door, byte string) goes through every strict and lax, whole-packet and single-layer, slice and struct decoder of the door (about 70 entry points in total) and IpHeaders::read; every Err and every lax stop error is compared with the reference decoding: layer, layer_start_offset == true offset of the faulty layer in the caller's buffer, len == bytes really available (or the too-small field value), required_len == a size the layer really needs, direction of the inequality, non-slice len_source only for a field in front of the layer that bounds it to exactly `len` bytes (or the ARP size fields / the too-small field itself), content errors carry the bits present. \
             distinct = distinct (door, bytes); non-trivial = at least one entry point reported an error.",
            sweep::describe_bounds(tier)
        )
    }
    fn assumptions(&self, _tier: Tier) -> Vec<String> {
        vec![
            "reporting the slice as length source is always accepted (the property only restricts non-slice sources)".into(),
            "IpHeaders::read with an IPv6 payload length of 0 is not judged (a reader cannot know the end of the enclosing data)".into(),
            "when one header has several faults any of them may be the reported one".into(),
        ]
    }
    fn units(&self, tier: Tier) -> u64 {
        sweep::units(tier)
    }
    fn dedup_bits(&self, tier: Tier) -> u32 {
        if tier.is_thorough() {
            30
        } else {
            26
        }
    }
    fn expect_reach(&self, _tier: Tier) -> Vec<String> {
        [
            "err:Len(VlanHeader)",
            "err:Len(MacsecHeader)",
            "err:Len(MacsecPacket)",
            "err:Len(Ipv4Packet)",
            "err:Len(Ipv6Packet)",
            "err:Len(Ipv6ExtHeader)",
            "err:Len(IpAuthHeader)",
            "err:Len(UdpPayload)",
            "err:Len(UdpHeader)",
            "err:Len(TcpHeader)",
            "err:Len(Icmpv4Timestamp)",
            "err:Len(Arp)",
            "err:Content(ipv4.ihl)",
            "err:Content(ip.version)",
            "err:Content(tcp.data_offset)",
            "err:Content(sll.arphrd)",
        ]
        .iter()
        .map(|s| s.to_string())
        .collect()
    }
    fn run_unit(&self, tier: Tier, u: u64, ctx: &mut Ctx) {
        sweep::run_unit(tier, u, ctx, &|door, bytes, _shape, case| check_case(door, bytes, case));
    }
}
