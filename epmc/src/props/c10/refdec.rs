//! Independent reference decoder for every packet shape `PacketBuilder` can emit.
//!
//! Plain safe Rust written from the format definitions, no etherparse code:
//! Ethernet II (IEEE 802.3 §3.2, 14 bytes), IEEE 802.1Q/802.1ad tags (4 bytes),
//! LINKTYPE_LINUX_SLL (16 bytes), ARP (RFC 826), IPv4 (RFC 791) incl. options,
//! AH (RFC 4302 §2), IPv6 and its extension header chain (RFC 8200 §4), UDP (RFC 768),
//! TCP incl. options (RFC 9293 §3.1), ICMPv4 (RFC 792), ICMPv6 (RFC 4443 §2.1) and the
//! Internet checksum (RFC 1071) over the pseudo headers of RFC 768 / 9293 §3.1 / 8200 §8.1.
//!
//! The decoder is *strict about derived fields*: every length field must equal the number
//! of bytes that are really there, every checksum must verify, every type field must name
//! a layer that then decodes. It returns the configured (non derived) fields as a list of
//! [`Layer`]s which the check compares with the configuration.

#[derive(Clone, Debug, PartialEq, Eq)]
pub enum Layer {
    Eth { dst: [u8; 6], src: [u8; 6] },
    Sll { ptype: u16, hatype: u16, halen: u16, addr: [u8; 8] },
    Vlan { pcp: u8, dei: bool, vid: u16 },
    Arp { htype: u16, ptype: u16, oper: u16, sha: Vec<u8>, spa: Vec<u8>, tha: Vec<u8>, tpa: Vec<u8> },
    V4 { dscp: u8, ecn: u8, id: u16, df: bool, mf: bool, frag: u16, ttl: u8, src: [u8; 4], dst: [u8; 4], options: Vec<u8> },
    V6 { tc: u8, flow: u32, hop: u8, src: [u8; 16], dst: [u8; 16] },
    /// extension header announced by protocol number `kind`; `body` = everything behind the
    /// (next header, length) bytes (fragment: offset/flags + identification; AH: SPI, sequence number, ICV)
    Ext { kind: u8, body: Vec<u8> },
    Udp { sp: u16, dp: u16 },
    /// flags: bit 8 = NS, bits 7..0 = CWR ECE URG ACK PSH RST SYN FIN; opts = (kind, data) up to End-of-Options
    Tcp { sp: u16, dp: u16, seq: u32, ack: u32, flags: u16, win: u16, urg: u16, opts: Vec<(u8, Vec<u8>)> },
    Icmp4 { typ: u8, code: u8, rest: [u8; 4] },
    Icmp6 { typ: u8, code: u8, rest: [u8; 4] },
    /// an upper layer that is not decoded (raw `write(.., ip_number, ..)`)
    Other { proto: u8 },
}

impl Layer {
    pub fn name(&self) -> &'static str {
        match self {
            Layer::Eth { .. } => "Ethernet2",
            Layer::Sll { .. } => "LinuxSll",
            Layer::Vlan { .. } => "Vlan",
            Layer::Arp { .. } => "Arp",
            Layer::V4 { .. } => "Ipv4",
            Layer::V6 { .. } => "Ipv6",
            Layer::Ext { kind: 0, .. } => "Ext:HopByHop",
            Layer::Ext { kind: 60, .. } => "Ext:DestOptions",
            Layer::Ext { kind: 43, .. } => "Ext:Routing",
            Layer::Ext { kind: 44, .. } => "Ext:Fragment",
            Layer::Ext { kind: 51, .. } => "Ext:Auth",
            Layer::Ext { .. } => "Ext:?",
            Layer::Udp { .. } => "Udp",
            Layer::Tcp { .. } => "Tcp",
            Layer::Icmp4 { .. } => "Icmpv4",
            Layer::Icmp6 { .. } => "Icmpv6",
            Layer::Other { .. } => "Other",
        }
    }
}

#[derive(Clone, Copy, PartialEq, Eq, Debug)]
pub enum Start {
    Eth,
    Sll,
    Ip,
}

#[derive(Clone, Copy)]
pub struct Opts {
    /// walk at most this many extension headers (used when the upper-layer protocol number handed to the raw
    /// `write` is itself an extension header number, so that the user payload is not mistaken for one)
    pub max_exts: Option<usize>,
    /// do not decode the upper layer, report `Other{proto}` (raw `write`)
    pub opaque_upper: bool,
}

pub struct Decoded {
    pub layers: Vec<Layer>,
    /// offset of the payload behind the last decoded header
    pub payload_off: usize,
    /// raw TCP option bytes (header bytes 20..data offset)
    pub tcp_opts_raw: Vec<u8>,
}

/// (value free reason, detail with values)
pub type Reject = (&'static str, String);

fn be16(b: &[u8], o: usize) -> u16 {
    u16::from_be_bytes([b[o], b[o + 1]])
}
fn be32(b: &[u8], o: usize) -> u32 {
    u32::from_be_bytes([b[o], b[o + 1], b[o + 2], b[o + 3]])
}

// ---- RFC 1071 ---------------------------------------------------------------------------------

/// sum of big-endian 16 bit words, an odd trailing byte is padded with zero on the right
pub fn sum16(data: &[u8]) -> u64 {
    let mut s = 0u64;
    let mut it = data.chunks_exact(2);
    for w in &mut it {
        s += ((w[0] as u64) << 8) | w[1] as u64;
    }
    if let [last] = it.remainder() {
        s += (*last as u64) << 8;
    }
    s
}
pub fn fold(mut s: u64) -> u16 {
    while s >> 16 != 0 {
        s = (s & 0xffff) + (s >> 16);
    }
    s as u16
}

#[derive(Clone, Copy)]
enum Pseudo {
    V4 { src: [u8; 4], dst: [u8; 4] },
    V6 { src: [u8; 16], dst: [u8; 16] },
}

impl Pseudo {
    /// RFC 768 / RFC 9293 §3.1 (IPv4: src, dst, zero, protocol, length) and RFC 8200 §8.1
    /// (IPv6: src, dst, 32 bit upper-layer length, 3 zero bytes, next header)
    fn sum(&self, proto: u8, upper_len: usize) -> u64 {
        match self {
            Pseudo::V4 { src, dst } => sum16(src) + sum16(dst) + proto as u64 + (upper_len as u64 & 0xffff) + ((upper_len as u64) >> 16),
            Pseudo::V6 { src, dst } => {
                let l = (upper_len as u32).to_be_bytes();
                sum16(src) + sum16(dst) + sum16(&l) + proto as u64
            }
        }
    }
}

// ---- decoder ------------------------------------------------------------------------------------

pub fn decode(b: &[u8], start: Start, opts: Opts) -> Result<Decoded, Reject> {
    let mut d = Decoded { layers: vec![], payload_off: 0, tcp_opts_raw: vec![] };
    match start {
        Start::Eth => {
            if b.len() < 14 {
                return Err(("ethernet2:truncated", format!("{} bytes", b.len())));
            }
            d.layers.push(Layer::Eth { dst: b[0..6].try_into().unwrap(), src: b[6..12].try_into().unwrap() });
            ether_chain(b, be16(b, 12), 14, opts, &mut d)?;
        }
        Start::Sll => {
            if b.len() < 16 {
                return Err(("linux_sll:truncated", format!("{} bytes", b.len())));
            }
            let hatype = be16(b, 2);
            d.layers.push(Layer::Sll { ptype: be16(b, 0), hatype, halen: be16(b, 4), addr: b[6..14].try_into().unwrap() });
            if hatype != 1 {
                return Err(("linux_sll:hatype-not-ethernet-so-protocol-is-no-ether-type", format!("ARPHRD {}", hatype)));
            }
            ether_chain(b, be16(b, 14), 16, opts, &mut d)?;
        }
        Start::Ip => {
            if b.is_empty() {
                return Err(("ip:empty", String::new()));
            }
            match b[0] >> 4 {
                4 => ipv4(b, 0, opts, &mut d)?,
                6 => ipv6(b, 0, opts, &mut d)?,
                v => return Err(("ip:version", format!("version nibble {}", v))),
            }
        }
    }
    Ok(d)
}

fn ether_chain(b: &[u8], mut et: u16, mut off: usize, opts: Opts, d: &mut Decoded) -> Result<(), Reject> {
    let mut tags = 0;
    loop {
        match et {
            // C-TAG, S-TAG (802.1ad) and the pre-standard QinQ TPID: a 4 byte tag follows
            0x8100 | 0x88a8 | 0x9100 => {
                if b.len() < off + 4 {
                    return Err(("vlan:truncated", format!("ether type {:#06x} at offset {} announces a VLAN tag but only {} bytes follow", et, off - 2, b.len() - off)));
                }
                tags += 1;
                if tags > 8 {
                    return Err(("vlan:too-many-tags", String::new()));
                }
                let tci = be16(b, off);
                d.layers.push(Layer::Vlan { pcp: (tci >> 13) as u8, dei: tci & 0x1000 != 0, vid: tci & 0x0fff });
                et = be16(b, off + 2);
                off += 4;
            }
            0x0800 => {
                if b.len() <= off || b[off] >> 4 != 4 {
                    return Err(("ether-type:ipv4-announced-but-not-following", format!("ether type 0x0800 but first byte behind it is {:?}", b.get(off))));
                }
                return ipv4(b, off, opts, d);
            }
            0x86dd => {
                if b.len() <= off || b[off] >> 4 != 6 {
                    return Err(("ether-type:ipv6-announced-but-not-following", format!("ether type 0x86dd but first byte behind it is {:?}", b.get(off))));
                }
                return ipv6(b, off, opts, d);
            }
            0x0806 => return arp(b, off, d),
            _ => return Err(("ether-type:names-no-layer-the-builder-emits", format!("ether type {:#06x} at offset {}", et, off - 2))),
        }
    }
}

fn arp(b: &[u8], off: usize, d: &mut Decoded) -> Result<(), Reject> {
    let r = &b[off..];
    if r.len() < 8 {
        return Err(("arp:truncated", format!("{} bytes", r.len())));
    }
    let (h, p) = (r[4] as usize, r[5] as usize);
    let total = 8 + 2 * h + 2 * p;
    if r.len() != total {
        return Err(("arp:size-does-not-match-address-lengths", format!("hlen {} plen {} need {} bytes, {} present", h, p, total, r.len())));
    }
    let mut o = 8;
    let mut take = |n: usize| {
        let v = r[o..o + n].to_vec();
        o += n;
        v
    };
    let sha = take(h);
    let spa = take(p);
    let tha = take(h);
    let tpa = take(p);
    d.layers.push(Layer::Arp { htype: be16(r, 0), ptype: be16(r, 2), oper: be16(r, 6), sha, spa, tha, tpa });
    d.payload_off = b.len();
    Ok(())
}

fn auth(b: &[u8], off: usize, d: &mut Decoded) -> Result<(u8, usize), Reject> {
    let r = &b[off..];
    if r.len() < 12 {
        return Err(("ah:truncated", format!("{} bytes", r.len())));
    }
    // RFC 4302 §2.2: payload len = length of AH in 32 bit words minus 2
    let len = (r[1] as usize + 2) * 4;
    if len < 12 || len > r.len() {
        return Err(("ah:payload-len-field", format!("payload len {} => {} bytes, {} present", r[1], len, r.len())));
    }
    if r[2] != 0 || r[3] != 0 {
        return Err(("ah:reserved-not-zero", format!("{:02x}{:02x}", r[2], r[3])));
    }
    d.layers.push(Layer::Ext { kind: 51, body: r[4..len].to_vec() });
    Ok((r[0], off + len))
}

fn ipv4(b: &[u8], off: usize, opts: Opts, d: &mut Decoded) -> Result<(), Reject> {
    let r = &b[off..];
    if r.len() < 20 {
        return Err(("ipv4:truncated", format!("{} bytes", r.len())));
    }
    if r[0] >> 4 != 4 {
        return Err(("ipv4:version", format!("{}", r[0] >> 4)));
    }
    let hl = (r[0] & 0xf) as usize * 4;
    if hl < 20 || hl > r.len() {
        return Err(("ipv4:ihl", format!("ihl {} with {} bytes", r[0] & 0xf, r.len())));
    }
    let total = be16(r, 2) as usize;
    if total != r.len() {
        return Err(("ipv4:total-length-differs-from-real-size", format!("total length field {} but {} bytes were written from the IPv4 header on", total, r.len())));
    }
    if fold(sum16(&r[..hl])) != 0xffff {
        return Err(("ipv4:header-checksum-does-not-verify", format!("header {} sums to {:#06x}", crate::fw::hex(&r[..hl]), fold(sum16(&r[..hl])))));
    }
    if r[6] & 0x80 != 0 {
        return Err(("ipv4:reserved-flag-set", String::new()));
    }
    let src: [u8; 4] = r[12..16].try_into().unwrap();
    let dst: [u8; 4] = r[16..20].try_into().unwrap();
    let frag = be16(r, 6) & 0x1fff;
    let mf = r[6] & 0x20 != 0;
    d.layers.push(Layer::V4 { dscp: r[1] >> 2, ecn: r[1] & 3, id: be16(r, 4), df: r[6] & 0x40 != 0, mf, frag, ttl: r[8], src, dst, options: r[20..hl].to_vec() });
    let mut proto = r[9];
    let mut pos = off + hl;
    let mut n = 0usize;
    if proto == 51 && opts.max_exts.map(|m| n < m).unwrap_or(true) {
        let (nh, p) = auth(b, pos, d)?;
        proto = nh;
        pos = p;
        n += 1;
    }
    let _ = n;
    if frag != 0 || mf || opts.opaque_upper {
        d.layers.push(Layer::Other { proto });
        d.payload_off = pos;
        return Ok(());
    }
    upper(b, pos, proto, Pseudo::V4 { src, dst }, d)
}

fn ipv6(b: &[u8], off: usize, opts: Opts, d: &mut Decoded) -> Result<(), Reject> {
    let r = &b[off..];
    if r.len() < 40 {
        return Err(("ipv6:truncated", format!("{} bytes", r.len())));
    }
    if r[0] >> 4 != 6 {
        return Err(("ipv6:version", format!("{}", r[0] >> 4)));
    }
    let plen = be16(r, 4) as usize;
    if plen != r.len() - 40 {
        return Err(("ipv6:payload-length-differs-from-real-size", format!("payload length field {} but {} bytes follow the IPv6 header", plen, r.len() - 40)));
    }
    let src: [u8; 16] = r[8..24].try_into().unwrap();
    let dst: [u8; 16] = r[24..40].try_into().unwrap();
    d.layers.push(Layer::V6 { tc: (r[0] << 4) | (r[1] >> 4), flow: be32(r, 0) & 0x000f_ffff, hop: r[7], src, dst });
    let mut nh = r[6];
    let mut pos = off + 40;
    let mut n = 0usize;
    let mut fragmented = false;
    loop {
        if let Some(m) = opts.max_exts {
            if n >= m {
                break;
            }
        }
        let e = &b[pos..];
        match nh {
            0 | 60 | 43 => {
                if nh == 0 && n != 0 {
                    return Err(("ipv6:hop-by-hop-not-directly-behind-ipv6-header", format!("extension #{}", n)));
                }
                if e.len() < 8 {
                    return Err(("ipv6-ext:truncated", format!("next header {} announced at offset {} but {} bytes follow", nh, pos, e.len())));
                }
                // RFC 8200 §4.3/4.4/4.6: length in 8 octet units not including the first 8 octets
                let len = (e[1] as usize + 1) * 8;
                if len > e.len() {
                    return Err(("ipv6-ext:length-field", format!("ext {} hdr ext len {} => {} bytes, {} present", nh, e[1], len, e.len())));
                }
                d.layers.push(Layer::Ext { kind: nh, body: e[2..len].to_vec() });
                nh = e[0];
                pos += len;
            }
            44 => {
                if e.len() < 8 {
                    return Err(("ipv6-ext:truncated", format!("fragment header announced at offset {} but {} bytes follow", pos, e.len())));
                }
                let of = be16(e, 2);
                if of >> 3 != 0 || of & 1 != 0 {
                    fragmented = true;
                }
                d.layers.push(Layer::Ext { kind: 44, body: e[2..8].to_vec() });
                nh = e[0];
                pos += 8;
            }
            51 => {
                let (x, p) = auth(b, pos, d)?;
                nh = x;
                pos = p;
            }
            _ => break,
        }
        n += 1;
        if n > 16 {
            return Err(("ipv6-ext:chain-too-long", String::new()));
        }
    }
    if fragmented || opts.opaque_upper {
        d.layers.push(Layer::Other { proto: nh });
        d.payload_off = pos;
        return Ok(());
    }
    upper(b, pos, nh, Pseudo::V6 { src, dst }, d)
}

fn upper(b: &[u8], off: usize, proto: u8, ps: Pseudo, d: &mut Decoded) -> Result<(), Reject> {
    let s = &b[off..];
    match proto {
        17 => {
            if s.len() < 8 {
                return Err(("udp:truncated", format!("{} bytes", s.len())));
            }
            let l = be16(s, 4) as usize;
            if l != s.len() {
                return Err(("udp:length-differs-from-real-size", format!("length field {} but header + payload are {} bytes", l, s.len())));
            }
            if be16(s, 6) == 0 {
                return Err(("udp:checksum-zero", "the builder promises a computed checksum; 0 means `none` (IPv4) / is illegal (IPv6); a computed 0 must be sent as 0xffff".into()));
            }
            let f = fold(ps.sum(17, s.len()) + sum16(s));
            if f != 0xffff {
                return Err(("udp:checksum-does-not-verify", format!("checksum field {:#06x}: pseudo header + datagram sum to {:#06x}", be16(s, 6), f)));
            }
            d.layers.push(Layer::Udp { sp: be16(s, 0), dp: be16(s, 2) });
            d.payload_off = off + 8;
        }
        6 => {
            if s.len() < 20 {
                return Err(("tcp:truncated", format!("{} bytes", s.len())));
            }
            let hl = (s[12] >> 4) as usize * 4;
            if hl < 20 || hl > s.len() {
                return Err(("tcp:data-offset", format!("data offset {} with {} bytes", s[12] >> 4, s.len())));
            }
            let f = fold(ps.sum(6, s.len()) + sum16(s));
            if f != 0xffff {
                return Err(("tcp:checksum-does-not-verify", format!("checksum field {:#06x}: pseudo header + segment sum to {:#06x}", be16(s, 16), f)));
            }
            let o = &s[20..hl];
            let mut opts = vec![];
            let mut i = 0;
            while i < o.len() {
                match o[i] {
                    0 => break,
                    1 => {
                        opts.push((1u8, vec![]));
                        i += 1;
                    }
                    k => {
                        if i + 1 >= o.len() || (o[i + 1] as usize) < 2 || i + o[i + 1] as usize > o.len() {
                            return Err(("tcp:option-malformed", format!("options {} at {}", crate::fw::hex(o), i)));
                        }
                        let l = o[i + 1] as usize;
                        opts.push((k, o[i + 2..i + l].to_vec()));
                        i += l;
                    }
                }
            }
            d.tcp_opts_raw = o.to_vec();
            d.layers.push(Layer::Tcp {
                sp: be16(s, 0),
                dp: be16(s, 2),
                seq: be32(s, 4),
                ack: be32(s, 8),
                flags: (((s[12] & 1) as u16) << 8) | s[13] as u16,
                win: be16(s, 14),
                urg: be16(s, 18),
                opts,
            });
            d.payload_off = off + hl;
        }
        1 => {
            if s.len() < 8 {
                return Err(("icmpv4:truncated", format!("{} bytes", s.len())));
            }
            // RFC 792: checksum over the ICMP message only (also when carried by IPv6, where it has no defined pseudo header)
            let f = fold(sum16(s));
            if f != 0xffff {
                return Err(("icmpv4:checksum-does-not-verify", format!("checksum field {:#06x}: message sums to {:#06x}", be16(s, 2), f)));
            }
            d.layers.push(Layer::Icmp4 { typ: s[0], code: s[1], rest: s[4..8].try_into().unwrap() });
            d.payload_off = off + 8;
        }
        58 => {
            if s.len() < 8 {
                return Err(("icmpv6:truncated", format!("{} bytes", s.len())));
            }
            if let Pseudo::V4 { .. } = ps {
                return Err(("icmpv6:carried-by-ipv4", "RFC 4443 §2.3 defines the checksum over the IPv6 pseudo header only".into()));
            }
            let f = fold(ps.sum(58, s.len()) + sum16(s));
            if f != 0xffff {
                return Err(("icmpv6:checksum-does-not-verify", format!("checksum field {:#06x}: pseudo header + message sum to {:#06x}", be16(s, 2), f)));
            }
            d.layers.push(Layer::Icmp6 { typ: s[0], code: s[1], rest: s[4..8].try_into().unwrap() });
            d.payload_off = off + 8;
        }
        p => {
            d.layers.push(Layer::Other { proto: p });
            d.payload_off = off;
        }
    }
    Ok(())
}
