//! C10 — `ip(IpHeaders::Ipv4(..))` with a *fragmenting* header (MF set and/or fragment offset != 0, DF either way).
//!
//! Differential oracle with no hand-written expected bytes: packet A is built from the same configuration with
//! (DF 1, MF 0, offset 0) — the configuration that the product part of C10 decodes field by field — and packet B
//! with the fragment fields under test. B must have the announced size through all three writers, must equal A
//! everywhere except the flags/offset word and the header checksum, must carry exactly the supplied DF/MF/offset,
//! its header checksum must verify by the own RFC 1071 sum, and the crate's strict parser must accept it, give the
//! supplied fragment fields back, flag the payload as fragmented, decode no transport layer and hand out the bytes
//! behind the IP layer unchanged. A payload too large for the total length field is refused exactly as for A.

use super::cfg::*;
use super::oracle::{Outcome, VEC_PREFIX};
use super::refdec::{fold, sum16};
use crate::fw::*;
use etherparse::*;

fn with_frag<R>(f: Option<(bool, bool, u16)>, g: impl FnOnce() -> R) -> R {
    V4_FRAG.with(|c| c.set(f));
    let r = g();
    V4_FRAG.with(|c| c.set(None));
    r
}

fn ploc(p: &str) -> String {
    let loc = p.rsplit(" @ ").next().unwrap_or("?");
    loc.rsplit("/src/").next().unwrap_or(loc).to_string()
}

/// `PacketHeaders` (decoding into header structs) on a built packet with a fragmenting header: the supplied fragment
/// fields come back, no transport header is decoded, the payload is an IP payload flagged as fragmented and is a
/// tail of the packet that ends with the supplied payload. SLL stackings have no `PacketHeaders` door and are skipped.
fn check_headers(c: &Cfg, o1: &[u8], payload: &[u8], want4: Option<(bool, bool, u16)>, want6: Option<(bool, u16)>, case: &mut Case) -> bool {
    let who = match c.link {
        LinkC::None => "PacketHeaders::from_ip_slice",
        LinkC::Eth => "PacketHeaders::from_ethernet_slice",
        LinkC::Sll(_) => return true,
    };
    case.at(who);
    case.eval();
    let parsed = guarded(|| match c.link {
        LinkC::None => PacketHeaders::from_ip_slice(o1).map_err(|e| format!("{:?}", e)),
        _ => PacketHeaders::from_ethernet_slice(o1).map_err(|e| format!("{:?}", e)),
    });
    let ph = match parsed {
        Ok(Ok(p)) => p,
        Ok(Err(e)) => {
            case.fail("header-decoder-rejects-built-packet:fragmenting", format!("{} -> Err({})", who, truncate(&e, 300)));
            return false;
        }
        Err(p) => {
            case.fail(format!("panic:parse:{}", ploc(&p)), format!("{} panicked: {}", who, p));
            return false;
        }
    };
    let got4 = match &ph.net {
        Some(NetHeaders::Ipv4(h, _)) => Some((h.dont_fragment, h.more_fragments, h.fragment_offset.value())),
        _ => None,
    };
    let got6 = match &ph.net {
        Some(NetHeaders::Ipv6(_, e)) => e.fragment.as_ref().map(|f| (f.more_fragments, f.fragment_offset.value())),
        _ => None,
    };
    if got4 != want4 || got6 != want6 {
        case.fail("headers:not-recovered:fragment-fields", format!("supplied v4 (DF, MF, offset) {:?} / v6 (M, offset) {:?}, decoded {:?} / {:?}", want4, want6, got4, got6));
        return false;
    }
    if ph.transport.is_some() {
        case.fail("headers:transport-decoded-from-fragment", "a transport header was decoded behind a fragmenting header".to_string());
        return false;
    }
    match &ph.payload {
        PayloadSlice::Ip(p) if p.fragmented && p.payload.len() >= payload.len() && p.payload.len() <= o1.len() && p.payload == &o1[o1.len() - p.payload.len()..] && &p.payload[p.payload.len() - payload.len()..] == payload => true,
        other => {
            case.fail("headers:payload-not-recovered:fragmenting", format!("payload is {}", truncate(&format!("{:?}", other), 200)));
            false
        }
    }
}

pub fn check(c: &Cfg, t: &Tables, payload: &[u8], df: bool, mf: bool, off: u16, case: &mut Case) -> Outcome {
    let plen = payload.len();
    let l = lens(c, t);
    let fr = Some((df, mf, off));

    // ---- A: the unfragmented sibling
    case.at("PacketBuilderStep::write");
    let a = make(c, t);
    let mut oa: Vec<u8> = vec![];
    case.eval();
    let ra = match guarded(|| a.write(&mut oa, payload)) {
        Ok(r) => r,
        Err(p) => {
            case.fail(format!("panic:write:{}", ploc(&p)), format!("write panicked: {}", p));
            return Outcome::Bad;
        }
    };

    // ---- B: size and the three writers
    case.at("PacketBuilderStep::size");
    let b = with_frag(fr, || make(c, t));
    case.eval();
    let size = match guarded(|| b.size(plen)) {
        Ok(s) => s,
        Err(p) => {
            case.fail(format!("panic:size:{}", ploc(&p)), format!("size({}) panicked: {}", plen, p));
            return Outcome::Bad;
        }
    };
    case.at("PacketBuilderStep::write");
    let mut o1: Vec<u8> = vec![];
    case.eval();
    let r1 = guarded(|| b.write(&mut o1, payload));
    case.at("PacketBuilderStep::write_to_vec");
    let mut o2: Vec<u8> = VEC_PREFIX.to_vec();
    let b2 = with_frag(fr, || make(c, t));
    case.eval();
    let r2 = guarded(|| b2.write_to_vec(&mut o2, payload));
    case.at("PacketBuilderStep::write_to_slice");
    let mut o3 = vec![0xaau8; size.min(1 << 18)];
    let b3 = with_frag(fr, || make(c, t));
    case.eval();
    let r3 = guarded(|| b3.write_to_slice(&mut o3, payload));
    let (r1, r2, r3) = match (r1, r2, r3) {
        (Ok(a), Ok(b), Ok(c)) => (a, b, c),
        (a, b, c) => {
            let p = a.err().or(b.err()).or(c.err().map(|e| e)).unwrap_or_default();
            case.fail(format!("panic:writer:{}", ploc(&p)), format!("a writer panicked instead of returning a result: {}", p));
            return Outcome::Bad;
        }
    };
    if o2.len() < 3 || o2[..3] != VEC_PREFIX {
        case.fail("write_to_vec:clobbers-existing-content", format!("the 3 bytes that were in the Vec before are now {}", hex(&o2[..o2.len().min(3)])));
        return Outcome::Bad;
    }
    let o2 = &o2[3..];

    match (&ra, &r1, &r2, &r3) {
        (Err(ea), Err(e1), Err(_), Err(_)) => {
            if ea.0 != e1.0 {
                case.fail("fragment-fields-change-the-error", format!("unfragmented sibling -> Err({}), with DF {} MF {} offset {} -> Err({})", ea.1, df, mf, off, e1.1));
                return Outcome::Bad;
            }
            return Outcome::Err("payload-too-big-ipv4");
        }
        (Ok(()), Ok(()), Ok(()), Ok(n3)) => {
            if o1.len() != size || o2.len() != size || *n3 != size {
                case.fail("size-differs-from-written:fragmenting", format!("size({}) = {} but write produced {}, write_to_vec {}, write_to_slice {} bytes", plen, size, o1.len(), o2.len(), n3));
                return Outcome::Bad;
            }
            if o1[..] != o2[..] || o1[..] != o3[..size] {
                case.fail("writers-produce-different-bytes:fragmenting", "write, write_to_vec and write_to_slice do not give identical bytes".to_string());
                return Outcome::Bad;
            }
        }
        _ => {
            let f = |ok: bool| if ok { "Ok" } else { "Err" };
            case.fail(
                "fragment-fields-change-success",
                format!("unfragmented sibling -> {}, with DF {} MF {} offset {}: write -> {}, write_to_vec -> {}, write_to_slice -> {}", f(ra.is_ok()), df, mf, off, f(r1.is_ok()), f(r2.is_ok()), f(r3.is_ok())),
            );
            return Outcome::Bad;
        }
    }

    // ---- B against A
    let ip = l.link + l.vlan;
    if o1.len() != oa.len() {
        case.fail("fragment-fields-change-the-size", format!("{} bytes instead of the {} of the unfragmented sibling", o1.len(), oa.len()));
        return Outcome::Bad;
    }
    if let Some(at) = (0..o1.len()).find(|&i| o1[i] != oa[i] && !(ip + 6..ip + 8).contains(&i) && !(ip + 10..ip + 12).contains(&i)) {
        case.fail(
            "fragment-fields-change-other-bytes",
            format!("byte {} (IPv4 header starts at {}) is {:#04x} but {:#04x} in the unfragmented sibling; only the flags/offset word and the header checksum may differ", at, ip, o1[at], oa[at]),
        );
        return Outcome::Bad;
    }
    let want = ((df as u16) << 14) | ((mf as u16) << 13) | off;
    let got = u16::from_be_bytes([o1[ip + 6], o1[ip + 7]]);
    if got != want {
        case.fail("not-recovered:ipv4-fragment-fields", format!("supplied DF {} MF {} offset {} = word {:#06x}, written {:#06x}", df, mf, off, want, got));
        return Outcome::Bad;
    }
    if fold(sum16(&o1[ip..ip + l.iphdr])) != 0xffff {
        case.fail("ipv4-header-checksum-wrong:fragmenting", format!("RFC 1071 sum over the {} header bytes folds to {:#06x}, not 0xffff", l.iphdr, fold(sum16(&o1[ip..ip + l.iphdr]))));
        return Outcome::Bad;
    }

    // ---- the crate's strict parser
    let who = match c.link {
        LinkC::None => "SlicedPacket::from_ip",
        LinkC::Eth => "SlicedPacket::from_ethernet",
        LinkC::Sll(_) => "SlicedPacket::from_linux_sll",
    };
    case.at(who);
    case.eval();
    let parsed = guarded(|| match c.link {
        LinkC::None => SlicedPacket::from_ip(&o1).map_err(|e| format!("{:?}", e)),
        LinkC::Eth => SlicedPacket::from_ethernet(&o1).map_err(|e| format!("{:?}", e)),
        LinkC::Sll(_) => SlicedPacket::from_linux_sll(&o1).map_err(|e| format!("{:?}", e)),
    });
    let sp = match parsed {
        Ok(Ok(sp)) => sp,
        Ok(Err(e)) => {
            case.fail("strict-parser-rejects-built-packet:fragmenting", format!("{} -> Err({})", who, truncate(&e, 300)));
            return Outcome::Bad;
        }
        Err(p) => {
            case.fail(format!("panic:parse:{}", ploc(&p)), format!("{} panicked: {}", who, p));
            return Outcome::Bad;
        }
    };
    let v4 = match &sp.net {
        Some(NetSlice::Ipv4(s)) => s,
        other => {
            case.fail("crate:layer-sequence-differs:fragmenting", format!("net slice is {}", truncate(&format!("{:?}", other), 200)));
            return Outcome::Bad;
        }
    };
    let h = v4.header();
    if h.dont_fragment() != df || h.more_fragments() != mf || h.fragments_offset().value() != off {
        case.fail("crate:not-recovered:ipv4-fragment-fields", format!("supplied DF {} MF {} offset {}, parsed DF {} MF {} offset {}", df, mf, off, h.dont_fragment(), h.more_fragments(), h.fragments_offset().value()));
        return Outcome::Bad;
    }
    let pl = v4.payload();
    if !pl.fragmented || !v4.is_payload_fragmented() {
        case.fail("crate:fragmenting-header-not-flagged", format!("MF {} offset {} but payload.fragmented = {}", mf, off, pl.fragmented));
        return Outcome::Bad;
    }
    if sp.transport.is_some() {
        case.fail("crate:transport-decoded-from-fragment", format!("MF {} offset {} but a transport slice was produced", mf, off));
        return Outcome::Bad;
    }
    // reading: the crate slices an authentication header behind a fragmenting IPv4 header; whether that is wanted is
    // not C10's matter, so the bytes behind the IP layer may start before or behind it
    let behind_hdr = &o1[ip + l.iphdr..];
    let behind_ah = &o1[ip + l.iphdr + l.ext..];
    let ok = if v4.extensions().auth.is_some() { pl.payload == behind_ah } else { pl.payload == behind_hdr };
    if !ok {
        case.fail("crate:payload-not-recovered:fragmenting", format!("payload slice has {} bytes; {} bytes follow the IPv4 header, {} the extension", pl.payload.len(), behind_hdr.len(), behind_ah.len()));
        return Outcome::Bad;
    }
    if &behind_ah[l.thdr.min(behind_ah.len())..] != payload {
        case.fail("payload-not-recovered:fragmenting", "the supplied payload is not at the end of the packet".to_string());
        return Outcome::Bad;
    }
    if !check_headers(c, &o1, payload, Some((df, mf, off)), None, case) {
        return Outcome::Bad;
    }
    Outcome::Ok
}

fn with_frag6<R>(f: Option<(bool, u16)>, g: impl FnOnce() -> R) -> R {
    V6_FRAG.with(|c| c.set(f));
    let r = g();
    V6_FRAG.with(|c| c.set(None));
    r
}

/// The same differential for `ip(IpHeaders::Ipv6(..))` with a fragment header whose M flag / offset fragment the
/// payload. `frag_pos` = offset of the fragment header from the start of the IPv6 header.
pub fn check_v6(c: &Cfg, t: &Tables, payload: &[u8], mf: bool, off: u16, frag_pos: usize, case: &mut Case) -> Outcome {
    let plen = payload.len();
    let l = lens(c, t);
    let fr = Some((mf, off));

    case.at("PacketBuilderStep::write");
    let a = make(c, t);
    let mut oa: Vec<u8> = vec![];
    case.eval();
    let ra = guarded(|| a.write(&mut oa, payload));
    case.at("PacketBuilderStep::size");
    let b = with_frag6(fr, || make(c, t));
    case.eval();
    let size = guarded(|| b.size(plen));
    case.at("PacketBuilderStep::write");
    let mut o1: Vec<u8> = vec![];
    case.eval();
    let r1 = guarded(|| b.write(&mut o1, payload));
    case.at("PacketBuilderStep::write_to_vec");
    let mut o2: Vec<u8> = VEC_PREFIX.to_vec();
    let b2 = with_frag6(fr, || make(c, t));
    case.eval();
    let r2 = guarded(|| b2.write_to_vec(&mut o2, payload));
    let size = match size {
        Ok(s) => s,
        Err(p) => {
            case.fail(format!("panic:size:{}", ploc(&p)), format!("size({}) panicked: {}", plen, p));
            return Outcome::Bad;
        }
    };
    case.at("PacketBuilderStep::write_to_slice");
    let mut o3 = vec![0xaau8; size.min(1 << 18)];
    let b3 = with_frag6(fr, || make(c, t));
    case.eval();
    let r3 = guarded(|| b3.write_to_slice(&mut o3, payload));
    let (ra, r1, r2, r3) = match (ra, r1, r2, r3) {
        (Ok(a), Ok(b), Ok(c), Ok(d)) => (a, b, c, d),
        (a, b, c, d) => {
            let p = a.err().or(b.err()).or(c.err()).or(d.err()).unwrap_or_default();
            case.fail(format!("panic:writer:{}", ploc(&p)), format!("a writer panicked instead of returning a result: {}", p));
            return Outcome::Bad;
        }
    };
    if o2.len() < 3 || o2[..3] != VEC_PREFIX {
        case.fail("write_to_vec:clobbers-existing-content", format!("the 3 bytes that were in the Vec before are now {}", hex(&o2[..o2.len().min(3)])));
        return Outcome::Bad;
    }
    let o2 = &o2[3..];
    match (&ra, &r1, &r2, &r3) {
        (Err(ea), Err(e1), Err(_), Err(_)) => {
            if ea.0 != e1.0 {
                case.fail("fragment-fields-change-the-error", format!("unfragmented sibling -> Err({}), with M {} offset {} -> Err({})", ea.1, mf, off, e1.1));
                return Outcome::Bad;
            }
            return Outcome::Err("payload-too-big-ipv6");
        }
        (Ok(()), Ok(()), Ok(()), Ok(n3)) => {
            if o1.len() != size || o2.len() != size || *n3 != size {
                case.fail("size-differs-from-written:fragmenting", format!("size({}) = {} but write produced {}, write_to_vec {}, write_to_slice {} bytes", plen, size, o1.len(), o2.len(), n3));
                return Outcome::Bad;
            }
            if o1[..] != o2[..] || o1[..] != o3[..size] {
                case.fail("writers-produce-different-bytes:fragmenting", "write, write_to_vec and write_to_slice do not give identical bytes".to_string());
                return Outcome::Bad;
            }
        }
        _ => {
            let f = |ok: bool| if ok { "Ok" } else { "Err" };
            case.fail(
                "fragment-fields-change-success",
                format!("unfragmented sibling -> {}, with M {} offset {}: write -> {}, write_to_vec -> {}, write_to_slice -> {}", f(ra.is_ok()), mf, off, f(r1.is_ok()), f(r2.is_ok()), f(r3.is_ok())),
            );
            return Outcome::Bad;
        }
    }

    let ip = l.link + l.vlan;
    let w = ip + frag_pos + 2;
    if o1.len() != oa.len() {
        case.fail("fragment-fields-change-the-size", format!("{} bytes instead of the {} of the unfragmented sibling", o1.len(), oa.len()));
        return Outcome::Bad;
    }
    if let Some(at) = (0..o1.len()).find(|&i| o1[i] != oa[i] && !(w..w + 2).contains(&i)) {
        case.fail(
            "fragment-fields-change-other-bytes",
            format!("byte {} (IPv6 header starts at {}, fragment header at {}) is {:#04x} but {:#04x} in the sibling with offset 0 / M 0; only the offset/M word may differ", at, ip, ip + frag_pos, o1[at], oa[at]),
        );
        return Outcome::Bad;
    }
    let want = (off << 3) | mf as u16;
    let got = u16::from_be_bytes([o1[w], o1[w + 1]]);
    if got != want {
        case.fail("not-recovered:ipv6-fragment-fields", format!("supplied M {} offset {} = word {:#06x}, written {:#06x}", mf, off, want, got));
        return Outcome::Bad;
    }

    let who = match c.link {
        LinkC::None => "SlicedPacket::from_ip",
        LinkC::Eth => "SlicedPacket::from_ethernet",
        LinkC::Sll(_) => "SlicedPacket::from_linux_sll",
    };
    case.at(who);
    case.eval();
    let parsed = guarded(|| match c.link {
        LinkC::None => SlicedPacket::from_ip(&o1).map_err(|e| format!("{:?}", e)),
        LinkC::Eth => SlicedPacket::from_ethernet(&o1).map_err(|e| format!("{:?}", e)),
        LinkC::Sll(_) => SlicedPacket::from_linux_sll(&o1).map_err(|e| format!("{:?}", e)),
    });
    let sp = match parsed {
        Ok(Ok(sp)) => sp,
        Ok(Err(e)) => {
            case.fail("strict-parser-rejects-built-packet:fragmenting", format!("{} -> Err({})", who, truncate(&e, 300)));
            return Outcome::Bad;
        }
        Err(p) => {
            case.fail(format!("panic:parse:{}", ploc(&p)), format!("{} panicked: {}", who, p));
            return Outcome::Bad;
        }
    };
    let v6 = match &sp.net {
        Some(NetSlice::Ipv6(s)) => s,
        other => {
            case.fail("crate:layer-sequence-differs:fragmenting", format!("net slice is {}", truncate(&format!("{:?}", other), 200)));
            return Outcome::Bad;
        }
    };
    let mut seen = None;
    for e in v6.extensions().clone().into_iter() {
        if let Ipv6ExtensionSlice::Fragment(f) = e {
            seen = Some((f.more_fragments(), f.fragment_offset().value(), f.identification()));
        }
    }
    if seen != Some((mf, off, FRAG_ID)) {
        case.fail("crate:not-recovered:ipv6-fragment-fields", format!("supplied M {} offset {} id {:#x}, parsed (M, offset, id) = {:?}", mf, off, FRAG_ID, seen));
        return Outcome::Bad;
    }
    let pl = v6.payload();
    if !pl.fragmented || !v6.is_payload_fragmented() {
        case.fail("crate:fragmenting-header-not-flagged", format!("M {} offset {} but payload.fragmented = {}", mf, off, pl.fragmented));
        return Outcome::Bad;
    }
    if sp.transport.is_some() {
        case.fail("crate:transport-decoded-from-fragment", format!("M {} offset {} but a transport slice was produced", mf, off));
        return Outcome::Bad;
    }
    // reading: the crate keeps slicing extension headers behind a fragmenting fragment header; the payload slice may
    // therefore start anywhere between the end of the fragment header and the transport header, but it must be the
    // tail of the packet
    let n = pl.payload.len();
    let behind_frag = o1.len() - (ip + frag_pos + 8);
    if n > behind_frag || n < l.thdr + plen || pl.payload != &o1[o1.len() - n..] {
        case.fail("crate:payload-not-recovered:fragmenting", format!("payload slice has {} bytes; {} bytes follow the fragment header, transport header + payload are {}", n, behind_frag, l.thdr + plen));
        return Outcome::Bad;
    }
    if &o1[o1.len() - plen..] != payload {
        case.fail("payload-not-recovered:fragmenting", "the supplied payload is not at the end of the packet".to_string());
        return Outcome::Bad;
    }
    if !check_headers(c, &o1, payload, None, Some((mf, off)), case) {
        return Outcome::Bad;
    }
    Outcome::Ok
}
