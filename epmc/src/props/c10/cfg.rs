//! Builder configurations of C10: the abstract description (`Cfg`), the etherparse builder made from it
//! (`make`), and what the configuration says must be on the wire (`expect`, `lens`) — the latter written
//! from the RFCs without calling etherparse.

use super::refdec::Layer;
use etherparse::*;

#[derive(Clone, Copy, Debug, PartialEq, Eq)]
pub enum LinkC {
    None,
    Eth,
    Sll(u16),
}
#[derive(Clone, Copy, Debug, PartialEq, Eq)]
pub enum VlanC {
    None,
    Single,
    Double,
    HdrSingle,
    HdrDouble,
}
#[derive(Clone, Copy, Debug, PartialEq, Eq)]
pub enum NetC {
    Arp(u8),
    V4Simple,
    V6Simple,
    /// `ip(IpHeaders::Ipv4(..))`: option bytes (0, 4, 40), AH with an ICV of that many bytes
    V4Hdr { opts: u8, icv: Option<u16> },
    /// `ip(IpHeaders::Ipv6(..))`: bit 0 hop-by-hop, 1 destination options, 2 routing, 3 final destination options,
    /// 4 fragment (offset 0, M = 0), 5 authentication; `big` = every header at its maximum size
    V6Hdr { mask: u8, big: bool },
}
#[derive(Clone, Copy, Debug, PartialEq, Eq)]
pub enum TrC {
    None,
    Udp,
    Tcp { flags: u16, opts: u8 },
    TcpHdr(u8),
    Icmp4(u8),
    Icmp4Raw(u8),
    Icmp4EchoReq,
    Icmp4EchoRep,
    Icmp6(u8),
    Icmp6Raw(u8),
    Icmp6EchoReq,
    Icmp6EchoRep,
    Raw(u8),
}
#[derive(Clone, Copy, Debug)]
pub struct Cfg {
    pub link: LinkC,
    pub vlan: VlanC,
    pub net: NetC,
    pub tr: TrC,
}

// ---- constants ----------------------------------------------------------------------------------

pub const ETH_SRC: [u8; 6] = [0x02, 0x11, 0x22, 0x33, 0x44, 0x55];
pub const ETH_DST: [u8; 6] = [0x06, 0xa1, 0xb2, 0xc3, 0xd4, 0xe5];
pub const SLL_ADDR: [u8; 8] = [0x02, 0x11, 0x22, 0x33, 0x44, 0x55, 0, 0];
pub const V4_SRC: [u8; 4] = [192, 0, 2, 17];
pub const V4_DST: [u8; 4] = [198, 51, 100, 201];
pub const V4_TTL: u8 = 0x41;
pub const V6_SRC: [u8; 16] = [0x20, 0x01, 0x0d, 0xb8, 0, 1, 2, 3, 4, 5, 6, 7, 8, 9, 10, 11];
pub const V6_DST: [u8; 16] = [0x20, 0x01, 0x0d, 0xb8, 0xff, 0xfe, 0xfd, 0xfc, 0xfb, 0xfa, 0xf9, 0xf8, 0xf7, 0xf6, 0xf5, 0xf4];
pub const V6_HOP: u8 = 0x3f;
pub const UDP_SP: u16 = 53;
pub const UDP_DP: u16 = 0xfedc;
pub const TCP_SP: u16 = 0xc001;
pub const TCP_DP: u16 = 443;
pub const TCP_SEQ: u32 = 0x0102_0304;
pub const TCP_WIN: u16 = 0xfff0;
pub const TCP_ACKNO: u32 = 0xa1b2_c3d4;
pub const TCP_URG: u16 = 0x0102;
pub const ECHO_ID: u16 = 0x1234;
pub const ECHO_SEQ: u16 = 0x5678;
/// garbage put into every field the builder documents as "will be overwritten"
pub const JUNK_IPNUM: u8 = 250;

pub fn stackings() -> Vec<(LinkC, VlanC)> {
    let mut v = vec![(LinkC::None, VlanC::None), (LinkC::Eth, VlanC::None), (LinkC::Eth, VlanC::Single), (LinkC::Eth, VlanC::Double), (LinkC::Eth, VlanC::HdrSingle), (LinkC::Eth, VlanC::HdrDouble)];
    for p in 0..=7u16 {
        v.push((LinkC::Sll(p), VlanC::None));
    }
    v
}

/// the 48 representable subsets of the six extension slots
pub fn v6_masks() -> Vec<u8> {
    (0u8..64).filter(|m| !(m & 8 != 0 && m & 4 == 0)).collect()
}

pub fn nets() -> Vec<NetC> {
    let mut v = vec![
        NetC::V4Simple,
        NetC::V6Simple,
        NetC::V4Hdr { opts: 0, icv: None },
        NetC::V4Hdr { opts: 40, icv: None },
        NetC::V4Hdr { opts: 0, icv: Some(12) },
        NetC::V4Hdr { opts: 40, icv: Some(12) },
        NetC::V4Hdr { opts: 4, icv: Some(1016) },
    ];
    for m in v6_masks() {
        v.push(NetC::V6Hdr { mask: m, big: false });
    }
    v.push(NetC::V6Hdr { mask: 0x3f, big: true });
    v
}

pub const ARP_VARIANTS: u8 = 5;

// ---- ICMP tables: crate value + wire encoding transcribed from RFC 792 / 1191 / 4443 / 4861 -------------------

pub struct I4 {
    pub ty: Icmpv4Type,
    pub typ: u8,
    pub code: u8,
    pub rest: [u8; 4],
    /// bytes of the message header behind the first 8 (timestamp messages: 3 x 32 bit timestamps)
    pub extra: Vec<u8>,
}
pub struct I6 {
    pub ty: Icmpv6Type,
    pub typ: u8,
    pub code: u8,
    pub rest: [u8; 4],
}

pub struct Tables {
    pub i4: Vec<I4>,
    pub i6: Vec<I6>,
    pub i4raw: Vec<(u8, u8, [u8; 4])>,
    pub i6raw: Vec<(u8, u8, [u8; 4])>,
}

pub fn tables() -> Tables {
    use icmpv4::*;
    let echo = IcmpEchoHeader { id: ECHO_ID, seq: ECHO_SEQ };
    let echo_b = [0x12, 0x34, 0x56, 0x78];
    let mut i4 = vec![];
    let mut p4 = |ty: Icmpv4Type, typ: u8, code: u8, rest: [u8; 4], extra: Vec<u8>| i4.push(I4 { ty, typ, code, rest, extra });
    p4(Icmpv4Type::Unknown { type_u8: 42, code_u8: 7, bytes5to8: [9, 8, 7, 6] }, 42, 7, [9, 8, 7, 6], vec![]);
    p4(Icmpv4Type::EchoReply(echo), 0, 0, echo_b, vec![]);
    p4(Icmpv4Type::EchoRequest(echo), 8, 0, echo_b, vec![]);
    use DestUnreachableHeader as D;
    let du = [
        D::Network,
        D::Host,
        D::Protocol,
        D::Port,
        D::FragmentationNeeded { next_hop_mtu: 0x05dc },
        D::SourceRouteFailed,
        D::NetworkUnknown,
        D::HostUnknown,
        D::Isolated,
        D::NetworkProhibited,
        D::HostProhibited,
        D::TosNetwork,
        D::TosHost,
        D::FilterProhibited,
        D::HostPrecedenceViolation,
        D::PrecedenceCutoff,
    ];
    for (code, h) in du.into_iter().enumerate() {
        // RFC 792 type 3, codes 0..15 (RFC 1122/1812); RFC 1191: code 4 carries the next-hop MTU in the low 16 bits
        let rest = if code == 4 { [0, 0, 0x05, 0xdc] } else { [0; 4] };
        p4(Icmpv4Type::DestinationUnreachable(h), 3, code as u8, rest, vec![]);
    }
    for (code, c) in [RedirectCode::RedirectForNetwork, RedirectCode::RedirectForHost, RedirectCode::RedirectForTypeOfServiceAndNetwork, RedirectCode::RedirectForTypeOfServiceAndHost].into_iter().enumerate() {
        p4(Icmpv4Type::Redirect(RedirectHeader { code: c, gateway_internet_address: [10, 1, 2, 3] }), 5, code as u8, [10, 1, 2, 3], vec![]);
    }
    p4(Icmpv4Type::TimeExceeded(TimeExceededCode::TtlExceededInTransit), 11, 0, [0; 4], vec![]);
    p4(Icmpv4Type::TimeExceeded(TimeExceededCode::FragmentReassemblyTimeExceeded), 11, 1, [0; 4], vec![]);
    p4(Icmpv4Type::ParameterProblem(ParameterProblemHeader::PointerIndicatesError(0x2c)), 12, 0, [0x2c, 0, 0, 0], vec![]);
    p4(Icmpv4Type::ParameterProblem(ParameterProblemHeader::MissingRequiredOption), 12, 1, [0; 4], vec![]);
    p4(Icmpv4Type::ParameterProblem(ParameterProblemHeader::BadLength), 12, 2, [0; 4], vec![]);
    let ts = TimestampMessage { id: 0x0a0b, seq: 0x0c0d, originate_timestamp: 0x0102_0304, receive_timestamp: 0x1112_1314, transmit_timestamp: 0x2122_2324 };
    let ts_extra = vec![1, 2, 3, 4, 0x11, 0x12, 0x13, 0x14, 0x21, 0x22, 0x23, 0x24];
    p4(Icmpv4Type::TimestampRequest(ts.clone()), 13, 0, [0x0a, 0x0b, 0x0c, 0x0d], ts_extra.clone());
    p4(Icmpv4Type::TimestampReply(ts), 14, 0, [0x0a, 0x0b, 0x0c, 0x0d], ts_extra);

    let mut i6 = vec![];
    let mut p6 = |ty: Icmpv6Type, typ: u8, code: u8, rest: [u8; 4]| i6.push(I6 { ty, typ, code, rest });
    p6(Icmpv6Type::Unknown { type_u8: 200, code_u8: 9, bytes5to8: [1, 2, 3, 4] }, 200, 9, [1, 2, 3, 4]);
    {
        use icmpv6::DestUnreachableCode as C;
        for (code, c) in [C::NoRoute, C::Prohibited, C::BeyondScope, C::Address, C::Port, C::SourceAddressFailedPolicy, C::RejectRoute].into_iter().enumerate() {
            p6(Icmpv6Type::DestinationUnreachable(c), 1, code as u8, [0; 4]);
        }
    }
    p6(Icmpv6Type::PacketTooBig { mtu: 1280 }, 2, 0, [0, 0, 5, 0]);
    p6(Icmpv6Type::TimeExceeded(icmpv6::TimeExceededCode::HopLimitExceeded), 3, 0, [0; 4]);
    p6(Icmpv6Type::TimeExceeded(icmpv6::TimeExceededCode::FragmentReassemblyTimeExceeded), 3, 1, [0; 4]);
    {
        use icmpv6::ParameterProblemCode as P;
        let codes = [
            P::ErroneousHeaderField,
            P::UnrecognizedNextHeader,
            P::UnrecognizedIpv6Option,
            P::Ipv6FirstFragmentIncompleteHeaderChain,
            P::SrUpperLayerHeaderError,
            P::UnrecognizedNextHeaderByIntermediateNode,
            P::ExtensionHeaderTooBig,
            P::ExtensionHeaderChainTooLong,
            P::TooManyExtensionHeaders,
            P::TooManyOptionsInExtensionHeader,
            P::OptionTooBig,
        ];
        for (code, c) in codes.into_iter().enumerate() {
            p6(Icmpv6Type::ParameterProblem(icmpv6::ParameterProblemHeader { code: c, pointer: 0x0001_0203 }), 4, code as u8, [0, 1, 2, 3]);
        }
    }
    p6(Icmpv6Type::EchoRequest(echo), 128, 0, echo_b);
    p6(Icmpv6Type::EchoReply(echo), 129, 0, echo_b);
    p6(Icmpv6Type::RouterSolicitation, 133, 0, [0; 4]);
    for f in 0..4u8 {
        // RFC 4861 §4.2: cur hop limit | M O reserved | router lifetime
        let (m, o) = (f & 1 != 0, f & 2 != 0);
        p6(
            Icmpv6Type::RouterAdvertisement(icmpv6::RouterAdvertisementHeader { cur_hop_limit: 64, managed_address_config: m, other_config: o, router_lifetime: 1800 }),
            134,
            0,
            [64, ((m as u8) << 7) | ((o as u8) << 6), 0x07, 0x08],
        );
    }
    p6(Icmpv6Type::NeighborSolicitation, 135, 0, [0; 4]);
    for f in 0..8u8 {
        // RFC 4861 §4.4: R S O reserved(29)
        let (r, s, o) = (f & 1 != 0, f & 2 != 0, f & 4 != 0);
        p6(Icmpv6Type::NeighborAdvertisement(icmpv6::NeighborAdvertisementHeader { router: r, solicited: s, r#override: o }), 136, 0, [((r as u8) << 7) | ((s as u8) << 6) | ((o as u8) << 5), 0, 0, 0]);
    }
    p6(Icmpv6Type::Redirect, 137, 0, [0; 4]);

    Tables {
        i4,
        i6,
        // a known type, a timestamp type (20 byte message demanded by strict parsing), an unknown type, a known type with unknown code
        i4raw: vec![(8, 0, [0xaa, 0xbb, 0xcc, 0xdd]), (13, 0, [1, 2, 3, 4]), (200, 7, [5, 6, 7, 8]), (3, 99, [0xff; 4])],
        i6raw: vec![(128, 0, [0xaa, 0xbb, 0xcc, 0xdd]), (1, 200, [1, 2, 3, 4]), (250, 3, [0xff; 4])],
    }
}

// ---- content generators (shared by the builder input and the expectation: they are *configuration*) ------------

/// an options area made of experimental TLVs (RFC 4727 option type 0x1e: skip if unknown) and a Pad1 if one byte is left
pub fn tlv_fill(len: usize, seed: u8) -> Vec<u8> {
    let mut v = Vec::with_capacity(len);
    while v.len() < len {
        let rem = len - v.len();
        if rem == 1 {
            v.push(0);
            break;
        }
        let l = (rem - 2).min(255);
        v.push(0x1e);
        v.push(l as u8);
        for i in 0..l {
            v.push((i as u8).wrapping_mul(seed).wrapping_add(seed));
        }
    }
    v
}
/// routing header body: experimental routing type 253, Segments Left 0 (so the IPv6 destination is the final one), data
pub fn routing_body(len: usize) -> Vec<u8> {
    let mut v = vec![253u8, 0];
    for i in 2..len {
        v.push((i as u8).wrapping_mul(11).wrapping_add(1));
    }
    v
}
pub fn icv(len: usize) -> Vec<u8> {
    (0..len).map(|i| (i as u8).wrapping_mul(13).wrapping_add(5)).collect()
}
pub const AH_SPI: u32 = 0x0a0b_0c0d;
pub const AH_SEQ: u32 = 0x0000_0102;
pub const FRAG_ID: u32 = 0xdead_beef;

pub fn v4_options(len: u8) -> Vec<u8> {
    match len {
        0 => vec![],
        4 => vec![1, 1, 1, 0],
        _ => {
            // record route (RFC 791): type 7, length 39, pointer 4, 36 bytes route data, then End of Option List
            let mut v = vec![7u8, 39, 4];
            for i in 0..36u8 {
                v.push(i.wrapping_mul(5).wrapping_add(9));
            }
            v.push(0);
            v
        }
    }
}

/// (hop, dest, routing, final dest) body sizes and ICV size
fn ext_sizes(big: bool) -> (usize, usize, usize, usize, usize) {
    if big {
        (2046, 2046, 2046, 2046, 1016)
    } else {
        (6, 14, 22, 30, 12)
    }
}

/// the extension headers of a configuration in RFC 8200 §4.1 order: (protocol number, body behind next header/length)
pub fn v6_ext_layers(mask: u8, big: bool) -> Vec<(u8, Vec<u8>)> {
    let (h, d, r, f, a) = ext_sizes(big);
    let mut v = vec![];
    if mask & 1 != 0 {
        v.push((0, tlv_fill(h, 3)));
    }
    if mask & 2 != 0 {
        v.push((60, tlv_fill(d, 5)));
    }
    if mask & 4 != 0 {
        v.push((43, routing_body(r)));
    }
    if mask & 16 != 0 {
        let mut b = vec![0u8, 0];
        b.extend_from_slice(&FRAG_ID.to_be_bytes());
        v.push((44, b));
    }
    if mask & 32 != 0 {
        v.push((51, ah_body(a)));
    }
    if mask & 8 != 0 {
        v.push((60, tlv_fill(f, 7)));
    }
    v
}
fn ah_body(icv_len: usize) -> Vec<u8> {
    let mut b = AH_SPI.to_be_bytes().to_vec();
    b.extend_from_slice(&AH_SEQ.to_be_bytes());
    b.extend_from_slice(&icv(icv_len));
    b
}

fn v6_exts(mask: u8, big: bool) -> Ipv6Extensions {
    let (h, d, r, f, a) = ext_sizes(big);
    let junk = IpNumber(JUNK_IPNUM);
    Ipv6Extensions {
        hop_by_hop_options: (mask & 1 != 0).then(|| Ipv6RawExtHeader::new_raw(junk, &tlv_fill(h, 3)).unwrap()),
        destination_options: (mask & 2 != 0).then(|| Ipv6RawExtHeader::new_raw(junk, &tlv_fill(d, 5)).unwrap()),
        routing: (mask & 4 != 0).then(|| Ipv6RoutingExtensions {
            routing: Ipv6RawExtHeader::new_raw(junk, &routing_body(r)).unwrap(),
            final_destination_options: (mask & 8 != 0).then(|| Ipv6RawExtHeader::new_raw(junk, &tlv_fill(f, 7)).unwrap()),
        }),
        fragment: (mask & 16 != 0).then(|| {
            let (m, off) = V6_FRAG.with(|f| f.get()).unwrap_or((false, 0));
            Ipv6FragmentHeader::new(junk, IpFragOffset::try_new(off).unwrap(), m, FRAG_ID)
        }),
        auth: (mask & 32 != 0).then(|| IpAuthHeader::new(junk, AH_SPI, AH_SEQ, &icv(a)).unwrap()),
    }
}

thread_local! {
    /// (M flag, fragment offset) that `v6_exts` puts into the IPv6 fragment header instead of (false, 0); set only
    /// by `frag.rs` around its own `make` calls
    pub static V6_FRAG: std::cell::Cell<Option<(bool, u16)>> = const { std::cell::Cell::new(None) };
    /// (DF, MF, fragment offset) that `ip_headers` puts into an `ip(IpHeaders::Ipv4(..))` header instead of
    /// (true, false, 0); set only by `frag.rs` around its own `make` calls
    pub static V4_FRAG: std::cell::Cell<Option<(bool, bool, u16)>> = const { std::cell::Cell::new(None) };
}

fn ip_headers(n: NetC) -> IpHeaders {
    let (df, mf, off) = V4_FRAG.with(|f| f.get()).unwrap_or((true, false, 0));
    match n {
        NetC::V4Hdr { opts, icv: ic } => IpHeaders::Ipv4(
            Ipv4Header {
                dscp: IpDscp::try_new(0x2e).unwrap(),
                ecn: IpEcn::try_new(1).unwrap(),
                total_len: 7, // overwritten
                identification: 0xbeef,
                dont_fragment: df,
                more_fragments: mf,
                fragment_offset: IpFragOffset::try_new(off).unwrap(),
                time_to_live: 0x7f,
                protocol: IpNumber(JUNK_IPNUM),  // overwritten
                header_checksum: 0x1234,         // overwritten
                source: V4_SRC,
                destination: V4_DST,
                options: Ipv4Options::try_from(&v4_options(opts)[..]).unwrap(),
            },
            Ipv4Extensions { auth: ic.map(|l| IpAuthHeader::new(IpNumber(JUNK_IPNUM), AH_SPI, AH_SEQ, &icv(l as usize)).unwrap()) },
        ),
        NetC::V6Hdr { mask, big } => IpHeaders::Ipv6(
            Ipv6Header {
                traffic_class: 0xb9,
                flow_label: Ipv6FlowLabel::try_new(0xabcde).unwrap(),
                payload_length: 0x7777,           // overwritten
                next_header: IpNumber(JUNK_IPNUM), // overwritten
                hop_limit: V6_HOP,
                source: V6_SRC,
                destination: V6_DST,
            },
            v6_exts(mask, big),
        ),
        _ => unreachable!(),
    }
}

/// ARP variants: (htype, ptype, oper, sha, spa, tha, tpa)
pub fn arp_fields(i: u8) -> (u16, u16, u16, Vec<u8>, Vec<u8>, Vec<u8>, Vec<u8>) {
    let pat = |n: usize, s: u8| -> Vec<u8> { (0..n).map(|i| (i as u8).wrapping_mul(3).wrapping_add(s)).collect() };
    match i {
        0 => (1, 0x0800, 1, ETH_SRC.to_vec(), V4_SRC.to_vec(), vec![0; 6], V4_DST.to_vec()),
        1 => (1, 0x0800, 2, ETH_DST.to_vec(), V4_DST.to_vec(), ETH_SRC.to_vec(), V4_SRC.to_vec()),
        2 => (0xffff, 0x86dd, 0xffff, vec![], vec![], vec![], vec![]),
        3 => (6, 0x0800, 8, pat(255, 1), pat(255, 2), pat(255, 3), pat(255, 4)),
        _ => (1, 0x86dd, 1, pat(1, 9), V6_SRC.to_vec(), pat(1, 7), V6_DST.to_vec()),
    }
}
fn arp_packet(i: u8) -> ArpPacket {
    let (h, p, o, sha, spa, tha, tpa) = arp_fields(i);
    ArpPacket::new(ArpHardwareId(h), EtherType(p), ArpOperation(o), &sha, &spa, &tha, &tpa).unwrap()
}

// ---- TCP option lists ---------------------------------------------------------------------------------

/// option list `o` as (kind, data) per RFC 9293 §3.2 / RFC 7323 / RFC 2018
pub fn tcp_opts_expected(o: u8) -> Vec<(u8, Vec<u8>)> {
    match o {
        0 => vec![],
        1 => vec![(2, vec![0x05, 0xb4])],
        2 => vec![(2, vec![0x05, 0xb4]), (3, vec![7]), (4, vec![]), (8, vec![1, 2, 3, 4, 5, 6, 7, 8])],
        _ => {
            let mut sack = vec![];
            for k in 0..8u32 {
                sack.extend_from_slice(&(0x1000_0000u32 * (k + 1) + k).to_be_bytes());
            }
            vec![(5, sack), (2, vec![0x02, 0x18]), (1, vec![]), (1, vec![])]
        }
    }
}
/// wire form of an option list without padding
pub fn tcp_opts_wire(o: u8) -> Vec<u8> {
    let mut v = vec![];
    for (k, d) in tcp_opts_expected(o) {
        v.push(k);
        if k != 1 {
            v.push(d.len() as u8 + 2);
            v.extend_from_slice(&d);
        }
    }
    v
}
fn tcp_apply_opts(t: PacketBuilderStep<TcpHeader>, o: u8) -> PacketBuilderStep<TcpHeader> {
    use TcpOptionElement::*;
    match o {
        0 => t,
        // the builder step is used twice: the 40 byte option list first (not 0xff / 0x00 filler: such words are invisible to a one's complement sum), then replaced by the 4 byte list (nothing of the
        // first set may reach the output or the checksum)
        1 => t.options_raw(&tcp_opts_wire(3)).unwrap().options_raw(&[2, 4, 0x05, 0xb4]).unwrap(),
        2 => t.options(&[MaximumSegmentSize(1460), WindowScale(7), SelectiveAcknowledgementPermitted, Timestamp(0x0102_0304, 0x0506_0708)]).unwrap(),
        _ => t.options_raw(&tcp_opts_wire(3)).unwrap(),
    }
}
fn tcp_apply_flags(mut t: PacketBuilderStep<TcpHeader>, f: u16) -> PacketBuilderStep<TcpHeader> {
    if f & 1 != 0 {
        t = t.fin();
    }
    if f & 2 != 0 {
        t = t.syn();
    }
    if f & 4 != 0 {
        t = t.rst();
    }
    if f & 8 != 0 {
        t = t.psh();
    }
    if f & 16 != 0 {
        t = t.ack(TCP_ACKNO);
    }
    if f & 32 != 0 {
        t = t.urg(TCP_URG);
    }
    if f & 64 != 0 {
        t = t.ece();
    }
    if f & 128 != 0 {
        t = t.cwr();
    }
    if f & 256 != 0 {
        t = t.ns();
    }
    t
}
fn tcp_header_variant(i: u8) -> TcpHeader {
    if i == 0 {
        let mut h = TcpHeader::new(1, 2, 3, 0);
        h.acknowledgment_number = 0x5566_7788; // kept although ACK is not set
        h.syn = true;
        h.checksum = 0xdead; // overwritten
        h.urgent_pointer = 0x4444;
        h
    } else {
        let mut h = TcpHeader::new(0xffff, 0xffff, 0xffff_ffff, 0xffff);
        h.acknowledgment_number = 0xffff_ffff;
        h.ns = true;
        h.fin = true;
        h.syn = true;
        h.rst = true;
        h.psh = true;
        h.ack = true;
        h.urg = true;
        h.ece = true;
        h.cwr = true;
        h.checksum = 0xffff;
        h.urgent_pointer = 0xffff;
        h.set_options_raw(&tcp_opts_wire(3)).unwrap();
        h
    }
}

// ---- the etherparse builder of a configuration ----------------------------------------------------------

pub enum Built {
    Udp(PacketBuilderStep<UdpHeader>),
    Tcp(PacketBuilderStep<TcpHeader>),
    I4(PacketBuilderStep<Icmpv4Header>),
    I6(PacketBuilderStep<Icmpv6Header>),
    Raw(PacketBuilderStep<IpHeaders>, u8),
    Arp(PacketBuilderStep<ArpPacket>),
}

enum NetStep {
    Ip(PacketBuilderStep<IpHeaders>),
    Arp(PacketBuilderStep<ArpPacket>),
}

macro_rules! net_step {
    ($b:expr, $net:expr) => {
        match $net {
            NetC::Arp(i) => NetStep::Arp($b.arp(arp_packet(i))),
            NetC::V4Simple => NetStep::Ip($b.ipv4(V4_SRC, V4_DST, V4_TTL)),
            NetC::V6Simple => NetStep::Ip($b.ipv6(V6_SRC, V6_DST, V6_HOP)),
            n => NetStep::Ip($b.ip(ip_headers(n))),
        }
    };
}

fn vid(v: u16) -> VlanId {
    VlanId::try_new(v).unwrap()
}
fn tag(pcp: u8, dei: bool, id: u16, junk: u16) -> SingleVlanHeader {
    SingleVlanHeader { pcp: VlanPcp::try_new(pcp).unwrap(), drop_eligible_indicator: dei, vlan_id: vid(id), ether_type: EtherType(junk) }
}

pub fn make(c: &Cfg, t: &Tables) -> Built {
    let step = match c.link {
        LinkC::None => match c.net {
            NetC::V4Simple => NetStep::Ip(PacketBuilder::ipv4(V4_SRC, V4_DST, V4_TTL)),
            NetC::V6Simple => NetStep::Ip(PacketBuilder::ipv6(V6_SRC, V6_DST, V6_HOP)),
            NetC::Arp(_) => unreachable!("the type state offers no ARP without a link layer"),
            n => NetStep::Ip(PacketBuilder::ip(ip_headers(n))),
        },
        LinkC::Eth => {
            let e = PacketBuilder::ethernet2(ETH_SRC, ETH_DST);
            match c.vlan {
                VlanC::None => net_step!(e, c.net),
                VlanC::Single => net_step!(e.single_vlan(vid(0x123)), c.net),
                VlanC::Double => net_step!(e.double_vlan(vid(0x234), vid(0x345)), c.net),
                VlanC::HdrSingle => net_step!(e.vlan(VlanHeader::Single(tag(7, true, 0xfff, 0x1234))), c.net),
                VlanC::HdrDouble => net_step!(e.vlan(VlanHeader::Double(DoubleVlanHeader { outer: tag(7, true, 0xfff, 0xffff), inner: tag(5, false, 1, 0) })), c.net),
            }
        }
        LinkC::Sll(p) => {
            let s = PacketBuilder::linux_sll(LinuxSllPacketType::try_from(p).unwrap(), 6, SLL_ADDR);
            net_step!(s, c.net)
        }
    };
    let ip = match step {
        NetStep::Arp(a) => return Built::Arp(a),
        NetStep::Ip(ip) => ip,
    };
    match c.tr {
        TrC::None => unreachable!(),
        TrC::Udp => Built::Udp(ip.udp(UDP_SP, UDP_DP)),
        TrC::Tcp { flags, opts } => Built::Tcp(tcp_apply_opts(tcp_apply_flags(ip.tcp(TCP_SP, TCP_DP, TCP_SEQ, TCP_WIN), flags), opts)),
        TrC::TcpHdr(i) => Built::Tcp(ip.tcp_header(tcp_header_variant(i))),
        TrC::Icmp4(i) => Built::I4(ip.icmpv4(t.i4[i as usize].ty.clone())),
        TrC::Icmp4Raw(i) => {
            let (ty, co, b) = t.i4raw[i as usize];
            Built::I4(ip.icmpv4_raw(ty, co, b))
        }
        TrC::Icmp4EchoReq => Built::I4(ip.icmpv4_echo_request(ECHO_ID, ECHO_SEQ)),
        TrC::Icmp4EchoRep => Built::I4(ip.icmpv4_echo_reply(ECHO_ID, ECHO_SEQ)),
        TrC::Icmp6(i) => Built::I6(ip.icmpv6(t.i6[i as usize].ty)),
        TrC::Icmp6Raw(i) => {
            let (ty, co, b) = t.i6raw[i as usize];
            Built::I6(ip.icmpv6_raw(ty, co, b))
        }
        TrC::Icmp6EchoReq => Built::I6(ip.icmpv6_echo_request(ECHO_ID, ECHO_SEQ)),
        TrC::Icmp6EchoRep => Built::I6(ip.icmpv6_echo_reply(ECHO_ID, ECHO_SEQ)),
        TrC::Raw(n) => Built::Raw(ip, n),
    }
}

/// error class = name of the enum variant
fn class<E: std::fmt::Debug>(e: &E) -> (String, String) {
    let s = format!("{:?}", e);
    (s.split(|c: char| !c.is_alphanumeric()).next().unwrap_or("").to_string(), s)
}

impl Built {
    pub fn size(&self, n: usize) -> usize {
        match self {
            Built::Udp(b) => b.size(n),
            Built::Tcp(b) => b.size(n),
            Built::I4(b) => b.size(n),
            Built::I6(b) => b.size(n),
            Built::Raw(b, _) => b.size(n),
            Built::Arp(b) => b.size(),
        }
    }
    pub fn write(self, out: &mut Vec<u8>, p: &[u8]) -> Result<(), (String, String)> {
        match self {
            Built::Udp(b) => b.write(out, p),
            Built::Tcp(b) => b.write(out, p),
            Built::I4(b) => b.write(out, p),
            Built::I6(b) => b.write(out, p),
            Built::Raw(b, n) => b.write(out, IpNumber(n), p),
            Built::Arp(b) => b.write(out),
        }
        .map_err(|e| class(&e))
    }
    pub fn write_to_vec(self, out: &mut Vec<u8>, p: &[u8]) -> Result<(), (String, String)> {
        match self {
            Built::Udp(b) => b.write_to_vec(out, p),
            Built::Tcp(b) => b.write_to_vec(out, p),
            Built::I4(b) => b.write_to_vec(out, p),
            Built::I6(b) => b.write_to_vec(out, p),
            Built::Raw(b, n) => b.write_to_vec(out, IpNumber(n), p),
            Built::Arp(b) => b.write_to_vec(out),
        }
        .map_err(|e| class(&e))
    }
    pub fn write_to_slice(self, out: &mut [u8], p: &[u8]) -> Result<usize, (String, String)> {
        match self {
            Built::Udp(b) => b.write_to_slice(out, p),
            Built::Tcp(b) => b.write_to_slice(out, p),
            Built::I4(b) => b.write_to_slice(out, p),
            Built::I6(b) => b.write_to_slice(out, p),
            Built::Raw(b, n) => b.write_to_slice(out, IpNumber(n), p),
            Built::Arp(b) => b.write_to_slice(out),
        }
        .map_err(|e| class(&e))
    }
}

// ---- what the configuration puts on the wire (reference side) ------------------------------------------------

pub struct Lens {
    pub link: usize,
    pub vlan: usize,
    /// IPv4 header incl. options / 40 for IPv6 / 0 for ARP
    pub iphdr: usize,
    pub ext: usize,
    pub thdr: usize,
    pub arp: usize,
}

pub fn is_v4(n: NetC) -> bool {
    matches!(n, NetC::V4Simple | NetC::V4Hdr { .. })
}
pub fn is_v6(n: NetC) -> bool {
    matches!(n, NetC::V6Simple | NetC::V6Hdr { .. })
}
pub fn is_icmp6(t: TrC) -> bool {
    matches!(t, TrC::Icmp6(_) | TrC::Icmp6Raw(_) | TrC::Icmp6EchoReq | TrC::Icmp6EchoRep)
}

pub fn lens(c: &Cfg, t: &Tables) -> Lens {
    let link = match c.link {
        LinkC::None => 0,
        LinkC::Eth => 14,
        LinkC::Sll(_) => 16,
    };
    let vlan = match c.vlan {
        VlanC::None => 0,
        VlanC::Single | VlanC::HdrSingle => 4,
        VlanC::Double | VlanC::HdrDouble => 8,
    };
    let (iphdr, ext, arp) = match c.net {
        NetC::Arp(i) => {
            let f = arp_fields(i);
            (0, 0, 8 + 2 * f.3.len() + 2 * f.4.len())
        }
        NetC::V4Simple => (20, 0, 0),
        NetC::V6Simple => (40, 0, 0),
        NetC::V4Hdr { opts, icv } => (20 + opts as usize, icv.map(|l| 12 + l as usize).unwrap_or(0), 0),
        NetC::V6Hdr { mask, big } => (40, v6_ext_layers(mask, big).iter().map(|(k, b)| if *k == 51 { b.len() + 4 } else { b.len() + 2 }).sum(), 0),
    };
    let thdr = match c.tr {
        TrC::None | TrC::Raw(_) => 0,
        TrC::Udp => 8,
        TrC::Tcp { opts, .. } => 20 + (tcp_opts_wire(opts).len() + 3) / 4 * 4,
        TrC::TcpHdr(i) => {
            if i == 0 {
                20
            } else {
                60
            }
        }
        TrC::Icmp4(i) => 8 + t.i4[i as usize].extra.len(),
        TrC::Icmp4Raw(_) | TrC::Icmp4EchoReq | TrC::Icmp4EchoRep => 8,
        TrC::Icmp6(_) | TrC::Icmp6Raw(_) | TrC::Icmp6EchoReq | TrC::Icmp6EchoRep => 8,
    };
    Lens { link, vlan, iphdr, ext, thdr, arp }
}

/// largest payload the governing length field admits
pub fn limit(c: &Cfg, t: &Tables) -> usize {
    let l = lens(c, t);
    if is_v4(c.net) {
        65535 - l.iphdr - l.ext - l.thdr
    } else {
        65535 - l.ext - l.thdr
    }
}

/// Some(class) when the configuration cannot be encoded
pub fn expected_error(c: &Cfg, t: &Tables, plen: usize) -> Option<&'static str> {
    let l = lens(c, t);
    if is_v4(c.net) {
        if l.ext + l.thdr + plen > 65535 - l.iphdr {
            return Some("payload-too-big-ipv4");
        }
        if is_icmp6(c.tr) {
            return Some("icmpv6-in-ipv4");
        }
    } else if is_v6(c.net) && l.ext + l.thdr + plen > 65535 {
        return Some("payload-too-big-ipv6");
    }
    None
}

pub struct Expect {
    pub layers: Vec<Layer>,
    /// message-header bytes that the decoders report in front of the user payload (ICMPv4 timestamps)
    pub prefix: Vec<u8>,
    /// exact TCP option bytes when they were handed over raw
    pub tcp_raw: Option<Vec<u8>>,
    pub icmp4_typed: Option<Icmpv4Type>,
    pub icmp6_typed: Option<Icmpv6Type>,
}

pub fn expect(c: &Cfg, t: &Tables) -> Expect {
    let mut e = Expect { layers: vec![], prefix: vec![], tcp_raw: None, icmp4_typed: None, icmp6_typed: None };
    let l = &mut e.layers;
    match c.link {
        LinkC::None => {}
        LinkC::Eth => l.push(Layer::Eth { dst: ETH_DST, src: ETH_SRC }),
        LinkC::Sll(p) => l.push(Layer::Sll { ptype: p, hatype: 1, halen: 6, addr: SLL_ADDR }),
    }
    match c.vlan {
        VlanC::None => {}
        VlanC::Single => l.push(Layer::Vlan { pcp: 0, dei: false, vid: 0x123 }),
        VlanC::Double => {
            l.push(Layer::Vlan { pcp: 0, dei: false, vid: 0x234 });
            l.push(Layer::Vlan { pcp: 0, dei: false, vid: 0x345 });
        }
        VlanC::HdrSingle => l.push(Layer::Vlan { pcp: 7, dei: true, vid: 0xfff }),
        VlanC::HdrDouble => {
            l.push(Layer::Vlan { pcp: 7, dei: true, vid: 0xfff });
            l.push(Layer::Vlan { pcp: 5, dei: false, vid: 1 });
        }
    }
    match c.net {
        NetC::Arp(i) => {
            let (htype, ptype, oper, sha, spa, tha, tpa) = arp_fields(i);
            l.push(Layer::Arp { htype, ptype, oper, sha, spa, tha, tpa });
            return e;
        }
        NetC::V4Simple => l.push(Layer::V4 { dscp: 0, ecn: 0, id: 0, df: true, mf: false, frag: 0, ttl: V4_TTL, src: V4_SRC, dst: V4_DST, options: vec![] }),
        NetC::V6Simple => l.push(Layer::V6 { tc: 0, flow: 0, hop: V6_HOP, src: V6_SRC, dst: V6_DST }),
        NetC::V4Hdr { opts, icv } => {
            l.push(Layer::V4 { dscp: 0x2e, ecn: 1, id: 0xbeef, df: true, mf: false, frag: 0, ttl: 0x7f, src: V4_SRC, dst: V4_DST, options: v4_options(opts) });
            if let Some(n) = icv {
                l.push(Layer::Ext { kind: 51, body: ah_body(n as usize) });
            }
        }
        NetC::V6Hdr { mask, big } => {
            l.push(Layer::V6 { tc: 0xb9, flow: 0xabcde, hop: V6_HOP, src: V6_SRC, dst: V6_DST });
            for (kind, body) in v6_ext_layers(mask, big) {
                l.push(Layer::Ext { kind, body });
            }
        }
    }
    match c.tr {
        TrC::None => {}
        TrC::Udp => l.push(Layer::Udp { sp: UDP_SP, dp: UDP_DP }),
        TrC::Tcp { flags, opts } => {
            l.push(Layer::Tcp {
                sp: TCP_SP,
                dp: TCP_DP,
                seq: TCP_SEQ,
                ack: if flags & 16 != 0 { TCP_ACKNO } else { 0 },
                flags,
                win: TCP_WIN,
                urg: if flags & 32 != 0 { TCP_URG } else { 0 },
                opts: tcp_opts_expected(opts),
            });
            if opts == 3 {
                e.tcp_raw = Some(tcp_opts_wire(3));
            }
        }
        TrC::TcpHdr(0) => l.push(Layer::Tcp { sp: 1, dp: 2, seq: 3, ack: 0x5566_7788, flags: 0x002, win: 0, urg: 0x4444, opts: vec![] }),
        TrC::TcpHdr(_) => {
            l.push(Layer::Tcp { sp: 0xffff, dp: 0xffff, seq: 0xffff_ffff, ack: 0xffff_ffff, flags: 0x1ff, win: 0xffff, urg: 0xffff, opts: tcp_opts_expected(3) });
            e.tcp_raw = Some(tcp_opts_wire(3));
        }
        TrC::Icmp4(i) => {
            let x = &t.i4[i as usize];
            l.push(Layer::Icmp4 { typ: x.typ, code: x.code, rest: x.rest });
            e.prefix = x.extra.clone();
            if !matches!(x.ty, Icmpv4Type::Unknown { .. }) {
                e.icmp4_typed = Some(x.ty.clone());
            }
        }
        TrC::Icmp4Raw(i) => {
            let (typ, code, rest) = t.i4raw[i as usize];
            l.push(Layer::Icmp4 { typ, code, rest });
        }
        TrC::Icmp4EchoReq => {
            l.push(Layer::Icmp4 { typ: 8, code: 0, rest: [0x12, 0x34, 0x56, 0x78] });
            e.icmp4_typed = Some(Icmpv4Type::EchoRequest(IcmpEchoHeader { id: ECHO_ID, seq: ECHO_SEQ }));
        }
        TrC::Icmp4EchoRep => {
            l.push(Layer::Icmp4 { typ: 0, code: 0, rest: [0x12, 0x34, 0x56, 0x78] });
            e.icmp4_typed = Some(Icmpv4Type::EchoReply(IcmpEchoHeader { id: ECHO_ID, seq: ECHO_SEQ }));
        }
        TrC::Icmp6(i) => {
            let x = &t.i6[i as usize];
            l.push(Layer::Icmp6 { typ: x.typ, code: x.code, rest: x.rest });
            if !matches!(x.ty, Icmpv6Type::Unknown { .. }) {
                e.icmp6_typed = Some(x.ty);
            }
        }
        TrC::Icmp6Raw(i) => {
            let (typ, code, rest) = t.i6raw[i as usize];
            l.push(Layer::Icmp6 { typ, code, rest });
        }
        TrC::Icmp6EchoReq => {
            l.push(Layer::Icmp6 { typ: 128, code: 0, rest: [0x12, 0x34, 0x56, 0x78] });
            e.icmp6_typed = Some(Icmpv6Type::EchoRequest(IcmpEchoHeader { id: ECHO_ID, seq: ECHO_SEQ }));
        }
        TrC::Icmp6EchoRep => {
            l.push(Layer::Icmp6 { typ: 129, code: 0, rest: [0x12, 0x34, 0x56, 0x78] });
            e.icmp6_typed = Some(Icmpv6Type::EchoReply(IcmpEchoHeader { id: ECHO_ID, seq: ECHO_SEQ }));
        }
        TrC::Raw(n) => l.push(Layer::Other { proto: n }),
    }
    e
}

// ---- naming ---------------------------------------------------------------------------------------------

/// stacking shape without concrete values, e.g. `eth-vlan2-ipv6-exts-udp`
pub fn shape(c: &Cfg) -> String {
    let mut p: Vec<&str> = vec![];
    match c.link {
        LinkC::None => {}
        LinkC::Eth => p.push("eth"),
        LinkC::Sll(_) => p.push("sll"),
    }
    match c.vlan {
        VlanC::None => {}
        VlanC::Single | VlanC::HdrSingle => p.push("vlan1"),
        VlanC::Double | VlanC::HdrDouble => p.push("vlan2"),
    }
    match c.net {
        NetC::Arp(_) => p.push("arp"),
        NetC::V4Simple | NetC::V4Hdr { opts: 0, icv: None } => p.push("ipv4"),
        NetC::V4Hdr { opts: 0, icv: Some(_) } => p.push("ipv4-ah"),
        NetC::V4Hdr { icv: None, .. } => p.push("ipv4-opts"),
        NetC::V4Hdr { .. } => p.push("ipv4-opts-ah"),
        NetC::V6Simple | NetC::V6Hdr { mask: 0, .. } => p.push("ipv6"),
        NetC::V6Hdr { .. } => p.push("ipv6-exts"),
    }
    match c.tr {
        TrC::None => {}
        TrC::Udp => p.push("udp"),
        TrC::Tcp { opts: 0, .. } | TrC::TcpHdr(0) => p.push("tcp"),
        TrC::Tcp { .. } | TrC::TcpHdr(_) => p.push("tcp-options"),
        TrC::Icmp4(_) | TrC::Icmp4Raw(_) | TrC::Icmp4EchoReq | TrC::Icmp4EchoRep => p.push("icmpv4"),
        TrC::Icmp6(_) | TrC::Icmp6Raw(_) | TrC::Icmp6EchoReq | TrC::Icmp6EchoRep => p.push("icmpv6"),
        TrC::Raw(_) => p.push("raw"),
    }
    p.join("-")
}

/// the builder call chain, with every value, for reproduction by hand
pub fn chain(c: &Cfg, t: &Tables) -> String {
    let mut s = String::from("PacketBuilder::");
    match c.link {
        LinkC::None => {}
        LinkC::Eth => s.push_str(&format!("ethernet2({:02x?}, {:02x?}).", ETH_SRC, ETH_DST)),
        LinkC::Sll(p) => s.push_str(&format!("linux_sll(LinuxSllPacketType({}), 6, {:02x?}).", p, SLL_ADDR)),
    }
    match c.vlan {
        VlanC::None => {}
        VlanC::Single => s.push_str("single_vlan(0x123)."),
        VlanC::Double => s.push_str("double_vlan(0x234, 0x345)."),
        VlanC::HdrSingle => s.push_str("vlan(VlanHeader::Single{pcp:7, dei:true, vlan_id:0xfff, ether_type:0x1234})."),
        VlanC::HdrDouble => s.push_str("vlan(VlanHeader::Double{outer:{pcp:7, dei:true, vlan_id:0xfff, ether_type:0xffff}, inner:{pcp:5, dei:false, vlan_id:1, ether_type:0}})."),
    }
    match c.net {
        NetC::Arp(i) => {
            let f = arp_fields(i);
            s.push_str(&format!("arp(ArpPacket::new(hw {}, proto {:#06x}, op {}, sha {}, spa {}, tha {}, tpa {}))", f.0, f.1, f.2, crate::fw::hex(&f.3), crate::fw::hex(&f.4), crate::fw::hex(&f.5), crate::fw::hex(&f.6)));
        }
        NetC::V4Simple => s.push_str(&format!("ipv4({:?}, {:?}, {})", V4_SRC, V4_DST, V4_TTL)),
        NetC::V6Simple => s.push_str(&format!("ipv6({:02x?}, {:02x?}, {})", V6_SRC, V6_DST, V6_HOP)),
        NetC::V4Hdr { opts, icv } => s.push_str(&format!(
            "ip(IpHeaders::Ipv4(Ipv4Header{{dscp:0x2e, ecn:1, total_len:7, id:0xbeef, df:true, ttl:0x7f, protocol:250, header_checksum:0x1234, src:{:?}, dst:{:?}, options:{}}}, Ipv4Extensions{{auth:{}}}))",
            V4_SRC,
            V4_DST,
            crate::fw::hex(&v4_options(opts)),
            match icv {
                Some(n) => format!("Some(IpAuthHeader::new(250, {:#x}, {:#x}, icv[i]=i*13+5 x {}))", AH_SPI, AH_SEQ, n),
                None => "None".into(),
            }
        )),
        NetC::V6Hdr { mask, big } => {
            let names: Vec<String> = v6_ext_layers(mask, big).iter().map(|(k, b)| format!("{}[{}B body {}]", k, b.len(), crate::fw::truncate(&crate::fw::hex(b), 64))).collect();
            s.push_str(&format!(
                "ip(IpHeaders::Ipv6(Ipv6Header{{traffic_class:0xb9, flow_label:0xabcde, payload_length:0x7777, next_header:250, hop_limit:{}, src:{:02x?}, dst:{:02x?}}}, Ipv6Extensions{{slots mask {:#08b} (hop,dest,routing,final-dest,fragment(off 0,M 0,id {:#x}),auth) = [{}], every next_header 250}}))",
                V6_HOP,
                V6_SRC,
                V6_DST,
                mask,
                FRAG_ID,
                names.join(", ")
            ));
        }
    }
    match c.tr {
        TrC::None => {}
        TrC::Udp => s.push_str(&format!(".udp({}, {})", UDP_SP, UDP_DP)),
        TrC::Tcp { flags, opts } => s.push_str(&format!(
            ".tcp({}, {}, {:#x}, {:#x}) + flag setters for {:#05x} (bit8 ns, cwr ece urg({:#x}) ack({:#x}) psh rst syn fin) + {}",
            TCP_SP,
            TCP_DP,
            TCP_SEQ,
            TCP_WIN,
            flags,
            TCP_URG,
            TCP_ACKNO,
            match opts {
                0 => "no options".to_string(),
                1 => "options_raw(the 40 byte list) then options_raw(02 04 05 b4 = MSS(1460))".to_string(),
                2 => "options([MSS(1460), WindowScale(7), SackPermitted, Timestamp(0x01020304, 0x05060708)])".to_string(),
                _ => format!("options_raw({})", crate::fw::hex(&tcp_opts_wire(3))),
            }
        )),
        TrC::TcpHdr(i) => s.push_str(&format!(".tcp_header({:?})", tcp_header_variant(i))),
        TrC::Icmp4(i) => s.push_str(&format!(".icmpv4({:?})", t.i4[i as usize].ty)),
        TrC::Icmp4Raw(i) => s.push_str(&format!(".icmpv4_raw{:?}", t.i4raw[i as usize])),
        TrC::Icmp4EchoReq => s.push_str(".icmpv4_echo_request(0x1234, 0x5678)"),
        TrC::Icmp4EchoRep => s.push_str(".icmpv4_echo_reply(0x1234, 0x5678)"),
        TrC::Icmp6(i) => s.push_str(&format!(".icmpv6({:?})", t.i6[i as usize].ty)),
        TrC::Icmp6Raw(i) => s.push_str(&format!(".icmpv6_raw{:?}", t.i6raw[i as usize])),
        TrC::Icmp6EchoReq => s.push_str(".icmpv6_echo_request(0x1234, 0x5678)"),
        TrC::Icmp6EchoRep => s.push_str(".icmpv6_echo_reply(0x1234, 0x5678)"),
        TrC::Raw(n) => s.push_str(&format!(" then write(.., IpNumber({}), payload)", n)),
    }
    s
}
