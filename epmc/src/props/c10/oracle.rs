//! The C10 oracle for one (configuration, payload) pair.

use super::cfg::*;
use super::refdec::{self, Layer, Opts, Start};
use crate::fw::*;
use etherparse::*;

#[derive(Debug, Clone, PartialEq, Eq)]
pub enum Outcome {
    Ok,
    /// expected error class
    Err(&'static str),
    /// a violation was reported
    Bad,
}

/// protocol numbers that a strict parser interprets further: the user payload of a raw `write` with such a number is
/// not "a payload the chosen message type admits" unless it happens to be a well-formed header of that type
fn parsed_further(n: u8) -> bool {
    matches!(n, 0 | 1 | 6 | 17 | 43 | 44 | 51 | 58 | 60)
}
fn is_ext_number(n: u8) -> bool {
    matches!(n, 0 | 43 | 44 | 51 | 60)
}

/// fields that the used builder call does not take as input are not "supplied": copy them from the decoded side
fn normalize(c: &Cfg, want: &mut [Layer], got: &[Layer]) {
    for (w, g) in want.iter_mut().zip(got.iter()) {
        match (w, g) {
            (Layer::V4 { dscp, ecn, id, df, .. }, Layer::V4 { dscp: gd, ecn: ge, id: gi, df: gf, .. }) if c.net == NetC::V4Simple => {
                *dscp = *gd;
                *ecn = *ge;
                *id = *gi;
                *df = *gf;
            }
            (Layer::V6 { tc, flow, .. }, Layer::V6 { tc: gt, flow: gf, .. }) if c.net == NetC::V6Simple => {
                *tc = *gt;
                *flow = *gf;
            }
            (Layer::Vlan { pcp, dei, .. }, Layer::Vlan { pcp: gp, dei: gd, .. }) if matches!(c.vlan, VlanC::Single | VlanC::Double) => {
                *pcp = *gp;
                *dei = *gd;
            }
            (Layer::Tcp { ack, urg, flags, .. }, Layer::Tcp { ack: ga, urg: gu, .. }) if matches!(c.tr, TrC::Tcp { .. }) => {
                if *flags & 16 == 0 {
                    *ack = *ga;
                }
                if *flags & 32 == 0 {
                    *urg = *gu;
                }
            }
            _ => {}
        }
    }
}

fn compare(who: &str, c: &Cfg, exp: &Expect, got: &[Layer], got_payload: &[u8], payload: &[u8], case: &mut Case) -> bool {
    let mut want = exp.layers.clone();
    normalize(c, &mut want, got);
    if want.len() != got.len() || want.iter().zip(got.iter()).any(|(a, b)| a.name() != b.name()) {
        let w: Vec<&str> = want.iter().map(|l| l.name()).collect();
        let g: Vec<&str> = got.iter().map(|l| l.name()).collect();
        case.fail(format!("{}:layer-sequence-differs", who), format!("configured layers {:?} but the bytes decode to {:?} (extension headers must come in RFC 8200 §4.1 order)", w, g));
        return false;
    }
    for (w, g) in want.iter().zip(got.iter()) {
        if w != g {
            case.fail(format!("{}:not-recovered:{}", who, w.name()), format!("configured {} but decoded {}", truncate(&format!("{:?}", w), 700), truncate(&format!("{:?}", g), 700)));
            return false;
        }
    }
    let mut full = exp.prefix.clone();
    full.extend_from_slice(payload);
    if got_payload != &full[..] {
        let at = got_payload.iter().zip(full.iter()).position(|(a, b)| a != b).unwrap_or(got_payload.len().min(full.len()));
        case.fail(format!("{}:payload-not-recovered", who), format!("payload behind the last header has {} bytes, expected {}; first difference at offset {}", got_payload.len(), full.len(), at));
        return false;
    }
    true
}

fn opt_kind(e: &TcpOptionElement) -> (u8, Vec<u8>) {
    use TcpOptionElement::*;
    match e {
        Noop => (1, vec![]),
        MaximumSegmentSize(v) => (2, v.to_be_bytes().to_vec()),
        WindowScale(v) => (3, vec![*v]),
        SelectiveAcknowledgementPermitted => (4, vec![]),
        SelectiveAcknowledgement(first, rest) => {
            let mut d = vec![];
            d.extend_from_slice(&first.0.to_be_bytes());
            d.extend_from_slice(&first.1.to_be_bytes());
            for r in rest.iter().flatten() {
                d.extend_from_slice(&r.0.to_be_bytes());
                d.extend_from_slice(&r.1.to_be_bytes());
            }
            (5, d)
        }
        Timestamp(a, b) => {
            let mut d = a.to_be_bytes().to_vec();
            d.extend_from_slice(&b.to_be_bytes());
            (8, d)
        }
    }
}

/// the crate's strict parse result expressed in the vocabulary of the reference decoder (accessors only)
fn layers_from_sliced<'a>(sp: &SlicedPacket<'a>) -> Result<(Vec<Layer>, Vec<u8>, Option<Icmpv4Type>, Option<Icmpv6Type>), String> {
    let mut l = vec![];
    match &sp.link {
        None => {}
        Some(LinkSlice::Ethernet2(e)) => l.push(Layer::Eth { dst: e.destination(), src: e.source() }),
        Some(LinkSlice::LinuxSll(s)) => l.push(Layer::Sll { ptype: u16::from(s.packet_type()), hatype: u16::from(s.arp_hardware_type()), halen: s.sender_address_valid_length(), addr: s.sender_address_full() }),
        Some(other) => return Err(format!("unexpected link slice {:?}", other)),
    }
    for x in sp.link_exts.iter() {
        match x {
            LinkExtSlice::Vlan(v) => l.push(Layer::Vlan { pcp: v.priority_code_point().value(), dei: v.drop_eligible_indicator(), vid: v.vlan_identifier().value() }),
            LinkExtSlice::Macsec(_) => return Err("unexpected MACsec slice".into()),
        }
    }
    let auth = |a: &IpAuthHeaderSlice| -> Layer {
        let mut b = a.spi().to_be_bytes().to_vec();
        b.extend_from_slice(&a.sequence_number().to_be_bytes());
        b.extend_from_slice(a.raw_icv());
        Layer::Ext { kind: 51, body: b }
    };
    let mut ip_payload: Option<(u8, Vec<u8>)> = None;
    match &sp.net {
        None => return Err("no net slice".into()),
        Some(NetSlice::Arp(a)) => {
            l.push(Layer::Arp {
                htype: a.hw_addr_type().0,
                ptype: a.proto_addr_type().0,
                oper: a.operation().0,
                sha: a.sender_hw_addr().to_vec(),
                spa: a.sender_protocol_addr().to_vec(),
                tha: a.target_hw_addr().to_vec(),
                tpa: a.target_protocol_addr().to_vec(),
            });
            return Ok((l, vec![], None, None));
        }
        Some(NetSlice::Ipv4(s)) => {
            let h = s.header();
            l.push(Layer::V4 {
                dscp: h.dcp().value(),
                ecn: h.ecn().value(),
                id: h.identification(),
                df: h.dont_fragment(),
                mf: h.more_fragments(),
                frag: h.fragments_offset().value(),
                ttl: h.ttl(),
                src: h.source(),
                dst: h.destination(),
                options: h.options().to_vec(),
            });
            if let Some(a) = &s.extensions().auth {
                l.push(auth(a));
            }
            if sp.transport.is_none() {
                ip_payload = Some((s.payload().ip_number.0, s.payload().payload.to_vec()));
            }
        }
        Some(NetSlice::Ipv6(s)) => {
            let h = s.header();
            l.push(Layer::V6 { tc: h.traffic_class(), flow: h.flow_label().value(), hop: h.hop_limit(), src: h.source(), dst: h.destination() });
            for e in s.extensions().clone().into_iter() {
                l.push(match e {
                    Ipv6ExtensionSlice::HopByHop(x) => Layer::Ext { kind: 0, body: x.payload().to_vec() },
                    Ipv6ExtensionSlice::DestinationOptions(x) => Layer::Ext { kind: 60, body: x.payload().to_vec() },
                    Ipv6ExtensionSlice::Routing(x) => Layer::Ext { kind: 43, body: x.payload().to_vec() },
                    Ipv6ExtensionSlice::Fragment(f) => {
                        let of = (f.fragment_offset().value() << 3) | f.more_fragments() as u16;
                        let mut b = of.to_be_bytes().to_vec();
                        b.extend_from_slice(&f.identification().to_be_bytes());
                        Layer::Ext { kind: 44, body: b }
                    }
                    Ipv6ExtensionSlice::Authentication(a) => auth(&a),
                });
            }
            if sp.transport.is_none() {
                ip_payload = Some((s.payload().ip_number.0, s.payload().payload.to_vec()));
            }
        }
    }
    let mut t4 = None;
    let mut t6 = None;
    let payload = match &sp.transport {
        None => {
            let (n, p) = ip_payload.unwrap();
            l.push(Layer::Other { proto: n });
            p
        }
        Some(TransportSlice::Udp(u)) => {
            l.push(Layer::Udp { sp: u.source_port(), dp: u.destination_port() });
            u.payload().to_vec()
        }
        Some(TransportSlice::Tcp(t)) => {
            let mut opts = vec![];
            for o in t.options_iterator() {
                match o {
                    Ok(e) => opts.push(opt_kind(&e)),
                    Err(e) => return Err(format!("TCP option iterator error {:?}", e)),
                }
            }
            let flags = (t.ns() as u16) << 8 | (t.cwr() as u16) << 7 | (t.ece() as u16) << 6 | (t.urg() as u16) << 5 | (t.ack() as u16) << 4 | (t.psh() as u16) << 3 | (t.rst() as u16) << 2 | (t.syn() as u16) << 1 | t.fin() as u16;
            l.push(Layer::Tcp { sp: t.source_port(), dp: t.destination_port(), seq: t.sequence_number(), ack: t.acknowledgment_number(), flags, win: t.window_size(), urg: t.urgent_pointer(), opts });
            t.payload().to_vec()
        }
        Some(TransportSlice::Icmpv4(i)) => {
            l.push(Layer::Icmp4 { typ: i.type_u8(), code: i.code_u8(), rest: i.bytes5to8() });
            t4 = Some(i.icmp_type());
            i.slice()[8..].to_vec()
        }
        Some(TransportSlice::Icmpv6(i)) => {
            l.push(Layer::Icmp6 { typ: i.type_u8(), code: i.code_u8(), rest: i.bytes5to8() });
            t6 = Some(i.icmp_type());
            i.slice()[8..].to_vec()
        }
    };
    Ok((l, payload, t4, t6))
}

/// panic location without the checkout prefix (`net/ipv6_exts.rs:679`), for the signature
fn ploc(p: &str) -> String {
    let loc = p.rsplit(" @ ").next().unwrap_or("?");
    loc.rsplit("/src/").next().unwrap_or(loc).to_string()
}

fn be16(b: &[u8], o: usize) -> u16 {
    u16::from_be_bytes([b[o], b[o + 1]])
}

/// "never a truncated length field": whatever was already written when the error was returned must not contain a
/// length field that differs from the real (intended) size
fn check_partial(api: &str, c: &Cfg, l: &Lens, plen: usize, part: &[u8], case: &mut Case) {
    let ip_off = l.link + l.vlan;
    let mut bad = |field: &str, got: u16, real: usize| {
        if got as usize != real {
            case.fail(
                format!("error-after-truncated-length-field:{}:{}", api, field),
                format!("{} returned Err but had already written {} bytes in which {} = {} while the real size is {} ({})", api, part.len(), field, got, real, if real > 65535 { "wrapped" } else { "wrong" }),
            );
        }
    };
    if is_v4(c.net) {
        if part.len() >= ip_off + 4 {
            bad("ipv4.total_len", be16(part, ip_off + 2), l.iphdr + l.ext + l.thdr + plen);
        }
    } else if is_v6(c.net) && part.len() >= ip_off + 6 {
        bad("ipv6.payload_length", be16(part, ip_off + 4), l.ext + l.thdr + plen);
    }
    if c.tr == TrC::Udp {
        let u = ip_off + l.iphdr + l.ext;
        if part.len() >= u + 6 {
            bad("udp.length", be16(part, u + 4), 8 + plen);
        }
    }
}

pub const VEC_PREFIX: [u8; 3] = [0xee, 0xef, 0xf0];

/// run one configuration with one payload through all three writers and apply the oracle
pub fn check(c: &Cfg, t: &Tables, payload: &[u8], extras: bool, case: &mut Case) -> Outcome {
    let plen = payload.len();
    let l = lens(c, t);
    let exp_err = expected_error(c, t, plen);
    let real_size = l.link + l.vlan + l.iphdr + l.ext + l.thdr + l.arp + plen;

    // ---- size
    case.at("PacketBuilderStep::size");
    let b = make(c, t);
    case.eval();
    let size = match guarded(|| b.size(plen)) {
        Ok(s) => s,
        Err(p) => {
            case.fail(format!("panic:size:{}", ploc(&p)), format!("size({}) panicked: {}", plen, p));
            return Outcome::Bad;
        }
    };

    // ---- the three writers
    case.at("PacketBuilderStep::write");
    let mut o1: Vec<u8> = Vec::with_capacity(size.min(1 << 18));
    case.eval();
    let r1 = match guarded(|| b.write(&mut o1, payload)) {
        Ok(r) => r,
        Err(p) => {
            case.fail(format!("panic:write:{}", ploc(&p)), format!("write panicked instead of returning a result: {}", p));
            return Outcome::Bad;
        }
    };
    case.at("PacketBuilderStep::write_to_vec");
    let mut o2: Vec<u8> = Vec::with_capacity(size.min(1 << 18) + 3);
    o2.extend_from_slice(&VEC_PREFIX);
    let b2 = make(c, t);
    case.eval();
    let r2 = match guarded(|| b2.write_to_vec(&mut o2, payload)) {
        Ok(r) => r,
        Err(p) => {
            case.fail(format!("panic:write_to_vec:{}", ploc(&p)), format!("write_to_vec panicked instead of returning a result: {}", p));
            return Outcome::Bad;
        }
    };
    case.at("PacketBuilderStep::write_to_slice");
    let mut o3 = vec![0xaau8; size.min(1 << 18)];
    let b3 = make(c, t);
    case.eval();
    let r3 = match guarded(|| b3.write_to_slice(&mut o3, payload)) {
        Ok(r) => r,
        Err(p) => {
            case.fail(format!("panic:write_to_slice:{}", ploc(&p)), format!("write_to_slice panicked instead of returning a result: {}", p));
            return Outcome::Bad;
        }
    };
    if o2.len() < 3 || o2[..3] != VEC_PREFIX {
        case.fail("write_to_vec:clobbers-existing-content", format!("the 3 bytes that were in the Vec before are now {}", hex(&o2[..o2.len().min(3)])));
        return Outcome::Bad;
    }
    let o2 = &o2[3..];

    if r1.is_ok() && exp_err.is_none() && o1.len() != size {
        case.fail("size-differs-from-written:write", format!("size({}) = {} but write produced {} bytes (real size {}); write_to_slice with a size() byte buffer -> {:?}", plen, size, o1.len(), real_size, r3.as_ref().map_err(|e| &e.1)));
        return Outcome::Bad;
    }
    match (&r1, &r2, &r3) {
        (Ok(()), Ok(()), Ok(n3)) => {
            if let Some(class) = exp_err {
                case.fail(format!("unencodable-configuration-accepted:{}", class), format!("all writers returned Ok ({} bytes) although the configuration cannot be encoded: {} (real size {})", o1.len(), class, real_size));
                check_partial("write", c, &l, plen, &o1, case);
                return Outcome::Bad;
            }
            if o1.len() != size {
                case.fail("size-differs-from-written:write", format!("size({}) = {} but write produced {} bytes", plen, size, o1.len()));
                return Outcome::Bad;
            }
            if o2.len() != size {
                case.fail("size-differs-from-written:write_to_vec", format!("size({}) = {} but write_to_vec appended {} bytes", plen, size, o2.len()));
                return Outcome::Bad;
            }
            if *n3 != size {
                case.fail("size-differs-from-written:write_to_slice", format!("size({}) = {} but write_to_slice returned {}", plen, size, n3));
                return Outcome::Bad;
            }
            if o1[..] != o2[..] {
                let at = o1.iter().zip(o2.iter()).position(|(a, b)| a != b).unwrap_or(0);
                case.fail("writers-produce-different-bytes:write_to_vec", format!("write and write_to_vec differ at offset {}", at));
                return Outcome::Bad;
            }
            if o1[..] != o3[..size] {
                let at = o1.iter().zip(o3.iter()).position(|(a, b)| a != b).unwrap_or(0);
                case.fail("writers-produce-different-bytes:write_to_slice", format!("write and write_to_slice differ at offset {}", at));
                return Outcome::Bad;
            }
        }
        (Err(e1), Err(_), Err(_)) => {
            match exp_err {
                None => {
                    case.fail(format!("encodable-configuration-rejected:{}", e1.0), format!("all writers returned Err ({}) although the configuration is encodable in {} bytes", e1.1, real_size));
                    return Outcome::Bad;
                }
                Some(class) => {
                    check_partial("write", c, &l, plen, &o1, case);
                    check_partial("write_to_vec", c, &l, plen, o2, case);
                    return if case.failed() { Outcome::Bad } else { Outcome::Err(class) };
                }
            }
        }
        _ => {
            let f = |r: Result<(), &(String, String)>| match r {
                Ok(()) => "Ok".to_string(),
                Err(e) => format!("Err({})", e.1),
            };
            case.fail(
                "writers-disagree-on-success",
                format!("write -> {}, write_to_vec -> {}, write_to_slice -> {}", f(r1.as_ref().map(|_| ())), f(r2.as_ref().map(|_| ())), f(r3.as_ref().map(|_| ()))),
            );
            return Outcome::Bad;
        }
    }

    // ---- buffer-size variations of write_to_slice (small cases only)
    if extras {
        case.at("PacketBuilderStep::write_to_slice");
        let mut big = vec![0x55u8; size + 5];
        let bb = make(c, t);
        case.eval();
        match guarded(|| bb.write_to_slice(&mut big, payload)) {
            Ok(Ok(n)) if n == size && big[..size] == o1[..] && big[size..] == [0x55; 5] => {}
            other => {
                case.fail("write_to_slice:larger-buffer", format!("with a buffer of size()+5 bytes: {:?}, bytes behind the packet {}", other.map(|r| r.map_err(|e| e.1)), hex(&big[size..])));
                return Outcome::Bad;
            }
        }
        if size > 0 {
            let mut small = vec![0x55u8; size - 1];
            let bs = make(c, t);
            case.eval();
            match guarded(|| bs.write_to_slice(&mut small, payload)) {
                Ok(Err(_)) => {}
                other => {
                    case.fail("write_to_slice:too-small-buffer-not-rejected", format!("with a buffer of size()-1 bytes: {:?}", other.map(|r| r.map_err(|e| e.1))));
                    return Outcome::Bad;
                }
            }
        }
    }

    // ---- reference decoder
    let exp = expect(c, t);
    let start = match c.link {
        LinkC::None => Start::Ip,
        LinkC::Eth => Start::Eth,
        LinkC::Sll(_) => Start::Sll,
    };
    let n_exts = exp.layers.iter().filter(|x| matches!(x, Layer::Ext { .. })).count();
    let opts = match c.tr {
        TrC::Raw(n) => Opts { max_exts: if is_ext_number(n) { Some(n_exts) } else { None }, opaque_upper: true },
        _ => Opts { max_exts: None, opaque_upper: false },
    };
    match refdec::decode(&o1, start, opts) {
        Err((why, detail)) => {
            case.fail(format!("refdec-rejects:{}", why), format!("{} — packet head {}", detail, truncate(&hex(&o1[..o1.len().min(160)]), 330)));
            return Outcome::Bad;
        }
        Ok(d) => {
            if !compare("refdec", c, &exp, &d.layers, &o1[d.payload_off..], payload, case) {
                return Outcome::Bad;
            }
            if let Some(raw) = &exp.tcp_raw {
                if &d.tcp_opts_raw != raw {
                    case.fail("refdec:not-recovered:tcp-raw-options", format!("options_raw {} but header carries {}", hex(raw), hex(&d.tcp_opts_raw)));
                    return Outcome::Bad;
                }
            }
        }
    }

    // ---- the crate's strict parser
    let (typ, code) = match exp.layers.last() {
        Some(Layer::Icmp4 { typ, code, .. }) => (*typ, *code),
        _ => (255, 255),
    };
    let exempt_ts = (typ == 13 || typ == 14) && code == 0 && l.thdr + plen != 20;
    let exempt_raw = matches!(c.tr, TrC::Raw(n) if parsed_further(n));
    if exempt_ts {
        case.reach("exempt:icmpv4-timestamp-with-payload-not-parsed-back");
    } else if exempt_raw {
        case.reach("exempt:raw-ip-number-interpreted-by-parser");
    } else {
        case.at(match c.link {
            LinkC::None => "SlicedPacket::from_ip",
            LinkC::Eth => "SlicedPacket::from_ethernet",
            LinkC::Sll(_) => "SlicedPacket::from_linux_sll",
        });
        case.eval();
        let r = match c.link {
            LinkC::None => SlicedPacket::from_ip(&o1),
            LinkC::Eth => SlicedPacket::from_ethernet(&o1),
            LinkC::Sll(_) => SlicedPacket::from_linux_sll(&o1),
        };
        match r {
            Err(e) => {
                let (cl, txt) = {
                    let s = format!("{:?}", e);
                    (s.split(|c: char| !c.is_alphanumeric()).next().unwrap_or("").to_string(), s)
                };
                case.fail(format!("strict-parse-rejects:{}", cl), format!("{} returned {} for the packet the builder wrote", case.cur_at(), txt));
                return Outcome::Bad;
            }
            Ok(sp) => match layers_from_sliced(&sp) {
                Err(m) => {
                    case.fail("strict-parse:unexpected-structure", m);
                    return Outcome::Bad;
                }
                Ok((layers, pay, t4, t6)) => {
                    if !compare("strict-parse", c, &exp, &layers, &pay, payload, case) {
                        return Outcome::Bad;
                    }
                    if let (Some(w), Some(g)) = (&exp.icmp4_typed, &t4) {
                        if w != g {
                            case.fail("strict-parse:not-recovered:Icmpv4Type", format!("configured {:?}, parsed {:?}", w, g));
                            return Outcome::Bad;
                        }
                    }
                    if let (Some(w), Some(g)) = (&exp.icmp6_typed, &t6) {
                        if w != g {
                            case.fail("strict-parse:not-recovered:Icmpv6Type", format!("configured {:?}, parsed {:?}", w, g));
                            return Outcome::Bad;
                        }
                    }
                }
            },
        }
    }
    Outcome::Ok
}
