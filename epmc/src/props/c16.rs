//! C16 — I/O faults and short buffers surface as errors without partial garbage.
//!
//! Fault enumeration: for every serialisable header / packet value and every entry point that
//! writes to an `io::Write`, writes into a slice, or reads from an `io::Read` (optionally behind
//! an `etherparse::io::LimitedReader`), *every* fault position is tried:
//!
//! * (w) an instrumented writer that accepts exactly `k` bytes and then fails, `k in 0..=len`,
//!   in several delivery modes (whole buffers, 1-byte and 3-byte short writes, `Interrupted`
//!   before every real write, `Ok(0)` at the fault, a transient fault that fails exactly once);
//! * (s) output slices of every length `0..=len+1`, placed so that they end at a PROT_NONE page
//!   and are preceded by canary bytes;
//! * (r) an instrumented reader over the encoding that fails after `k` bytes, `k in 0..=len`;
//! * (l) a `LimitedReader` with every limit `0..=len+1` around the instrumented reader (and the
//!   length fields of the IP headers, which `IpHeaders::read` turns into such a limit).
//!
//! The complete encoding of a value is what the same entry point writes into an unbounded
//! writer; everything else in the oracle is plain byte comparison.

use crate::fw::*;
use crate::mem;
use etherparse::err::packet::{BuildSliceWriteError, BuildWriteError};
use etherparse::err::{Layer, LenError};
use etherparse::io::LimitedReader;
use etherparse::*;
use std::io::{self, Read, Seek, SeekFrom, Write};
use std::rc::Rc;

pub struct C16;

// ---------------------------------------------------------------------------------------------
// injected faults

#[derive(Debug)]
struct Injected(u64);
impl std::fmt::Display for Injected {
    fn fmt(&self, f: &mut std::fmt::Formatter<'_>) -> std::fmt::Result {
        write!(f, "epmc injected fault #{}", self.0)
    }
}
impl std::error::Error for Injected {}

fn injected(id: u64) -> io::Error {
    io::Error::new(io::ErrorKind::Other, Injected(id))
}

/// is `e` exactly the error object that the instrumented reader/writer returned (kind, payload, message)?
fn is_injected(e: &io::Error, id: u64) -> bool {
    e.kind() == io::ErrorKind::Other
        && e.get_ref().and_then(|x| x.downcast_ref::<Injected>()).map(|i| i.0) == Some(id)
        && e.to_string() == format!("epmc injected fault #{}", id)
}

#[derive(Clone, Copy, PartialEq, Eq, Debug)]
enum WMode {
    /// accepts whole buffers until the budget is hit
    Whole,
    /// short writes of 1 byte
    Short1,
    /// short writes of 3 bytes
    Short3,
    /// `ErrorKind::Interrupted` once before each real write (write_all must retry)
    Intr,
    /// `Ok(0)` instead of an error once the budget is exhausted (=> `ErrorKind::WriteZero`)
    Zero,
    /// fails exactly once at the budget, afterwards accepts everything (shows writes after the first failure)
    Transient,
}
const WMODES: &[WMode] = &[WMode::Whole, WMode::Short1, WMode::Short3, WMode::Intr, WMode::Zero, WMode::Transient];

#[derive(Clone, Copy, PartialEq, Eq, Debug)]
enum RMode {
    Whole,
    Short1,
    Short3,
    /// `ErrorKind::Interrupted` once before each real read (read_exact must retry)
    Intr,
    /// `Ok(0)` (end of stream) instead of an error at the fault (=> `ErrorKind::UnexpectedEof`)
    Eof,
}
const RMODES: &[RMode] = &[RMode::Whole, RMode::Short1, RMode::Short3, RMode::Intr, RMode::Eof];
const LMODES: &[RMode] = &[RMode::Whole, RMode::Short1, RMode::Short3];

/// `io::Write` that accepts exactly `budget` bytes in total
pub struct FaultWriter {
    got: Vec<u8>,
    budget: usize,
    mode: WMode,
    id: u64,
    intr_next: bool,
    faults: u32,
    intr: u32,
}

impl FaultWriter {
    fn new(budget: usize, mode: WMode, id: u64) -> FaultWriter {
        FaultWriter { got: Vec::new(), budget, mode, id, intr_next: true, faults: 0, intr: 0 }
    }
}

impl Write for FaultWriter {
    fn write(&mut self, buf: &[u8]) -> io::Result<usize> {
        if buf.is_empty() {
            return Ok(0);
        }
        if self.mode == WMode::Intr {
            if self.intr_next {
                self.intr_next = false;
                self.intr += 1;
                return Err(io::Error::new(io::ErrorKind::Interrupted, "epmc interrupted"));
            }
            self.intr_next = true;
        }
        if self.mode == WMode::Transient && self.faults > 0 {
            // the fault is over: everything written from now on shows up after the hole
            self.got.extend_from_slice(buf);
            return Ok(buf.len());
        }
        let room = self.budget.saturating_sub(self.got.len());
        if room == 0 {
            self.faults += 1;
            return match self.mode {
                WMode::Zero => Ok(0),
                _ => Err(injected(self.id)),
            };
        }
        let chunk = match self.mode {
            WMode::Short1 => 1,
            WMode::Short3 => 3,
            _ => usize::MAX,
        };
        let n = buf.len().min(room).min(chunk);
        self.got.extend_from_slice(&buf[..n]);
        Ok(n)
    }
    fn flush(&mut self) -> io::Result<()> {
        Ok(())
    }
}

/// `io::Read + io::Seek` over `data` that fails when asked for the byte at offset `budget`
pub struct FaultReader {
    data: Rc<Vec<u8>>,
    pos: usize,
    budget: usize,
    mode: RMode,
    id: u64,
    intr_next: bool,
    /// bytes handed out
    delivered: usize,
    /// highest offset (exclusive) any read call asked for
    max_reach: usize,
    faults: u32,
    intr: u32,
}

impl FaultReader {
    fn new(data: Rc<Vec<u8>>, budget: usize, mode: RMode, id: u64) -> FaultReader {
        FaultReader { data, pos: 0, budget, mode, id, intr_next: true, delivered: 0, max_reach: 0, faults: 0, intr: 0 }
    }
}

impl Read for FaultReader {
    fn read(&mut self, buf: &mut [u8]) -> io::Result<usize> {
        if buf.is_empty() {
            return Ok(0);
        }
        self.max_reach = self.max_reach.max(self.pos.saturating_add(buf.len()));
        if self.mode == RMode::Intr {
            if self.intr_next {
                self.intr_next = false;
                self.intr += 1;
                return Err(io::Error::new(io::ErrorKind::Interrupted, "epmc interrupted"));
            }
            self.intr_next = true;
        }
        if self.pos >= self.budget {
            self.faults += 1;
            return match self.mode {
                RMode::Eof => Ok(0),
                _ => Err(injected(self.id)),
            };
        }
        if self.pos >= self.data.len() {
            return Ok(0);
        }
        let chunk = match self.mode {
            RMode::Short1 => 1,
            RMode::Short3 => 3,
            _ => usize::MAX,
        };
        let end = self.budget.min(self.data.len());
        let n = buf.len().min(end - self.pos).min(chunk);
        buf[..n].copy_from_slice(&self.data[self.pos..self.pos + n]);
        self.pos += n;
        self.delivered += n;
        Ok(n)
    }
}

impl Seek for FaultReader {
    fn seek(&mut self, s: SeekFrom) -> io::Result<u64> {
        let np: i128 = match s {
            SeekFrom::Start(n) => n as i128,
            SeekFrom::Current(n) => self.pos as i128 + n as i128,
            SeekFrom::End(n) => self.data.len() as i128 + n as i128,
        };
        if np < 0 {
            return Err(io::Error::new(io::ErrorKind::InvalidInput, "seek before start"));
        }
        self.pos = np as usize;
        Ok(self.pos as u64)
    }
}

// ---------------------------------------------------------------------------------------------
// uniform error view

pub enum Fault {
    Io(io::Error),
    Len(LenError),
    Other(String),
}

impl Fault {
    fn text(&self) -> String {
        match self {
            Fault::Io(e) => format!("Io(kind {:?}, \"{}\")", e.kind(), e),
            Fault::Len(e) => format!("Len({:?})", e),
            Fault::Other(s) => format!("Other({})", truncate(s, 300)),
        }
    }
}

trait IntoFault {
    fn into_fault(self) -> Fault;
}
impl IntoFault for io::Error {
    fn into_fault(self) -> Fault {
        Fault::Io(self)
    }
}
macro_rules! into_fault {
    ($t:path, [$($io:ident),*], [$($len:ident),*]) => {
        impl IntoFault for $t {
            #[allow(unreachable_patterns)]
            fn into_fault(self) -> Fault {
                use $t as E;
                match self {
                    $(E::$io(e) => Fault::Io(e),)*
                    $(E::$len(e) => Fault::Len(e),)*
                    other => Fault::Other(format!("{:?}", other)),
                }
            }
        }
    };
}
into_fault!(etherparse::err::ReadError, [Io], [Len]);
into_fault!(etherparse::err::io::LimitedReadError, [Io], [Len]);
into_fault!(etherparse::err::ip::HeaderReadError, [Io], [Len]);
into_fault!(etherparse::err::ip::HeadersWriteError, [Io], []);
into_fault!(etherparse::err::ipv4_exts::HeaderWriteError, [Io], []);
into_fault!(etherparse::err::ipv6_exts::HeaderWriteError, [Io], []);
into_fault!(etherparse::err::ipv6_exts::HeaderReadError, [Io], []);
into_fault!(etherparse::err::ipv6_exts::HeaderLimitedReadError, [Io], [Len]);
into_fault!(etherparse::err::ip_auth::HeaderReadError, [Io], []);
into_fault!(etherparse::err::ip_auth::HeaderLimitedReadError, [Io], [Len]);
into_fault!(etherparse::err::macsec::HeaderReadError, [Io], []);
into_fault!(etherparse::err::ipv4::HeaderReadError, [Io], []);
into_fault!(etherparse::err::ipv6::HeaderReadError, [Io], []);
into_fault!(etherparse::err::tcp::HeaderReadError, [Io], []);
into_fault!(etherparse::err::linux_sll::HeaderReadError, [Io], []);
into_fault!(etherparse::err::packet::BuildWriteError, [Io], []);

fn f<E: IntoFault>(e: E) -> Fault {
    e.into_fault()
}

/// result of a read closure: outer = the API's own result, inner = comparison with the original value
type RdRes = Result<Result<(), String>, Fault>;

fn cmp<T: PartialEq + std::fmt::Debug>(got: &T, want: &T) -> Result<(), String> {
    if got == want {
        Ok(())
    } else {
        Err(format!("got {} want {}", truncate(&format!("{:?}", got), 400), truncate(&format!("{:?}", want), 400)))
    }
}

pub struct SOk {
    /// bytes the API says it has written
    written: usize,
    /// problem with the returned "rest" slice, if the API returns one
    rest_problem: Option<String>,
}
pub enum SErr {
    Space { required_len: usize, len: usize, layer: Layer, offset: usize },
    BSpace(usize),
    Other(String),
}

type WFn = Box<dyn Fn(&mut FaultWriter) -> Result<(), Fault>>;
type SFn = Box<dyn Fn(&mut [u8]) -> Result<SOk, SErr>>;
type RFn = Box<dyn Fn(&mut FaultReader) -> RdRes>;
type LFn = Box<dyn Fn(&mut LimitedReader<&mut FaultReader>) -> RdRes>;
type CFn = Box<dyn Fn(&[u8]) -> Result<(), (String, String)>>;

struct WriteApi {
    at: &'static str,
    f: WFn,
}
struct SliceApi {
    at: &'static str,
    /// index of the write API whose unbounded output is the complete encoding
    src: usize,
    /// `SliceWriteSpaceError` layer expected from a header API
    layer: Option<Layer>,
    builder: bool,
    f: SFn,
}
struct ReadApi {
    at: &'static str,
    src: usize,
    /// skips with `Seek` instead of reading everything
    seeks: bool,
    f: RFn,
}
struct LimApi {
    at: &'static str,
    src: usize,
    /// encoded length of every layer (`start_layer` call) in reading order
    layers: Vec<usize>,
    f: LFn,
}
/// an API that derives a `LimitedReader` budget from a length field of the value itself
struct FieldLim {
    at: &'static str,
    field: &'static str,
    /// bytes read before the limited area starts
    fixed: usize,
    /// field value that corresponds to a budget of 0
    t_base: usize,
    layers: Vec<usize>,
    /// field value -> (complete encoding of the value with that field value, read-and-compare closure)
    make: Box<dyn Fn(usize) -> (Vec<u8>, RFn)>,
}
/// differential side checks (write_to_vec, size()) against the complete encoding
struct SideCheck {
    at: &'static str,
    src: usize,
    f: CFn,
}

pub struct Subject {
    ty: &'static str,
    label: String,
    value: String,
    writes: Vec<WriteApi>,
    slices: Vec<SliceApi>,
    reads: Vec<ReadApi>,
    lims: Vec<LimApi>,
    flims: Vec<FieldLim>,
    sides: Vec<SideCheck>,
}

impl Subject {
    fn new(ty: &'static str, label: impl Into<String>, value: String) -> Subject {
        Subject { ty, label: label.into(), value: truncate(&value, 360), writes: vec![], slices: vec![], reads: vec![], lims: vec![], flims: vec![], sides: vec![] }
    }
    fn w(&mut self, at: &'static str, f: impl Fn(&mut FaultWriter) -> Result<(), Fault> + 'static) -> usize {
        self.writes.push(WriteApi { at, f: Box::new(f) });
        self.writes.len() - 1
    }
    fn s(&mut self, at: &'static str, src: usize, layer: Option<Layer>, builder: bool, f: impl Fn(&mut [u8]) -> Result<SOk, SErr> + 'static) {
        self.slices.push(SliceApi { at, src, layer, builder, f: Box::new(f) });
    }
    fn r(&mut self, at: &'static str, src: usize, f: impl Fn(&mut FaultReader) -> RdRes + 'static) {
        self.reads.push(ReadApi { at, src, seeks: false, f: Box::new(f) });
    }
    fn r_seek(&mut self, at: &'static str, src: usize, f: impl Fn(&mut FaultReader) -> RdRes + 'static) {
        self.reads.push(ReadApi { at, src, seeks: true, f: Box::new(f) });
    }
    fn l(&mut self, at: &'static str, src: usize, layers: Vec<usize>, f: impl Fn(&mut LimitedReader<&mut FaultReader>) -> RdRes + 'static) {
        self.lims.push(LimApi { at, src, layers, f: Box::new(f) });
    }
    fn name(&self) -> String {
        format!("{}[{}]", self.ty, self.label)
    }
}

/// the complete encoding: what the API writes into an unbounded writer
fn reference(api: &WriteApi) -> Result<Vec<u8>, String> {
    let mut w = FaultWriter::new(usize::MAX, WMode::Whole, 0);
    match guarded(|| (api.f)(&mut w)) {
        Err(p) => Err(format!("panicked: {}", p)),
        Ok(Err(e)) => Err(format!("returned {}", e.text())),
        Ok(Ok(())) => Ok(w.got),
    }
}

fn short_hex(b: &[u8]) -> String {
    if b.len() <= 96 {
        hex(b)
    } else {
        format!("{}..({} bytes)", hex(&b[..96]), b.len())
    }
}

fn first_diff(a: &[u8], b: &[u8]) -> String {
    let n = a.len().min(b.len());
    match (0..n).find(|i| a[*i] != b[*i]) {
        Some(i) => format!("first difference at byte {}: {:#04x} vs {:#04x}", i, a[i], b[i]),
        None => format!("lengths {} vs {}", a.len(), b.len()),
    }
}

// ---------------------------------------------------------------------------------------------
// oracles

fn check_write(case: &mut Case, api: &WriteApi, full: &[u8], mode: WMode, k: usize, id: u64) {
    let len = full.len();
    let inside = k < len;
    let mut w = FaultWriter::new(k, mode, id);
    case.at(api.at);
    case.eval();
    let r = guarded(|| (api.f)(&mut w));
    let tag = format!("{}:{:?}", api.at, mode);
    match r {
        Err(p) => {
            case.fail(format!("w:panic:{}", tag), format!("{} panicked with the writer failing after {} of {} bytes: {}", api.at, k, len, p));
            return;
        }
        Ok(Ok(())) => {
            if inside {
                case.fail(format!("w:ok-on-fault:{}", tag), format!("{} returned Ok although the writer failed after {} of {} bytes (writer reported {} fault(s), received {} bytes)", api.at, k, len, w.faults, w.got.len()));
            } else {
                case.reach("w-ok");
                if mode == WMode::Intr && w.intr > 0 {
                    case.reach("interrupted-retried");
                }
                if w.got != full {
                    case.fail(format!("w:success-bytes-differ:{}", tag), format!("{} returned Ok with a budget of {} >= {} but the writer received {} bytes; {}", api.at, k, len, w.got.len(), first_diff(&w.got, full)));
                }
            }
        }
        Ok(Err(Fault::Io(e))) => {
            if !inside {
                case.fail(format!("w:err-without-fault:{}", tag), format!("{} returned {} although the writer accepts {} >= {} bytes", api.at, Fault::Io(e).text(), k, len));
            } else {
                let same = match mode {
                    WMode::Zero => e.kind() == io::ErrorKind::WriteZero,
                    _ => is_injected(&e, id),
                };
                if same {
                    case.reach("w-err");
                    if mode == WMode::Intr && w.intr > 0 {
                        case.reach("interrupted-retried");
                    }
                } else {
                    case.fail(format!("w:other-io-error:{}", tag), format!("{} with the writer failing after {} of {} bytes returned {} instead of the writer's own error #{}", api.at, k, len, Fault::Io(e).text(), id));
                }
            }
        }
        Ok(Err(other)) => {
            case.fail(format!("w:wrong-error-class:{}", tag), format!("{} with the writer failing after {} of {} bytes returned {} (expected {})", api.at, k, len, other.text(), if inside { "the I/O error" } else { "Ok" }));
        }
    }
    // whatever was written before (and, for a transient fault, after) the fault is a prefix of the complete encoding
    let want = &full[..k.min(len)];
    if !full.starts_with(&w.got) {
        case.fail(format!("w:not-a-prefix:{}", tag), format!("{} with the writer failing after {} of {} bytes: received {} which is not a prefix of the complete encoding {}; {}", api.at, k, len, short_hex(&w.got), short_hex(full), first_diff(&w.got, full)));
    } else if w.got.len() > want.len() {
        case.fail(format!("w:wrote-after-fault:{}", tag), format!("{}: the writer failed after {} of {} bytes but received {} bytes in total", api.at, k, len, w.got.len()));
    }
    case.outcome(format!("w:{}:{}", tag, if inside { "fault" } else { "fits" }));
}

const CANARY: usize = 16;
const CANARY_BYTE: u8 = 0xC7;

fn check_slice(case: &mut Case, arena: &mem::Arena, api: &SliceApi, full: &[u8], l: usize) {
    let len = full.len();
    let fill: u8 = if l % 2 == 0 { 0xA5 } else { 0x5A };
    let region = arena.out_end(CANARY + l, fill);
    region[..CANARY].fill(CANARY_BYTE);
    case.at(api.at);
    case.eval();
    let r = {
        let out = &mut region[CANARY..];
        guarded(|| (api.f)(out))
    };
    let out = &region[CANARY..];
    let tag = api.at;
    let mut is_err = false;
    match r {
        Err(p) => {
            case.fail(format!("s:panic:{}", tag), format!("{} panicked for a slice of {} bytes ({} needed): {}", api.at, l, len, p));
            return;
        }
        Ok(Ok(ok)) => {
            if l < len {
                case.fail(format!("s:ok-on-short-slice:{}", tag), format!("{} returned Ok({}) for a slice of {} bytes although the encoding has {} bytes", api.at, ok.written, l, len));
            } else {
                case.reach("s-ok");
                if ok.written != len {
                    case.fail(format!("s:written-count:{}", tag), format!("{} reports {} bytes written into a slice of {} bytes, the encoding has {} bytes", api.at, ok.written, l, len));
                }
                if let Some(p) = ok.rest_problem {
                    case.fail(format!("s:rest-slice:{}", tag), format!("{} with a slice of {} bytes: {}", api.at, l, p));
                }
                if out[..len] != *full {
                    case.fail(format!("s:success-bytes-differ:{}", tag), format!("{} into a slice of {} bytes wrote {} instead of {}; {}", api.at, l, short_hex(&out[..len]), short_hex(full), first_diff(&out[..len], full)));
                }
                if let Some(i) = (len..l).find(|i| out[*i] != fill) {
                    case.fail(format!("s:wrote-beyond-encoding:{}", tag), format!("{} into a slice of {} bytes changed byte {} (encoding has only {} bytes)", api.at, l, i, len));
                }
            }
        }
        Ok(Err(e)) => {
            is_err = true;
            if l >= len {
                let t = match &e {
                    SErr::Space { required_len, len, layer, offset } => format!("SliceWriteSpaceError{{required_len:{},len:{},layer:{:?},layer_start_offset:{}}}", required_len, len, layer, offset),
                    SErr::BSpace(n) => format!("Space({})", n),
                    SErr::Other(s) => s.clone(),
                };
                case.fail(format!("s:err-although-it-fits:{}", tag), format!("{} returned {} for a slice of {} bytes, the encoding needs {}", api.at, t, l, len));
            } else {
                match e {
                    SErr::Space { required_len, len: elen, layer, offset } => {
                        case.reach("s-err");
                        if required_len != len {
                            case.fail(format!("s:required-len-wrong:{}", tag), format!("{} with a slice of {} bytes reports required_len {} but {} bytes are really required", api.at, l, required_len, len));
                        }
                        if elen != l || offset != 0 || Some(layer) != api.layer {
                            case.fail(format!("s:space-error-fields:{}", tag), format!("{} with a slice of {} bytes reports len {} layer {:?} layer_start_offset {} (expected len {} layer {:?} offset 0)", api.at, l, elen, layer, offset, l, api.layer));
                        }
                    }
                    SErr::BSpace(n) => {
                        case.reach("s-err");
                        if api.builder {
                            case.reach("builder-slice-err");
                        }
                        if n != len {
                            case.fail(format!("s:required-len-wrong:{}", tag), format!("{} with a slice of {} bytes reports Space({}) but {} bytes are really required", api.at, l, n, len));
                        }
                    }
                    SErr::Other(s) => {
                        case.fail(format!("s:wrong-error-class:{}", tag), format!("{} with a slice of {} bytes (needs {}) returned {}", api.at, l, len, truncate(&s, 300)));
                    }
                }
            }
        }
    }
    if is_err {
        // written part = prefix of the encoding, everything behind it untouched
        let j = (0..l.min(len)).find(|i| out[*i] != full[*i]).unwrap_or(l.min(len));
        if let Some(i) = (j..l).find(|i| out[*i] != fill) {
            case.fail(format!("s:partial-garbage:{}", tag), format!("{} failed for a slice of {} bytes and left {} in it: byte {} is neither the encoding's byte nor untouched (encoding {})", api.at, l, short_hex(out), i, short_hex(full)));
        }
    }
    if let Some(i) = (0..CANARY).find(|i| region[*i] != CANARY_BYTE) {
        case.fail(format!("s:canary-damaged:{}", tag), format!("{} with a slice of {} bytes changed the byte {} before the slice", api.at, l, CANARY - i));
    }
    case.outcome(format!("s:{}:{}", tag, if l < len { "short" } else { "fits" }));
}

/// bytes appended behind the encoding so that reading too much is observable
const PAD: usize = 16;

fn padded(enc: &[u8]) -> Rc<Vec<u8>> {
    let mut v = enc.to_vec();
    v.extend_from_slice(&[0xEE; PAD]);
    Rc::new(v)
}

fn check_read(case: &mut Case, at: &'static str, seeks: bool, fr: &RFn, data: &Rc<Vec<u8>>, len: usize, mode: RMode, k: usize, id: u64) {
    let inside = k < len;
    let mut r = FaultReader::new(data.clone(), k, mode, id);
    case.at(at);
    case.eval();
    let res = guarded(|| fr(&mut r));
    let tag = format!("{}:{:?}", at, mode);
    match res {
        Err(p) => {
            case.fail(format!("r:panic:{}", tag), format!("{} panicked with the reader failing after {} of {} bytes: {}", at, k, len, p));
            return;
        }
        Ok(Ok(c)) => {
            if inside {
                case.fail(format!("r:ok-on-fault:{}", tag), format!("{} returned Ok although the reader failed after {} of {} bytes (delivered {}, faults {})", at, k, len, r.delivered, r.faults));
            } else {
                case.reach("r-ok");
                if mode == RMode::Intr && r.intr > 0 {
                    case.reach("interrupted-retried");
                }
                if let Err(d) = c {
                    case.fail(format!("r:value-differs:{}", tag), format!("{} of the complete encoding ({} bytes): {}", at, len, d));
                }
                if r.pos != len || (!seeks && r.delivered != len) {
                    case.fail(format!("r:consumed-not-len:{}", tag), format!("{} succeeded but consumed {} bytes (delivered {}) of an encoding of {} bytes", at, r.pos, r.delivered, len));
                }
            }
        }
        Ok(Err(Fault::Io(e))) => {
            if !inside {
                case.fail(format!("r:err-without-fault:{}", tag), format!("{} returned {} although the reader delivers {} >= {} bytes", at, Fault::Io(e).text(), k, len));
            } else {
                let same = match mode {
                    RMode::Eof => e.kind() == io::ErrorKind::UnexpectedEof,
                    _ => is_injected(&e, id),
                };
                if same {
                    case.reach("r-err");
                    if mode == RMode::Intr && r.intr > 0 {
                        case.reach("interrupted-retried");
                    }
                } else {
                    case.fail(format!("r:other-io-error:{}", tag), format!("{} with the reader failing after {} of {} bytes returned {} instead of the reader's own error #{}", at, k, len, Fault::Io(e).text(), id));
                }
            }
        }
        Ok(Err(other)) => {
            case.fail(format!("r:wrong-error-class:{}", tag), format!("{} with the reader failing after {} of {} bytes returned {} (expected {})", at, k, len, other.text(), if inside { "the I/O error" } else { "Ok" }));
        }
    }
    case.outcome(format!("r:{}:{}", tag, if inside { "fault" } else { "fits" }));
}

const LIM_BASE: usize = 7;

/// layer (index, start, len) that contains offset `limit` = first layer that ends behind it
fn layer_at(layers: &[usize], limit: usize) -> Option<(usize, usize, usize)> {
    let mut start = 0;
    for (i, l) in layers.iter().enumerate() {
        if start + l > limit {
            return Some((i, start, *l));
        }
        start += l;
    }
    None
}

fn check_limited(case: &mut Case, api: &LimApi, data: &Rc<Vec<u8>>, len: usize, mode: RMode, limit: usize, k: usize, id: u64) {
    let io_inside = k < len;
    let lim_inside = limit < len;
    let mut fr = FaultReader::new(data.clone(), k, mode, id);
    case.at(api.at);
    case.eval();
    let res = guarded(|| {
        let mut lr = LimitedReader::new(&mut fr, limit, LenSource::Slice, LIM_BASE, Layer::Ipv6Header);
        (api.f)(&mut lr)
    });
    let tag = format!("{}:{:?}", api.at, mode);
    let ctxt = format!("limit {} / reader failing after {} / encoding {} bytes", limit, if k == usize::MAX { "never".to_string() } else { k.to_string() }, len);
    match res {
        Err(p) => {
            case.fail(format!("l:panic:{}", tag), format!("{} panicked ({}): {}", api.at, ctxt, p));
            return;
        }
        Ok(Ok(c)) => {
            if io_inside || lim_inside {
                case.fail(format!("l:ok-on-fault:{}", tag), format!("{} returned Ok ({}); underlying reader delivered {} bytes", api.at, ctxt, fr.delivered));
            } else {
                case.reach("limited-ok");
                if let Err(d) = c {
                    case.fail(format!("l:value-differs:{}", tag), format!("{} ({}): {}", api.at, ctxt, d));
                }
                if fr.delivered != len {
                    case.fail(format!("l:consumed-not-len:{}", tag), format!("{} succeeded ({}) but consumed {} bytes", api.at, ctxt, fr.delivered));
                }
            }
        }
        Ok(Err(Fault::Io(e))) => {
            if !io_inside {
                case.fail(format!("l:io-error-without-fault:{}", tag), format!("{} returned {} ({})", api.at, Fault::Io(e).text(), ctxt));
            } else if !is_injected(&e, id) {
                case.fail(format!("l:other-io-error:{}", tag), format!("{} returned {} instead of the reader's own error #{} ({})", api.at, Fault::Io(e).text(), id, ctxt));
            } else {
                case.reach("limited-io-err");
            }
        }
        Ok(Err(Fault::Len(e))) => {
            if !lim_inside {
                case.fail(format!("l:len-error-although-it-fits:{}", tag), format!("{} returned Len({:?}) ({})", api.at, e, ctxt));
            } else {
                case.reach("limited-err");
                if e.required_len <= e.len {
                    case.fail(format!("l:len-error-not-truthful:{}", tag), format!("{} ({}): Len error says required_len {} <= len {}", api.at, ctxt, e.required_len, e.len));
                }
                if !io_inside {
                    // the layer that crosses the limit is known: its remaining budget and its own length bound the fields
                    if let Some((li, start, llen)) = layer_at(&api.layers, limit) {
                        if e.len != limit - start || e.required_len > llen {
                            case.fail(
                                format!("l:len-error-fields:{}", tag),
                                format!("{} ({}): layer #{} starts at {} and has {} bytes, so its budget is {}; the error says required_len {} len {}", api.at, ctxt, li, start, llen, limit - start, e.required_len, e.len),
                            );
                        }
                    }
                } else if e.len > limit {
                    case.fail(format!("l:len-error-fields:{}", tag), format!("{} ({}): the error says len {} which exceeds the limit", api.at, ctxt, e.len));
                }
            }
        }
        Ok(Err(other)) => {
            case.fail(format!("l:wrong-error-class:{}", tag), format!("{} returned {} ({})", api.at, other.text(), ctxt));
        }
    }
    if fr.max_reach > limit || fr.delivered > limit {
        case.fail(
            format!("l:pulled-beyond-limit:{}", tag),
            format!("{} ({}): the underlying reader was asked for bytes up to offset {} and delivered {} bytes, the limit allows {}", api.at, ctxt, fr.max_reach, fr.delivered, limit),
        );
    }
    case.outcome(format!("l:{}:{}{}", tag, if lim_inside { "limit" } else { "" }, if io_inside { "io" } else { "" }));
}

fn check_field_limited(case: &mut Case, fl: &FieldLim, mode: RMode, t: usize) {
    let (enc, rf) = (fl.make)(t);
    let ext: usize = fl.layers.iter().sum();
    let len = enc.len();
    let data = padded(&enc);
    let mut fr = FaultReader::new(data, usize::MAX, mode, 0);
    case.at(fl.at);
    case.eval();
    let res = guarded(|| rf(&mut fr));
    let tag = format!("{}:{}:{:?}", fl.at, fl.field, mode);
    let ctxt = format!("{} = {}, {} bytes before the limited area, extension area {} bytes, encoding {}", fl.field, t, fl.fixed, ext, short_hex(&enc));
    if len != fl.fixed + ext {
        case.fail(format!("fl:harness-length:{}", tag), format!("encoding has {} bytes, expected {} + {} ({})", len, fl.fixed, ext, ctxt));
        return;
    }
    let budget = t.checked_sub(fl.t_base);
    let allowed = fl.fixed + budget.unwrap_or(0);
    let must_fail = match budget {
        None => true,
        Some(b) => b < ext,
    };
    match res {
        Err(p) => {
            case.fail(format!("fl:panic:{}", tag), format!("{} panicked ({}): {}", fl.at, ctxt, p));
            return;
        }
        Ok(Ok(c)) => {
            if must_fail {
                case.fail(format!("fl:ok-beyond-length-field:{}", tag), format!("{} returned Ok although the length field does not cover the headers ({}); reader delivered {} bytes", fl.at, ctxt, fr.delivered));
            } else {
                case.reach("field-limited-ok");
                if let Err(d) = c {
                    case.fail(format!("fl:value-differs:{}", tag), format!("{} ({}): {}", fl.at, ctxt, d));
                }
                if fr.delivered != len {
                    case.fail(format!("fl:consumed-not-len:{}", tag), format!("{} ({}) consumed {} bytes", fl.at, ctxt, fr.delivered));
                }
            }
        }
        Ok(Err(Fault::Len(e))) => {
            if !must_fail {
                case.fail(format!("fl:len-error-although-it-fits:{}", tag), format!("{} returned Len({:?}) ({})", fl.at, e, ctxt));
            } else {
                case.reach("limited-err");
                case.reach("field-limited-err");
                if e.required_len <= e.len {
                    case.fail(format!("fl:len-error-not-truthful:{}", tag), format!("{} ({}): Len error says required_len {} <= len {}", fl.at, ctxt, e.required_len, e.len));
                }
                if let Some(b) = budget {
                    if let Some((li, start, llen)) = layer_at(&fl.layers, b) {
                        if e.len != b - start || e.required_len > llen {
                            case.fail(
                                format!("fl:len-error-fields:{}", tag),
                                format!("{} ({}): layer #{} starts at {} and has {} bytes, its budget is {}; the error says required_len {} len {}", fl.at, ctxt, li, start, llen, b - start, e.required_len, e.len),
                            );
                        }
                    }
                }
            }
        }
        Ok(Err(other)) => {
            case.fail(format!("fl:wrong-error-class:{}", tag), format!("{} returned {} ({})", fl.at, other.text(), ctxt));
        }
    }
    if fr.max_reach > allowed.max(fl.fixed) {
        case.fail(
            format!("fl:pulled-beyond-limit:{}", tag),
            format!("{} ({}): the reader was asked for bytes up to offset {}, the length field allows {}", fl.at, ctxt, fr.max_reach, allowed.max(fl.fixed)),
        );
    }
    case.outcome(format!("fl:{}:{}", tag, if must_fail { "short" } else { "fits" }));
}

// ---------------------------------------------------------------------------------------------
// values

/// deterministic non-constant byte pattern (a misplaced or repeated block is visible)
fn pat(n: usize, seed: u8) -> Vec<u8> {
    (0..n).map(|i| (i as u8).wrapping_mul(7).wrapping_add(seed)).collect()
}

const UDP: IpNumber = IpNumber(17);
const AUTH: IpNumber = IpNumber(51);
const HOP: IpNumber = IpNumber(0);
const DEST: IpNumber = IpNumber(60);
const ROUTE: IpNumber = IpNumber(43);
const FRAG: IpNumber = IpNumber(44);

fn s_eth(label: &str, v: Ethernet2Header) -> Subject {
    let mut s = Subject::new("Ethernet2Header", label, format!("{:?}", v));
    let a = v.clone();
    let w0 = s.w("Ethernet2Header::write", move |w| a.write(w).map_err(f));
    let a = v.clone();
    s.w("LinkHeader::write", move |w| LinkHeader::Ethernet2(a.clone()).write(w).map_err(f));
    let a = v.clone();
    s.s("Ethernet2Header::write_to_slice", w0, Some(Layer::Ethernet2Header), false, move |out| {
        let (p, l) = (out.as_ptr() as usize, out.len());
        match a.write_to_slice(out) {
            Ok(rest) => {
                let written = l.wrapping_sub(rest.len());
                let ok = rest.len() <= l && rest.as_ptr() as usize == p + written;
                Ok(SOk { written, rest_problem: if ok { None } else { Some(format!("returned rest slice (len {}) does not start right behind the written bytes", rest.len())) } })
            }
            Err(e) => Err(SErr::Space { required_len: e.required_len, len: e.len, layer: e.layer, offset: e.layer_start_offset }),
        }
    });
    let a = v.clone();
    s.r("Ethernet2Header::read", w0, move |r| Ok(cmp(&Ethernet2Header::read(r).map_err(f)?, &a)));
    s
}

fn s_sll(label: &str, v: LinuxSllHeader) -> Subject {
    let mut s = Subject::new("LinuxSllHeader", label, format!("{:?}", v));
    let a = v.clone();
    let w0 = s.w("LinuxSllHeader::write", move |w| a.write(w).map_err(f));
    let a = v.clone();
    s.w("LinkHeader::write", move |w| LinkHeader::LinuxSll(a.clone()).write(w).map_err(f));
    let a = v.clone();
    s.s("LinuxSllHeader::write_to_slice", w0, Some(Layer::LinuxSllHeader), false, move |out| {
        let (p, l) = (out.as_ptr() as usize, out.len());
        match a.write_to_slice(out) {
            Ok(rest) => {
                let written = l.wrapping_sub(rest.len());
                let ok = rest.len() <= l && rest.as_ptr() as usize == p + written;
                Ok(SOk { written, rest_problem: if ok { None } else { Some(format!("returned rest slice (len {}) does not start right behind the written bytes", rest.len())) } })
            }
            Err(e) => Err(SErr::Space { required_len: e.required_len, len: e.len, layer: e.layer, offset: e.layer_start_offset }),
        }
    });
    let a = v.clone();
    s.r("LinuxSllHeader::read", w0, move |r| Ok(cmp(&LinuxSllHeader::read(r).map_err(f)?, &a)));
    s
}

fn sll_val(pt: LinuxSllPacketType, hrd: ArpHardwareId, alen: u16, addr: [u8; 8], proto: u16) -> LinuxSllHeader {
    LinuxSllHeader { packet_type: pt, arp_hrd_type: hrd, sender_address_valid_length: alen, sender_address: addr, protocol_type: LinuxSllProtocolType::try_from((hrd, proto)).unwrap() }
}

fn s_vlan(label: &str, v: SingleVlanHeader) -> Subject {
    let mut s = Subject::new("SingleVlanHeader", label, format!("{:?}", v));
    let a = v.clone();
    let w0 = s.w("SingleVlanHeader::write", move |w| a.write(w).map_err(f));
    let a = v.clone();
    s.r("SingleVlanHeader::read", w0, move |r| Ok(cmp(&SingleVlanHeader::read(r).map_err(f)?, &a)));
    s
}

fn vlan_val(pcp: u8, dei: bool, vid: u16, et: u16) -> SingleVlanHeader {
    SingleVlanHeader { pcp: VlanPcp::try_new(pcp).unwrap(), drop_eligible_indicator: dei, vlan_id: VlanId::try_new(vid).unwrap(), ether_type: EtherType(et) }
}

fn s_macsec(label: &str, v: MacsecHeader) -> Subject {
    let mut s = Subject::new("MacsecHeader", label, format!("{:?}", v));
    let a = v.clone();
    let w0 = s.w("MacsecHeader::write", move |w| a.write(w).map_err(f));
    let a = v.clone();
    s.r("MacsecHeader::read", w0, move |r| Ok(cmp(&MacsecHeader::read(r).map_err(f)?, &a)));
    s
}

fn macsec_val(ptype: MacsecPType, es: bool, scb: bool, an: u8, sl: u8, pn: u32, sci: Option<u64>) -> MacsecHeader {
    MacsecHeader { ptype, endstation_id: es, scb, an: MacsecAn::try_new(an).unwrap(), short_len: MacsecShortLen::try_from_u8(sl).unwrap(), packet_nr: pn, sci }
}

fn arp_val(hw: u16, proto: u16, op: u16, hlen: usize, plen: usize) -> ArpPacket {
    ArpPacket::new(ArpHardwareId(hw), EtherType(proto), ArpOperation(op), &pat(hlen, 0x11), &pat(plen, 0x22), &pat(hlen, 0x33), &pat(plen, 0x44)).unwrap()
}

fn s_arp(label: &str, v: ArpPacket) -> Subject {
    let mut s = Subject::new("ArpPacket", label, format!("{:?}", v));
    let a = v.clone();
    let w0 = s.w("ArpPacket::write", move |w| a.write(w).map_err(f));
    let a = v.clone();
    s.r("ArpPacket::read", w0, move |r| Ok(cmp(&ArpPacket::read(r).map_err(f)?, &a)));
    s
}

/// variant 0 = all-min, 1 = all-max, 2 = mixed
#[allow(deprecated)]
fn ipv4_val(variant: u8, opts: usize) -> Ipv4Header {
    let o = pat(opts, 0x51);
    let mut h = match variant {
        0 => Ipv4Header {
            dscp: IpDscp::try_new(0).unwrap(),
            ecn: IpEcn::try_new(0).unwrap(),
            total_len: 0,
            identification: 0,
            dont_fragment: false,
            more_fragments: false,
            fragment_offset: IpFragOffset::try_new(0).unwrap(),
            time_to_live: 0,
            protocol: IpNumber(0),
            header_checksum: 0,
            source: [0; 4],
            destination: [0; 4],
            options: Default::default(),
        },
        1 => Ipv4Header {
            dscp: IpDscp::try_new(63).unwrap(),
            ecn: IpEcn::try_new(3).unwrap(),
            total_len: 0xffff,
            identification: 0xffff,
            dont_fragment: true,
            more_fragments: true,
            fragment_offset: IpFragOffset::try_new(0x1fff).unwrap(),
            time_to_live: 0xff,
            protocol: IpNumber(0xff),
            header_checksum: 0xffff,
            source: [0xff; 4],
            destination: [0xff; 4],
            options: Default::default(),
        },
        _ => Ipv4Header {
            dscp: IpDscp::try_new(0x2e).unwrap(),
            ecn: IpEcn::try_new(1).unwrap(),
            total_len: 1500,
            identification: 0x1234,
            dont_fragment: true,
            more_fragments: false,
            fragment_offset: IpFragOffset::try_new(185).unwrap(),
            time_to_live: 64,
            protocol: UDP,
            header_checksum: 0xbeef,
            source: [192, 168, 1, 1],
            destination: [10, 0, 0, 254],
            options: Default::default(),
        },
    };
    if variant == 1 {
        h.set_options(&vec![0xff; opts]).unwrap();
    } else {
        h.set_options(&o).unwrap();
    }
    h
}

fn s_ipv4(label: &str, v: Ipv4Header) -> Subject {
    let mut s = Subject::new("Ipv4Header", label, format!("{:?}", v));
    let a = v.clone();
    let w0 = s.w("Ipv4Header::write", move |w| a.write(w).map_err(f));
    let a = v.clone();
    let w1 = s.w("Ipv4Header::write_raw", move |w| a.write_raw(w).map_err(f));
    let mut a = v.clone();
    a.header_checksum = a.calc_header_checksum();
    s.r("Ipv4Header::read", w0, move |r| Ok(cmp(&Ipv4Header::read(r).map_err(f)?, &a)));
    let a = v.clone();
    s.r("Ipv4Header::read", w1, move |r| Ok(cmp(&Ipv4Header::read(r).map_err(f)?, &a)));
    let a = v.clone();
    s.r("Ipv4Header::read_without_version", w1, move |r| {
        let mut b = [0u8; 1];
        r.read_exact(&mut b).map_err(f)?;
        Ok(cmp(&Ipv4Header::read_without_version(r, b[0]).map_err(f)?, &a))
    });
    s
}

fn ipv6_val(variant: u8) -> Ipv6Header {
    match variant {
        0 => Ipv6Header { traffic_class: 0, flow_label: Ipv6FlowLabel::try_new(0).unwrap(), payload_length: 0, next_header: IpNumber(59), hop_limit: 0, source: [0; 16], destination: [0; 16] },
        1 => Ipv6Header { traffic_class: 0xff, flow_label: Ipv6FlowLabel::try_new(0xfffff).unwrap(), payload_length: 0xffff, next_header: IpNumber(0xff), hop_limit: 0xff, source: [0xff; 16], destination: [0xff; 16] },
        _ => Ipv6Header {
            traffic_class: 0xb8,
            flow_label: Ipv6FlowLabel::try_new(0x12345).unwrap(),
            payload_length: 1280,
            next_header: UDP,
            hop_limit: 64,
            source: [0x20, 0x01, 0x0d, 0xb8, 0, 0, 0, 0, 0, 0, 0, 0, 0, 0, 0, 1],
            destination: [0xfe, 0x80, 0, 0, 0, 0, 0, 0, 1, 2, 3, 4, 5, 6, 7, 8],
        },
    }
}

fn s_ipv6(label: &str, v: Ipv6Header) -> Subject {
    let mut s = Subject::new("Ipv6Header", label, format!("{:?}", v));
    let a = v.clone();
    let w0 = s.w("Ipv6Header::write", move |w| a.write(w).map_err(f));
    let a = v.clone();
    s.r("Ipv6Header::read", w0, move |r| Ok(cmp(&Ipv6Header::read(r).map_err(f)?, &a)));
    let a = v.clone();
    s.r("Ipv6Header::read_without_version", w0, move |r| {
        let mut b = [0u8; 1];
        r.read_exact(&mut b).map_err(f)?;
        Ok(cmp(&Ipv6Header::read_without_version(r, b[0] & 0xf).map_err(f)?, &a))
    });
    s
}

fn auth_val(next: IpNumber, variant: u8, icv: usize) -> IpAuthHeader {
    let (spi, seq) = match variant {
        0 => (0, 0),
        1 => (u32::MAX, u32::MAX),
        _ => (0x0102_0304, 0x0a0b_0c0d),
    };
    let body = if variant == 1 { vec![0xff; icv] } else { pat(icv, 0x61) };
    IpAuthHeader::new(next, spi, seq, &body).unwrap()
}

fn s_auth(label: &str, v: IpAuthHeader) -> Subject {
    let mut s = Subject::new("IpAuthHeader", label, format!("{:?}", v));
    let a = v.clone();
    let w0 = s.w("IpAuthHeader::write", move |w| a.write(w).map_err(f));
    let a = v.clone();
    s.r("IpAuthHeader::read", w0, move |r| Ok(cmp(&IpAuthHeader::read(r).map_err(f)?, &a)));
    let nh = v.next_header;
    s.r_seek("Ipv6Header::skip_header_extension(auth)", w0, move |r| Ok(cmp(&Ipv6Header::skip_header_extension(r, AUTH).map_err(f)?, &nh)));
    let a = v.clone();
    let len = 12 + v.raw_icv().len();
    s.l("IpAuthHeader::read_limited", w0, vec![len], move |r| Ok(cmp(&IpAuthHeader::read_limited(r).map_err(f)?, &a)));
    s
}

fn raw_val(next: IpNumber, variant: u8, payload: usize, seed: u8) -> Ipv6RawExtHeader {
    let body = if variant == 1 { vec![0xff; payload] } else { pat(payload, seed) };
    Ipv6RawExtHeader::new_raw(next, &body).unwrap()
}

fn s_raw(label: &str, v: Ipv6RawExtHeader) -> Subject {
    let mut s = Subject::new("Ipv6RawExtHeader", label, format!("{:?}", v));
    let a = v.clone();
    let w0 = s.w("Ipv6RawExtHeader::write", move |w| a.write(w).map_err(f));
    let a = v.clone();
    s.r("Ipv6RawExtHeader::read", w0, move |r| Ok(cmp(&Ipv6RawExtHeader::read(r).map_err(f)?, &a)));
    let nh = v.next_header;
    for (name, first) in [("Ipv6Header::skip_header_extension(hop-by-hop)", IpNumber(0)), ("Ipv6Header::skip_header_extension(routing)", IpNumber(43)), ("Ipv6Header::skip_header_extension(dest options)", IpNumber(60))] {
        s.r_seek(name, w0, move |r| Ok(cmp(&Ipv6Header::skip_header_extension(r, first).map_err(f)?, &nh)));
    }
    let a = v.clone();
    let len = 2 + v.payload().len();
    s.l("Ipv6RawExtHeader::read_limited", w0, vec![len], move |r| Ok(cmp(&Ipv6RawExtHeader::read_limited(r).map_err(f)?, &a)));
    s
}

fn frag_val(next: IpNumber, variant: u8) -> Ipv6FragmentHeader {
    match variant {
        0 => Ipv6FragmentHeader::new(next, IpFragOffset::try_new(0).unwrap(), false, 0),
        1 => Ipv6FragmentHeader::new(next, IpFragOffset::try_new(0x1fff).unwrap(), true, u32::MAX),
        _ => Ipv6FragmentHeader::new(next, IpFragOffset::try_new(185).unwrap(), true, 0xdead_beef),
    }
}

fn s_frag(label: &str, v: Ipv6FragmentHeader) -> Subject {
    let mut s = Subject::new("Ipv6FragmentHeader", label, format!("{:?}", v));
    let a = v.clone();
    let w0 = s.w("Ipv6FragmentHeader::write", move |w| a.write(w).map_err(f));
    let a = v.clone();
    s.r("Ipv6FragmentHeader::read", w0, move |r| Ok(cmp(&Ipv6FragmentHeader::read(r).map_err(f)?, &a)));
    let nh = v.next_header;
    s.r_seek("Ipv6Header::skip_header_extension(fragment)", w0, move |r| Ok(cmp(&Ipv6Header::skip_header_extension(r, IpNumber(44)).map_err(f)?, &nh)));
    let a = v.clone();
    s.l("Ipv6FragmentHeader::read_limited", w0, vec![8], move |r| Ok(cmp(&Ipv6FragmentHeader::read_limited(r).map_err(f)?, &a)));
    s
}

fn s_ipv4_exts(label: &str, v: Ipv4Extensions) -> Subject {
    let mut s = Subject::new("Ipv4Extensions", label, format!("{:?}", v));
    let (start, next, layers) = match &v.auth {
        Some(a) => (AUTH, a.next_header, vec![12 + a.raw_icv().len()]),
        None => (UDP, UDP, vec![]),
    };
    let a = v.clone();
    let w0 = s.w("Ipv4Extensions::write", move |w| a.write(w, start).map_err(f));
    let a = v.clone();
    s.r("Ipv4Extensions::read", w0, move |r| Ok(cmp(&Ipv4Extensions::read(r, start).map_err(f)?, &(a.clone(), next))));
    let a = v.clone();
    s.l("Ipv4Extensions::read_limited", w0, layers, move |r| Ok(cmp(&Ipv4Extensions::read_limited(r, start).map_err(f)?, &(a.clone(), next))));
    s
}

/// extension header size profile: 0 = minimal, 1 = mixed, 2 = maximal
/// mask bits: 0 hop-by-hop, 1 destination options, 2 routing, 3 final destination options (needs 2), 4 fragment, 5 auth
fn exts_val(mask: u8, prof: u8, last: IpNumber) -> (Ipv6Extensions, IpNumber, Vec<usize>) {
    let raw_len = |which: usize| -> usize {
        match prof {
            0 => 6,
            1 => [14, 6, 22, 14][which],
            _ => 2046,
        }
    };
    let icv = match prof {
        0 => 0,
        1 => 12,
        _ => 1016,
    };
    let variant = if prof == 2 { 1 } else { 2 };
    let mut e = Ipv6Extensions::default();
    if mask & 1 != 0 {
        e.hop_by_hop_options = Some(raw_val(last, variant, raw_len(0), 0x71));
    }
    if mask & 2 != 0 {
        e.destination_options = Some(raw_val(last, variant, raw_len(1), 0x72));
    }
    if mask & 4 != 0 {
        e.routing = Some(Ipv6RoutingExtensions { routing: raw_val(last, variant, raw_len(2), 0x73), final_destination_options: if mask & 8 != 0 { Some(raw_val(last, variant, raw_len(3), 0x74)) } else { None } });
    }
    if mask & 16 != 0 {
        e.fragment = Some(frag_val(last, variant));
    }
    if mask & 32 != 0 {
        e.auth = Some(auth_val(last, variant, icv));
    }
    let first = e.set_next_headers(last);
    // layer lengths in the order the headers are written / read (RFC 8200 order)
    let mut layers = vec![];
    if mask & 1 != 0 {
        layers.push(2 + raw_len(0));
    }
    if mask & 2 != 0 {
        layers.push(2 + raw_len(1));
    }
    if mask & 4 != 0 {
        layers.push(2 + raw_len(2));
    }
    if mask & 16 != 0 {
        layers.push(8);
    }
    if mask & 32 != 0 {
        layers.push(12 + icv);
    }
    if mask & 4 != 0 && mask & 8 != 0 {
        layers.push(2 + raw_len(3));
    }
    (e, first, layers)
}

fn ext_mask_valid(mask: u8) -> bool {
    mask < 64 && !(mask & 8 != 0 && mask & 4 == 0)
}

fn mask_label(mask: u8, prof: u8) -> String {
    let names = ["hop", "dest", "route", "finaldest", "frag", "auth"];
    let mut v: Vec<&str> = (0..6).filter(|b| mask & (1 << b) != 0).map(|b| names[b]).collect();
    if v.is_empty() {
        v.push("none");
    }
    format!("{} sizes={}", v.join("+"), ["min", "mixed", "max"][prof as usize])
}

fn s_ipv6_exts(mask: u8, prof: u8) -> Subject {
    let (v, first, layers) = exts_val(mask, prof, UDP);
    let mut s = Subject::new("Ipv6Extensions", mask_label(mask, prof), format!("first={:?} {:?}", first, v));
    let a = v.clone();
    let w0 = s.w("Ipv6Extensions::write", move |w| a.write(w, first).map_err(f));
    let a = v.clone();
    s.r("Ipv6Extensions::read", w0, move |r| Ok(cmp(&Ipv6Extensions::read(r, first).map_err(f)?, &(a.clone(), UDP))));
    s.r_seek("Ipv6Header::skip_all_header_extensions", w0, move |r| Ok(cmp(&Ipv6Header::skip_all_header_extensions(r, first).map_err(f)?, &UDP)));
    let a = v.clone();
    s.l("Ipv6Extensions::read_limited", w0, layers, move |r| Ok(cmp(&Ipv6Extensions::read_limited(r, first).map_err(f)?, &(a.clone(), UDP))));
    s
}

fn ip_headers_subject(label: String, v: IpHeaders, ext_layers: Vec<usize>) -> Subject {
    let mut s = Subject::new("IpHeaders", label, format!("{:?}", v));
    let a = v.clone();
    let w0 = s.w("IpHeaders::write", move |w| a.write(w).map_err(f));
    // what reading the encoding must give back (IPv4: write() fills in the header checksum)
    let expect = |v: &IpHeaders| -> (IpHeaders, IpNumber) {
        match v.clone() {
            IpHeaders::Ipv4(mut h, e) => {
                h.header_checksum = h.calc_header_checksum();
                let next = e.auth.as_ref().map(|a| a.next_header).unwrap_or(h.protocol);
                (IpHeaders::Ipv4(h, e), next)
            }
            IpHeaders::Ipv6(h, e) => (IpHeaders::Ipv6(h, e), UDP),
        }
    };
    let want = expect(&v);
    s.r("IpHeaders::read", w0, move |r| Ok(cmp(&IpHeaders::read(r).map_err(f)?, &want)));
    // the length field of the IP header as a limit
    let base = v.clone();
    match &v {
        IpHeaders::Ipv4(h, _) => {
            let hl = 20 + h.options.len();
            s.flims.push(FieldLim {
                at: "IpHeaders::read",
                field: "Ipv4Header.total_len",
                fixed: hl,
                t_base: hl,
                layers: ext_layers,
                make: Box::new(move |t| {
                    let mut x = base.clone();
                    if let IpHeaders::Ipv4(h, _) = &mut x {
                        h.total_len = t as u16;
                    }
                    let mut w = FaultWriter::new(usize::MAX, WMode::Whole, 0);
                    let _ = x.write(&mut w);
                    let want = expect(&x);
                    (w.got, Box::new(move |r: &mut FaultReader| Ok(cmp(&IpHeaders::read(r).map_err(f)?, &want))) as RFn)
                }),
            });
        }
        IpHeaders::Ipv6(_, _) => {
            s.flims.push(FieldLim {
                at: "IpHeaders::read",
                field: "Ipv6Header.payload_length",
                fixed: 40,
                t_base: 0,
                layers: ext_layers,
                make: Box::new(move |t| {
                    let mut x = base.clone();
                    if let IpHeaders::Ipv6(h, _) = &mut x {
                        h.payload_length = t as u16;
                    }
                    let mut w = FaultWriter::new(usize::MAX, WMode::Whole, 0);
                    let _ = x.write(&mut w);
                    let want = expect(&x);
                    (w.got, Box::new(move |r: &mut FaultReader| Ok(cmp(&IpHeaders::read(r).map_err(f)?, &want))) as RFn)
                }),
            });
        }
    }
    s
}

/// IPv4 with `opts` option bytes and an optional authentication header with `icv` ICV bytes
fn s_ip_headers_v4(variant: u8, opts: usize, icv: Option<usize>) -> Subject {
    let mut h = ipv4_val(variant, opts);
    let mut e = Ipv4Extensions::default();
    let mut layers = vec![];
    if let Some(n) = icv {
        e.auth = Some(auth_val(UDP, variant, n));
        h.protocol = AUTH;
        layers.push(12 + n);
    } else {
        h.protocol = UDP;
    }
    let total = 20 + opts + layers.iter().sum::<usize>();
    h.total_len = if variant == 1 { 0xffff } else { total as u16 };
    let label = format!("ipv4 {} options={} auth={}", ["min", "max", "mixed"][variant as usize], opts, icv.map(|n| format!("icv{}", n)).unwrap_or("none".into()));
    ip_headers_subject(label, IpHeaders::Ipv4(h, e), layers)
}

fn s_ip_headers_v6(variant: u8, mask: u8, prof: u8) -> Subject {
    let (e, first, layers) = exts_val(mask, prof, UDP);
    let mut h = ipv6_val(variant);
    h.next_header = first;
    let ext: usize = layers.iter().sum();
    h.payload_length = if variant == 1 { 0xffff } else { ext as u16 };
    let label = format!("ipv6 {} exts={}", ["min", "max", "mixed"][variant as usize], mask_label(mask, prof));
    ip_headers_subject(label, IpHeaders::Ipv6(h, e), layers)
}

fn s_udp(label: &str, v: UdpHeader) -> Subject {
    let mut s = Subject::new("UdpHeader", label, format!("{:?}", v));
    let a = v.clone();
    let w0 = s.w("UdpHeader::write", move |w| a.write(w).map_err(f));
    let a = v.clone();
    s.w("TransportHeader::write", move |w| TransportHeader::Udp(a.clone()).write(w).map_err(f));
    let a = v.clone();
    s.r("UdpHeader::read", w0, move |r| Ok(cmp(&UdpHeader::read(r).map_err(f)?, &a)));
    s
}

fn tcp_val(variant: u8, opts: usize) -> TcpHeader {
    let mut h = match variant {
        0 => TcpHeader::new(0, 0, 0, 0),
        1 => {
            let mut h = TcpHeader::new(0xffff, 0xffff, u32::MAX, 0xffff);
            h.acknowledgment_number = u32::MAX;
            h.ns = true;
            h.fin = true;
            h.syn = true;
            h.rst = true;
            h.psh = true;
            h.ack = true;
            h.urg = true;
            h.ece = true;
            h.cwr = true;
            h.checksum = 0xffff;
            h.urgent_pointer = 0xffff;
            h
        }
        _ => {
            let mut h = TcpHeader::new(443, 51234, 0x0102_0304, 8192);
            h.acknowledgment_number = 0x0a0b_0c0d;
            h.ack = true;
            h.psh = true;
            h.checksum = 0x1234;
            h
        }
    };
    let o = if variant == 1 { vec![0xff; opts] } else { pat(opts, 0x81) };
    h.set_options_raw(&o).unwrap();
    h
}

fn s_tcp(label: &str, v: TcpHeader) -> Subject {
    let mut s = Subject::new("TcpHeader", label, format!("{:?}", v));
    let a = v.clone();
    let w0 = s.w("TcpHeader::write", move |w| a.write(w).map_err(f));
    let a = v.clone();
    s.w("TransportHeader::write", move |w| TransportHeader::Tcp(a.clone()).write(w).map_err(f));
    let a = v.clone();
    s.r("TcpHeader::read", w0, move |r| Ok(cmp(&TcpHeader::read(r).map_err(f)?, &a)));
    s
}

fn s_icmp4(label: &str, v: Icmpv4Header) -> Subject {
    let mut s = Subject::new("Icmpv4Header", label, format!("{:?}", v));
    let a = v.clone();
    let w0 = s.w("Icmpv4Header::write", move |w| a.write(w).map_err(f));
    let a = v.clone();
    s.w("TransportHeader::write", move |w| TransportHeader::Icmpv4(a.clone()).write(w).map_err(f));
    let a = v.clone();
    s.r("Icmpv4Header::read", w0, move |r| Ok(cmp(&Icmpv4Header::read(r).map_err(f)?, &a)));
    s
}

fn s_icmp6(label: &str, v: Icmpv6Header) -> Subject {
    let mut s = Subject::new("Icmpv6Header", label, format!("{:?}", v));
    let a = v.clone();
    let w0 = s.w("Icmpv6Header::write", move |w| a.write(w).map_err(f));
    let a = v.clone();
    s.w("TransportHeader::write", move |w| TransportHeader::Icmpv6(a.clone()).write(w).map_err(f));
    let a = v.clone();
    s.r("Icmpv6Header::read", w0, move |r| Ok(cmp(&Icmpv6Header::read(r).map_err(f)?, &a)));
    s
}

fn s_icmp6_payload(label: &str, v: icmpv6::Icmpv6Payload) -> Subject {
    let mut s = Subject::new("Icmpv6Payload", label, format!("{:?}", v));
    let a = v.clone();
    s.w("Icmpv6Payload::write", move |w| a.write(w).map_err(f));
    s
}

// ---- packet builder ---------------------------------------------------------------------------

#[derive(Clone, Copy, Debug)]
struct BCfg {
    /// 0 none, 1 ethernet2, 2 linux_sll
    link: u8,
    /// 0 none, 1 single, 2 double, 3 `vlan(VlanHeader::Double)` with all-max tags
    vlan: u8,
    /// 0 ipv4(), 1 ipv6(), 2 ip(IPv4 + options + auth), 3 ip(IPv6 + all six extension headers), 4 arp (eth/ipv4), 5 arp (255/255 addresses)
    net: u8,
    /// 0 udp, 1 tcp, 2 tcp + 40 option bytes, 3 icmpv4 echo request, 4 icmpv4 timestamp (20 byte header), 5 icmpv6 echo request, 6 no transport header (IpHeaders step)
    tr: u8,
    pay: usize,
}

impl BCfg {
    fn valid(&self) -> bool {
        let arp = self.net >= 4;
        if self.vlan != 0 && self.link != 1 {
            return false;
        }
        if arp && (self.link == 0 || self.tr != 0 || self.pay != 0) {
            return false;
        }
        // ICMPv6 inside IPv4 is a content error of the builder, not an I/O fault
        if self.tr == 5 && (self.net == 0 || self.net == 2) {
            return false;
        }
        true
    }
    fn label(&self) -> String {
        format!(
            "{}{} / {} / {} / payload {} bytes",
            ["no link", "ethernet2", "linux_sll"][self.link as usize],
            ["", "+single_vlan", "+double_vlan", "+vlan(Double,max)"][self.vlan as usize],
            ["ipv4()", "ipv6()", "ip(IPv4+8 option bytes+auth icv 4)", "ip(IPv6+hop+dest+route+finaldest+frag+auth)", "arp(eth,ipv4)", "arp(255/255 byte addresses)"][self.net as usize],
            if self.net >= 4 { "-" } else { ["udp", "tcp", "tcp+40 option bytes", "icmpv4 echo request", "icmpv4 timestamp request", "icmpv6 echo request", "no transport (write with ip number 253)"][self.tr as usize] },
            self.pay
        )
    }
}

enum Fin {
    Ip(PacketBuilderStep<IpHeaders>),
    Udp(PacketBuilderStep<UdpHeader>),
    Tcp(PacketBuilderStep<TcpHeader>),
    I4(PacketBuilderStep<Icmpv4Header>),
    I6(PacketBuilderStep<Icmpv6Header>),
    Arp(PacketBuilderStep<ArpPacket>),
}

const RAW_IP: IpNumber = IpNumber(253);

impl Fin {
    fn size(&self, n: usize) -> usize {
        match self {
            Fin::Ip(b) => b.size(n),
            Fin::Udp(b) => b.size(n),
            Fin::Tcp(b) => b.size(n),
            Fin::I4(b) => b.size(n),
            Fin::I6(b) => b.size(n),
            Fin::Arp(b) => b.size(),
        }
    }
    fn write<W: Write>(self, w: &mut W, p: &[u8]) -> Result<(), BuildWriteError> {
        match self {
            Fin::Ip(b) => b.write(w, RAW_IP, p),
            Fin::Udp(b) => b.write(w, p),
            Fin::Tcp(b) => b.write(w, p),
            Fin::I4(b) => b.write(w, p),
            Fin::I6(b) => b.write(w, p),
            Fin::Arp(b) => b.write(w),
        }
    }
    fn write_to_slice(self, out: &mut [u8], p: &[u8]) -> Result<usize, BuildSliceWriteError> {
        match self {
            Fin::Ip(b) => b.write_to_slice(out, RAW_IP, p),
            Fin::Udp(b) => b.write_to_slice(out, p),
            Fin::Tcp(b) => b.write_to_slice(out, p),
            Fin::I4(b) => b.write_to_slice(out, p),
            Fin::I6(b) => b.write_to_slice(out, p),
            Fin::Arp(b) => b.write_to_slice(out),
        }
    }
    fn write_to_vec(self, out: &mut Vec<u8>, p: &[u8]) -> Result<(), String> {
        match self {
            Fin::Ip(b) => b.write_to_vec(out, RAW_IP, p).map_err(|e| format!("{:?}", e)),
            Fin::Udp(b) => b.write_to_vec(out, p).map_err(|e| format!("{:?}", e)),
            Fin::Tcp(b) => b.write_to_vec(out, p).map_err(|e| format!("{:?}", e)),
            Fin::I4(b) => b.write_to_vec(out, p).map_err(|e| format!("{:?}", e)),
            Fin::I6(b) => b.write_to_vec(out, p).map_err(|e| format!("{:?}", e)),
            Fin::Arp(b) => b.write_to_vec(out).map_err(|e| format!("{:?}", e)),
        }
    }
}

enum NetStep {
    Ip(PacketBuilderStep<IpHeaders>),
    Arp(PacketBuilderStep<ArpPacket>),
}

const SRC4: [u8; 4] = [192, 168, 1, 1];
const DST4: [u8; 4] = [192, 168, 1, 2];
const SRC6: [u8; 16] = [0x20, 0x01, 0x0d, 0xb8, 0, 0, 0, 0, 0, 0, 0, 0, 0, 0, 0, 1];
const DST6: [u8; 16] = [0x20, 0x01, 0x0d, 0xb8, 0, 0, 0, 0, 0, 0, 0, 0, 0, 0, 0, 2];

fn b_ip4() -> IpHeaders {
    let mut h = ipv4_val(2, 8);
    h.protocol = AUTH;
    IpHeaders::Ipv4(h, Ipv4Extensions { auth: Some(auth_val(UDP, 2, 4)) })
}
fn b_ip6() -> IpHeaders {
    let (e, first, _) = exts_val(0b11_1111, 1, UDP);
    let mut h = ipv6_val(2);
    h.next_header = first;
    IpHeaders::Ipv6(h, e)
}
fn b_arp(net: u8) -> ArpPacket {
    if net == 4 {
        arp_val(1, 0x0800, 1, 6, 4)
    } else {
        arp_val(0xffff, 0xffff, 0xffff, 255, 255)
    }
}

macro_rules! net_step {
    ($s:expr, $c:expr) => {
        match $c.net {
            0 => NetStep::Ip($s.ipv4(SRC4, DST4, 64)),
            1 => NetStep::Ip($s.ipv6(SRC6, DST6, 64)),
            2 => NetStep::Ip($s.ip(b_ip4())),
            3 => NetStep::Ip($s.ip(b_ip6())),
            n => NetStep::Arp($s.arp(b_arp(n))),
        }
    };
}

fn build(c: &BCfg) -> Fin {
    let vid = |v: u16| VlanId::try_new(v).unwrap();
    let net = match (c.link, c.vlan) {
        (0, _) => match c.net {
            0 => NetStep::Ip(PacketBuilder::ipv4(SRC4, DST4, 64)),
            1 => NetStep::Ip(PacketBuilder::ipv6(SRC6, DST6, 64)),
            2 => NetStep::Ip(PacketBuilder::ip(b_ip4())),
            _ => NetStep::Ip(PacketBuilder::ip(b_ip6())),
        },
        (1, 0) => net_step!(PacketBuilder::ethernet2([1, 2, 3, 4, 5, 6], [7, 8, 9, 10, 11, 12]), c),
        (1, 1) => net_step!(PacketBuilder::ethernet2([1, 2, 3, 4, 5, 6], [7, 8, 9, 10, 11, 12]).single_vlan(vid(0x123)), c),
        (1, 2) => net_step!(PacketBuilder::ethernet2([1, 2, 3, 4, 5, 6], [7, 8, 9, 10, 11, 12]).double_vlan(vid(0x234), vid(0xfff)), c),
        (1, _) => net_step!(
            PacketBuilder::ethernet2([0xff; 6], [0xff; 6]).vlan(VlanHeader::Double(DoubleVlanHeader { outer: vlan_val(7, true, 0xfff, 0xffff), inner: vlan_val(7, true, 0xfff, 0xffff) })),
            c
        ),
        _ => net_step!(PacketBuilder::linux_sll(LinuxSllPacketType::OTHERHOST, 6, [1, 2, 3, 4, 5, 6, 0, 0]), c),
    };
    match net {
        NetStep::Arp(a) => Fin::Arp(a),
        NetStep::Ip(ip) => match c.tr {
            0 => Fin::Udp(ip.udp(21, 1234)),
            1 => Fin::Tcp(ip.tcp(80, 51000, 0x01020304, 4000).syn().ack(77)),
            2 => Fin::Tcp(ip.tcp(0xffff, 0xffff, u32::MAX, 0xffff).ns().fin().psh().urg(0xffff).ece().cwr().options_raw(&pat(40, 0x91)).unwrap()),
            3 => Fin::I4(ip.icmpv4_echo_request(0x1234, 0x5678)),
            4 => Fin::I4(ip.icmpv4(Icmpv4Type::TimestampRequest(icmpv4::TimestampMessage { id: 1, seq: 2, originate_timestamp: 3, receive_timestamp: 4, transmit_timestamp: 5 }))),
            5 => Fin::I6(ip.icmpv6_echo_request(0x1234, 0x5678)),
            _ => Fin::Ip(ip),
        },
    }
}

fn s_builder(c: BCfg) -> Subject {
    let mut s = Subject::new("PacketBuilder", c.label(), format!("{:?}", c));
    let (nw, ns, nv, nz): (&'static str, &'static str, &'static str, &'static str) = if c.net >= 4 {
        ("PacketBuilderStep<ArpPacket>::write", "PacketBuilderStep<ArpPacket>::write_to_slice", "PacketBuilderStep<ArpPacket>::write_to_vec", "PacketBuilderStep<ArpPacket>::size")
    } else {
        match c.tr {
            0 => ("PacketBuilderStep<UdpHeader>::write", "PacketBuilderStep<UdpHeader>::write_to_slice", "PacketBuilderStep<UdpHeader>::write_to_vec", "PacketBuilderStep<UdpHeader>::size"),
            1 | 2 => ("PacketBuilderStep<TcpHeader>::write", "PacketBuilderStep<TcpHeader>::write_to_slice", "PacketBuilderStep<TcpHeader>::write_to_vec", "PacketBuilderStep<TcpHeader>::size"),
            3 | 4 => ("PacketBuilderStep<Icmpv4Header>::write", "PacketBuilderStep<Icmpv4Header>::write_to_slice", "PacketBuilderStep<Icmpv4Header>::write_to_vec", "PacketBuilderStep<Icmpv4Header>::size"),
            5 => ("PacketBuilderStep<Icmpv6Header>::write", "PacketBuilderStep<Icmpv6Header>::write_to_slice", "PacketBuilderStep<Icmpv6Header>::write_to_vec", "PacketBuilderStep<Icmpv6Header>::size"),
            _ => ("PacketBuilderStep<IpHeaders>::write", "PacketBuilderStep<IpHeaders>::write_to_slice", "PacketBuilderStep<IpHeaders>::write_to_vec", "PacketBuilderStep<IpHeaders>::size"),
        }
    };
    let payload = pat(c.pay, 0x31);
    let p = payload.clone();
    let w0 = s.w(nw, move |w| build(&c).write(w, &p).map_err(f));
    let p = payload.clone();
    s.s(ns, w0, None, true, move |out| match build(&c).write_to_slice(out, &p) {
        Ok(n) => Ok(SOk { written: n, rest_problem: None }),
        Err(BuildSliceWriteError::Space(n)) => Err(SErr::BSpace(n)),
        Err(o) => Err(SErr::Other(format!("{:?}", o))),
    });
    let p = payload.clone();
    s.sides.push(SideCheck {
        at: nv,
        src: w0,
        f: Box::new(move |full| {
            let mut v = vec![0xAB, 0xCD];
            match build(&c).write_to_vec(&mut v, &p) {
                Err(e) => Err(("side:write_to_vec-error".to_string(), format!("write_to_vec returned {}", e))),
                Ok(()) => {
                    if v[..2] == [0xAB, 0xCD] && v[2..] == *full {
                        Ok(())
                    } else {
                        Err(("side:write_to_vec-differs-from-write".to_string(), format!("write_to_vec appended {} but write produced {}", short_hex(&v[2.min(v.len())..]), short_hex(full))))
                    }
                }
            }
        }),
    });
    let plen = payload.len();
    s.sides.push(SideCheck {
        at: nz,
        src: w0,
        f: Box::new(move |full| {
            let n = build(&c).size(plen);
            if n == full.len() {
                Ok(())
            } else {
                Err(("side:size-differs-from-written-length".to_string(), format!("size({}) == {} but write produced {} bytes", plen, n, full.len())))
            }
        }),
    });
    s
}

// ---------------------------------------------------------------------------------------------
// the list of subjects (lazily built: only the requested one is constructed)

struct Pick {
    want: Option<u64>,
    n: u64,
    out: Option<Subject>,
}
impl Pick {
    fn add(&mut self, mk: impl FnOnce() -> Subject) {
        if self.want == Some(self.n) {
            self.out = Some(mk());
        }
        self.n += 1;
    }
}

fn payload_lens(tier: Tier) -> &'static [usize] {
    if tier.is_thorough() {
        &[0, 1, 2, 3, 7, 8, 9, 63, 64, 65]
    } else {
        &[0, 1, 7]
    }
}

fn enumerate(tier: Tier, p: &mut Pick) {
    let th = tier.is_thorough();
    // ---- the big ones first (they are the longest work units)
    p.add(|| s_ipv6_exts(0b11_1111, 2));
    p.add(|| s_ip_headers_v6(1, 0b11_1111, 2));
    for mask in 1u8..64 {
        if !ext_mask_valid(mask) || mask == 0b11_1111 {
            continue;
        }
        let single = matches!(mask, 0b1 | 0b10 | 0b100 | 0b1100 | 0b10_0000);
        if th || single {
            p.add(move || s_ipv6_exts(mask, 2));
        }
        if th {
            p.add(move || s_ip_headers_v6(1, mask, 2));
        }
    }
    p.add(|| s_raw("max: next=255 payload=2046 x 0xff", raw_val(IpNumber(255), 1, 2046, 0)));
    p.add(|| s_auth("max: next=255 spi/seq=max icv=1016 x 0xff", auth_val(IpNumber(255), 1, 1016)));
    p.add(|| s_arp("max: hw/proto/op=0xffff, 255 byte hw and protocol addresses", arp_val(0xffff, 0xffff, 0xffff, 255, 255)));
    p.add(|| s_ip_headers_v4(1, 40, Some(1016)));
    p.add(|| s_ipv4_exts("auth max icv=1016", Ipv4Extensions { auth: Some(auth_val(IpNumber(255), 1, 1016)) }));
    p.add(|| s_arp("hw 255 bytes, protocol 0 bytes", arp_val(1, 0x0800, 2, 255, 0)));
    p.add(|| s_arp("hw 0 bytes, protocol 255 bytes", arp_val(1, 0x0800, 2, 0, 255)));

    // ---- link layer
    p.add(|| s_eth("min", Ethernet2Header { source: [0; 6], destination: [0; 6], ether_type: EtherType(0) }));
    p.add(|| s_eth("max", Ethernet2Header { source: [0xff; 6], destination: [0xff; 6], ether_type: EtherType(0xffff) }));
    p.add(|| s_eth("mixed", Ethernet2Header { source: [1, 2, 3, 4, 5, 6], destination: [0xa, 0xb, 0xc, 0xd, 0xe, 0xf], ether_type: EtherType(0x0800) }));
    p.add(|| s_sll("min: HOST/NETLINK", sll_val(LinuxSllPacketType::HOST, ArpHardwareId::NETLINK, 0, [0; 8], 0)));
    p.add(|| s_sll("max: KERNEL/ETHERNET", sll_val(LinuxSllPacketType::KERNEL, ArpHardwareId::ETHERNET, 0xffff, [0xff; 8], 0xffff)));
    p.add(|| s_sll("mixed: MULTICAST/IPGRE", sll_val(LinuxSllPacketType::MULTICAST, ArpHardwareId::IPGRE, 6, [1, 2, 3, 4, 5, 6, 0, 0], 0x1234)));
    p.add(|| s_sll("mixed: OUTGOING/ETHERNET ipv4", sll_val(LinuxSllPacketType::OUTGOING, ArpHardwareId::ETHERNET, 6, [1, 2, 3, 4, 5, 6, 0, 0], 0x0800)));
    p.add(|| s_vlan("min", vlan_val(0, false, 0, 0)));
    p.add(|| s_vlan("max", vlan_val(7, true, 0xfff, 0xffff)));
    p.add(|| s_vlan("mixed", vlan_val(5, false, 0x123, 0x86dd)));
    p.add(|| s_macsec("min: Modified, no SCI", macsec_val(MacsecPType::Modified, false, false, 0, 0, 0, None)));
    p.add(|| s_macsec("max: Unmodified(0xffff) with SCI", macsec_val(MacsecPType::Unmodified(EtherType(0xffff)), true, true, 3, 63, u32::MAX, Some(u64::MAX))));
    p.add(|| s_macsec("Unmodified(0x0800) without SCI", macsec_val(MacsecPType::Unmodified(EtherType(0x0800)), false, false, 1, 0, 0x0102_0304, None)));
    p.add(|| s_macsec("Encrypted with SCI", macsec_val(MacsecPType::Encrypted, false, true, 2, 17, 7, Some(0x0102_0304_0506_0708))));
    p.add(|| s_macsec("EncryptedUnmodified without SCI", macsec_val(MacsecPType::EncryptedUnmodified, true, false, 3, 63, u32::MAX, None)));

    // ---- ARP
    p.add(|| s_arp("min: all zero, 0 byte addresses", arp_val(0, 0, 0, 0, 0)));
    p.add(|| s_arp("ethernet/ipv4 request", arp_val(1, 0x0800, 1, 6, 4)));
    p.add(|| s_arp("mixed: 1 byte hw, 16 byte protocol addresses", arp_val(6, 0x86dd, 2, 1, 16)));

    // ---- IPv4 / IPv6 headers
    let opt_lens: &[usize] = if th { &[0, 4, 8, 12, 16, 20, 24, 28, 32, 36, 40] } else { &[0, 4, 40] };
    for &o in opt_lens {
        for variant in 0..3u8 {
            if !th && !matches!((variant, o), (0, 0) | (1, 40) | (2, 4) | (2, 0) | (0, 40)) {
                continue;
            }
            p.add(move || s_ipv4(&format!("{} options={}", ["min", "max", "mixed"][variant as usize], o), ipv4_val(variant, o)));
        }
    }
    for variant in 0..3u8 {
        p.add(move || s_ipv6(["min", "max", "mixed"][variant as usize], ipv6_val(variant)));
    }

    // ---- extension headers
    let icvs: &[usize] = if th { &[0, 4, 8, 12, 16, 256, 512, 1012] } else { &[0, 12] };
    for &n in icvs {
        for variant in [0u8, 2] {
            p.add(move || s_auth(&format!("{} icv={}", ["min", "max", "mixed"][variant as usize], n), auth_val(if variant == 0 { IpNumber(0) } else { UDP }, variant, n)));
        }
    }
    let raws: &[usize] = if th { &[6, 14, 22, 30, 254, 1022, 2038] } else { &[6, 14] };
    for &n in raws {
        p.add(move || s_raw(&format!("mixed payload={}", n), raw_val(UDP, 2, n, 0x41)));
    }
    p.add(|| s_raw("min: next=0 payload=6 x 0x00", Ipv6RawExtHeader::new_raw(IpNumber(0), &[0; 6]).unwrap()));
    // headers that announce another extension header (the skipping helpers look at the announced number)
    p.add(|| s_raw("next=hop-by-hop payload=22", raw_val(IpNumber(0), 2, 22, 0x41)));
    p.add(|| s_raw("next=routing payload=14", raw_val(IpNumber(43), 2, 14, 0x41)));
    p.add(|| s_auth("next=auth icv=8", auth_val(AUTH, 2, 8)));
    p.add(|| s_frag("next=fragment", frag_val(IpNumber(44), 2)));
    for variant in 0..3u8 {
        p.add(move || s_frag(["min", "max", "mixed"][variant as usize], frag_val(if variant == 1 { IpNumber(255) } else { UDP }, variant)));
    }
    p.add(|| s_ipv4_exts("none", Ipv4Extensions::default()));
    p.add(|| s_ipv4_exts("auth min icv=0", Ipv4Extensions { auth: Some(auth_val(IpNumber(0), 0, 0)) }));
    p.add(|| s_ipv4_exts("auth mixed icv=12", Ipv4Extensions { auth: Some(auth_val(UDP, 2, 12)) }));
    for mask in 0u8..64 {
        if !ext_mask_valid(mask) {
            continue;
        }
        for prof in 0..2u8 {
            p.add(move || s_ipv6_exts(mask, prof));
        }
    }

    // ---- IpHeaders
    for (variant, opts) in [(0u8, 0usize), (1, 40), (2, 4)] {
        for icv in [None, Some(0usize), Some(12)] {
            p.add(move || s_ip_headers_v4(variant, opts, icv));
        }
    }
    if th {
        for opts in [8usize, 20, 36] {
            for icv in [None, Some(4usize), Some(256)] {
                p.add(move || s_ip_headers_v4(2, opts, icv));
            }
        }
    }
    for mask in 0u8..64 {
        if !ext_mask_valid(mask) {
            continue;
        }
        for prof in 0..2u8 {
            // header variant alternates so that min / max / mixed fixed parts all occur with every subset in one of the profiles
            let variant = if th { 3 } else { (mask + prof) % 3 };
            if variant == 3 {
                for v in 0..3u8 {
                    p.add(move || s_ip_headers_v6(v, mask, prof));
                }
            } else {
                p.add(move || s_ip_headers_v6(variant, mask, prof));
            }
        }
    }

    // ---- transport
    p.add(|| s_udp("min", UdpHeader { source_port: 0, destination_port: 0, length: 0, checksum: 0 }));
    p.add(|| s_udp("max", UdpHeader { source_port: 0xffff, destination_port: 0xffff, length: 0xffff, checksum: 0xffff }));
    p.add(|| s_udp("mixed", UdpHeader { source_port: 53, destination_port: 40000, length: 520, checksum: 0xabcd }));
    let topts: &[usize] = if th { &[0, 4, 8, 12, 16, 20, 24, 28, 32, 36, 40] } else { &[0, 4, 40] };
    for &o in topts {
        for variant in 0..3u8 {
            if !th && !matches!((variant, o), (0, 0) | (1, 40) | (2, 4) | (2, 0) | (0, 40)) {
                continue;
            }
            p.add(move || s_tcp(&format!("{} options={}", ["min", "max", "mixed"][variant as usize], o), tcp_val(variant, o)));
        }
    }
    {
        use icmpv4::*;
        let ts = |v: u32| TimestampMessage { id: v as u16, seq: v as u16, originate_timestamp: v, receive_timestamp: v, transmit_timestamp: v };
        p.add(|| s_icmp4("min: EchoReply all zero", Icmpv4Header { icmp_type: Icmpv4Type::EchoReply(IcmpEchoHeader { id: 0, seq: 0 }), checksum: 0 }));
        p.add(|| s_icmp4("max: Unknown 255/255", Icmpv4Header { icmp_type: Icmpv4Type::Unknown { type_u8: 255, code_u8: 255, bytes5to8: [0xff; 4] }, checksum: 0xffff }));
        p.add(move || s_icmp4("TimestampRequest max (20 byte header)", Icmpv4Header { icmp_type: Icmpv4Type::TimestampRequest(ts(u32::MAX)), checksum: 0xffff }));
        p.add(move || s_icmp4("TimestampReply mixed (20 byte header)", Icmpv4Header { icmp_type: Icmpv4Type::TimestampReply(ts(0x0102_0304)), checksum: 0x1234 }));
        p.add(|| s_icmp4("EchoRequest mixed", Icmpv4Header { icmp_type: Icmpv4Type::EchoRequest(IcmpEchoHeader { id: 0x1234, seq: 0x5678 }), checksum: 0x9abc }));
        p.add(|| s_icmp4("DestinationUnreachable FragmentationNeeded", Icmpv4Header { icmp_type: Icmpv4Type::DestinationUnreachable(DestUnreachableHeader::FragmentationNeeded { next_hop_mtu: 1500 }), checksum: 1 }));
        p.add(|| s_icmp4("Redirect", Icmpv4Header { icmp_type: Icmpv4Type::Redirect(RedirectHeader { code: RedirectCode::RedirectForHost, gateway_internet_address: [10, 0, 0, 1] }), checksum: 2 }));
        p.add(|| s_icmp4("ParameterProblem pointer", Icmpv4Header { icmp_type: Icmpv4Type::ParameterProblem(ParameterProblemHeader::PointerIndicatesError(7)), checksum: 3 }));
        p.add(|| s_icmp4("TimeExceeded", Icmpv4Header { icmp_type: Icmpv4Type::TimeExceeded(TimeExceededCode::FragmentReassemblyTimeExceeded), checksum: 4 }));
    }
    {
        use icmpv6::*;
        p.add(|| s_icmp6("min: Unknown 0/0", Icmpv6Header { icmp_type: Icmpv6Type::Unknown { type_u8: 0, code_u8: 0, bytes5to8: [0; 4] }, checksum: 0 }));
        p.add(|| s_icmp6("max: Unknown 255/255", Icmpv6Header { icmp_type: Icmpv6Type::Unknown { type_u8: 255, code_u8: 255, bytes5to8: [0xff; 4] }, checksum: 0xffff }));
        p.add(|| s_icmp6("EchoRequest mixed", Icmpv6Header { icmp_type: Icmpv6Type::EchoRequest(IcmpEchoHeader { id: 0x1234, seq: 0x5678 }), checksum: 0x9abc }));
        p.add(|| s_icmp6("EchoReply max", Icmpv6Header { icmp_type: Icmpv6Type::EchoReply(IcmpEchoHeader { id: 0xffff, seq: 0xffff }), checksum: 0xffff }));
        p.add(|| s_icmp6("PacketTooBig max", Icmpv6Header { icmp_type: Icmpv6Type::PacketTooBig { mtu: u32::MAX }, checksum: 1 }));
        p.add(|| s_icmp6("ParameterProblem", Icmpv6Header { icmp_type: Icmpv6Type::ParameterProblem(ParameterProblemHeader { code: ParameterProblemCode::OptionTooBig, pointer: u32::MAX }), checksum: 2 }));
        p.add(|| s_icmp6("DestinationUnreachable Port", Icmpv6Header { icmp_type: Icmpv6Type::DestinationUnreachable(DestUnreachableCode::Port), checksum: 3 }));
        p.add(|| s_icmp6("TimeExceeded", Icmpv6Header { icmp_type: Icmpv6Type::TimeExceeded(TimeExceededCode::FragmentReassemblyTimeExceeded), checksum: 4 }));
        p.add(|| s_icmp6("RouterSolicitation", Icmpv6Header { icmp_type: Icmpv6Type::RouterSolicitation, checksum: 5 }));
        p.add(|| s_icmp6("RouterAdvertisement max", Icmpv6Header { icmp_type: Icmpv6Type::RouterAdvertisement(RouterAdvertisementHeader { cur_hop_limit: 255, managed_address_config: true, other_config: true, router_lifetime: 0xffff }), checksum: 6 }));
        p.add(|| s_icmp6("NeighborSolicitation", Icmpv6Header { icmp_type: Icmpv6Type::NeighborSolicitation, checksum: 7 }));
        p.add(|| s_icmp6("NeighborAdvertisement all flags", Icmpv6Header { icmp_type: Icmpv6Type::NeighborAdvertisement(NeighborAdvertisementHeader { router: true, solicited: true, r#override: true }), checksum: 8 }));
        p.add(|| s_icmp6("Redirect", Icmpv6Header { icmp_type: Icmpv6Type::Redirect, checksum: 9 }));
        let a1 = std::net::Ipv6Addr::from(SRC6);
        let a2 = std::net::Ipv6Addr::from([0xff; 16]);
        p.add(|| s_icmp6_payload("RouterSolicitation (0 bytes)", Icmpv6Payload::RouterSolicitation(RouterSolicitationPayload)));
        p.add(|| s_icmp6_payload("RouterAdvertisement max", Icmpv6Payload::RouterAdvertisement(RouterAdvertisementPayload { reachable_time: u32::MAX, retrans_timer: u32::MAX })));
        p.add(move || s_icmp6_payload("NeighborSolicitation", Icmpv6Payload::NeighborSolicitation(NeighborSolicitationPayload { target_address: a1 })));
        p.add(move || s_icmp6_payload("NeighborAdvertisement max", Icmpv6Payload::NeighborAdvertisement(NeighborAdvertisementPayload { target_address: a2 })));
        p.add(move || s_icmp6_payload("Redirect", Icmpv6Payload::Redirect(RedirectPayload { target_address: a1, destination_address: a2 })));
    }

    // ---- packet builder: every layer combination x payload lengths
    for (link, vlan) in [(0u8, 0u8), (1, 0), (1, 1), (1, 2), (1, 3), (2, 0)] {
        for net in 0..6u8 {
            for tr in 0..7u8 {
                for &pay in payload_lens(tier) {
                    let c = BCfg { link, vlan, net, tr, pay };
                    if c.valid() {
                        p.add(move || s_builder(c));
                    }
                }
            }
        }
    }
}

fn subject_count(tier: Tier) -> u64 {
    let mut p = Pick { want: None, n: 0, out: None };
    enumerate(tier, &mut p);
    p.n
}

fn subject(tier: Tier, i: u64) -> Option<Subject> {
    let mut p = Pick { want: Some(i), n: 0, out: None };
    enumerate(tier, &mut p);
    p.out
}

const PHASES: u64 = 4;

/// cross product limit x I/O fault position only for encodings up to this length
fn cross_max(tier: Tier) -> usize {
    if tier.is_thorough() {
        256
    } else {
        64
    }
}

impl Check for C16 {
    fn quick_is_thorough(&self) -> bool {
        true
    }
    fn id(&self) -> &'static str {
        "C16"
    }
    fn level(&self) -> &'static str {
        "fault_enumeration"
    }
    fn rule(&self, tier: Tier) -> String {
        format!(
            "values: {} subjects = all-min / all-max / mixed values of Ethernet2Header, LinuxSllHeader, SingleVlanHeader, MacsecHeader (with/without SCI and ether type), ArpPacket (0..255 byte addresses), \
             Ipv4Header (options {}), Ipv6Header, IpAuthHeader (ICV {}), Ipv6RawExtHeader (payload 6..2046), Ipv6FragmentHeader, Ipv4Extensions, Ipv6Extensions and IpHeaders (all 48 subsets of extension headers the struct can hold x minimal/mixed sizes, maximal sizes for {}), \
             UdpHeader, TcpHeader (options {}), Icmpv4Header, Icmpv6Header, Icmpv6Payload, LinkHeader/TransportHeader wrappers, and every valid PacketBuilder combination of link {{none, ethernet2, linux_sll}} x vlan {{none, single, double, vlan(Double)}} x net {{ipv4, ipv6, ip(IPv4+options+auth), ip(IPv6+6 extension headers), arp small/large}} x transport {{udp, tcp, tcp+40 option bytes, icmpv4 echo, icmpv4 timestamp, icmpv6 echo, none}} x payload lengths {:?}. \
             faults (all positions enumerated): (w) writer that accepts exactly k bytes, k in 0..=len, x modes {:?}; (s) output slices of every length 0..=len+1 ending at a PROT_NONE page with {} canary bytes in front; (r) reader failing after k bytes, k in 0..=len and never, x modes {:?}; \
             (l) LimitedReader with every limit 0..=len+1 x modes {:?}, I/O faults at every k behind limits len and len+1, full limit x k cross product for encodings <= {} bytes, and IpHeaders::read with every value 0..=len+1 of total_len / payload_length. \
             oracle: Err <=> fault inside the encoding (k < len, slice < len, limit < len); the Err is the injected io::Error itself (downcast + message; WriteZero / UnexpectedEof for the Ok(0) modes) resp. a space error with required_len == real encoded length (header APIs also len == slice length, layer, offset 0) resp. a Len error with len == remaining budget of the layer crossing the limit and len < required_len <= that layer's length; no panic; received / written bytes are a prefix of the complete encoding (= output of the same call into an unbounded writer) and nothing is written after the first failure; slice bytes behind the written prefix, canaries and everything outside the slice untouched (guard page); success writes exactly len bytes; successful read consumes exactly len bytes and equals the original value; the reader under a LimitedReader is never asked for a byte at or beyond offset `limit`. \
             a case = (value, entry point, mode, fault position); all distinct by construction; non-trivial = fault strictly inside the encoding (0 < position < len).",
            subject_count(tier),
            if tier.is_thorough() { "0,4,..,40" } else { "0/4/40" },
            if tier.is_thorough() { "0..1016" } else { "0/12/1016" },
            if tier.is_thorough() { "every subset" } else { "the full chain and each single header type" },
            if tier.is_thorough() { "0,4,..,40" } else { "0/4/40" },
            payload_lens(tier),
            WMODES,
            CANARY,
            RMODES,
            LMODES,
            cross_max(tier),
        )
    }
    fn assumptions(&self, _tier: Tier) -> Vec<String> {
        vec![
            "the complete encoding of a value is what the same entry point writes into an unbounded writer (byte-level correctness of the encoding itself is the subject of other properties)".into(),
            "IgmpHeader, DoubleVlanHeader and NetHeaders have no read/write entry points and are only covered through PacketBuilder".into(),
            "values with inconsistent next-header chains (content errors of the writers) are not part of this property".into(),
        ]
    }
    fn units(&self, tier: Tier) -> u64 {
        subject_count(tier) * PHASES
    }
    fn expect_reach(&self, _tier: Tier) -> Vec<String> {
        ["w-err", "w-ok", "s-err", "s-ok", "r-err", "r-ok", "limited-err", "limited-ok", "limited-io-err", "field-limited-err", "field-limited-ok", "interrupted-retried", "builder-slice-err"].iter().map(|s| s.to_string()).collect()
    }
    fn coverage_extra(&self, tier: Tier) -> Vec<(String, String)> {
        vec![("subjects".into(), subject_count(tier).to_string()), ("phases_per_subject".into(), "write, slice, read, limited".into())]
    }
    fn run_unit(&self, tier: Tier, u: u64, ctx: &mut Ctx) {
        let subj = match subject(tier, u / PHASES) {
            Some(s) => s,
            None => return,
        };
        let phase = u % PHASES;
        let name = subj.name();
        // complete encodings
        let mut fulls: Vec<Option<Vec<u8>>> = vec![];
        for api in &subj.writes {
            match reference(api) {
                Ok(v) => fulls.push(Some(v)),
                Err(e) => {
                    fulls.push(None);
                    if phase == 0 {
                        ctx.case(
                            None,
                            || CaseDesc { shape: format!("ref:{}", api.at), text: format!("{} value={} : {} into an unbounded writer", name, subj.value, api.at), rank: 0 },
                            |case| {
                                case.at(api.at);
                                case.eval();
                                case.fail(format!("w:unbounded-write-failed:{}", api.at), format!("{} into an unbounded writer {}", api.at, e));
                            },
                        );
                    }
                }
            }
        }
        let base_rank = |len: usize, pos: usize| ((len as u64) << 20) | pos as u64;
        match phase {
            0 => {
                for (wi, api) in subj.writes.iter().enumerate() {
                    let full = match &fulls[wi] {
                        Some(v) => v,
                        None => continue,
                    };
                    let len = full.len();
                    ctx.note_size(len as u64, || format!("{} via {}: {} bytes", name, api.at, len));
                    for &mode in WMODES {
                        for k in 0..=len {
                            ctx.case(
                                None,
                                || CaseDesc {
                                    shape: format!("w:{}:{:?}", api.at, mode),
                                    text: format!("{} value={} : {} into a writer that accepts exactly {} of {} bytes, mode {:?}; complete encoding {}", name, subj.value, api.at, k, len, mode, short_hex(full)),
                                    rank: base_rank(len, k),
                                },
                                |case| {
                                    check_write(case, api, full, mode, k, 0xC16_0000 + k as u64);
                                    if k > 0 && k < len {
                                        case.nontrivial();
                                    }
                                },
                            );
                            if ctx.done() {
                                return;
                            }
                        }
                    }
                }
                for sc in &subj.sides {
                    let full = match &fulls[sc.src] {
                        Some(v) => v,
                        None => continue,
                    };
                    ctx.case(
                        None,
                        || CaseDesc { shape: format!("side:{}", sc.at), text: format!("{} value={} : {} against the bytes of write ({})", name, subj.value, sc.at, short_hex(full)), rank: full.len() as u64 },
                        |case| {
                            case.at(sc.at);
                            case.eval();
                            match guarded(|| (sc.f)(full)) {
                                Err(p) => case.fail(format!("side:panic:{}", sc.at), format!("{} panicked: {}", sc.at, p)),
                                Ok(Err((sig, detail))) => case.fail(format!("{}:{}", sig, sc.at), detail),
                                Ok(Ok(())) => case.reach("side-ok"),
                            }
                            case.outcome(format!("side:{}", sc.at));
                        },
                    );
                }
            }
            1 => {
                if subj.slices.is_empty() {
                    return;
                }
                let arena = mem::Arena::new(4);
                for api in &subj.slices {
                    let full = match &fulls[api.src] {
                        Some(v) => v,
                        None => continue,
                    };
                    let len = full.len();
                    for l in 0..=len + 1 {
                        ctx.case(
                            None,
                            || CaseDesc {
                                shape: format!("s:{}", api.at),
                                text: format!("{} value={} : {} into a slice of {} bytes (encoding needs {}), slice ends at a guard page; complete encoding {}", name, subj.value, api.at, l, len, short_hex(full)),
                                rank: base_rank(len, l),
                            },
                            |case| {
                                check_slice(case, &arena, api, full, l);
                                if l > 0 && l < len {
                                    case.nontrivial();
                                }
                            },
                        );
                        if ctx.done() {
                            return;
                        }
                    }
                }
            }
            2 => {
                for api in &subj.reads {
                    let full = match &fulls[api.src] {
                        Some(v) => v,
                        None => continue,
                    };
                    let len = full.len();
                    let data = padded(full);
                    for &mode in RMODES {
                        for k in (0..=len).chain(std::iter::once(usize::MAX)) {
                            ctx.case(
                                None,
                                || CaseDesc {
                                    shape: format!("r:{}:{:?}", api.at, mode),
                                    text: format!(
                                        "{} value={} : {} from a reader over the encoding (+{} pad bytes) that fails after {} of {} bytes, mode {:?}; encoding {}",
                                        name,
                                        subj.value,
                                        api.at,
                                        PAD,
                                        if k == usize::MAX { "all (never)".to_string() } else { k.to_string() },
                                        len,
                                        mode,
                                        short_hex(full)
                                    ),
                                    rank: base_rank(len, k.min(len + 1)),
                                },
                                |case| {
                                    check_read(case, api.at, api.seeks, &api.f, &data, len, mode, k, 0xC16_1000 + k.min(len + 1) as u64);
                                    if k > 0 && k < len {
                                        case.nontrivial();
                                    }
                                },
                            );
                            if ctx.done() {
                                return;
                            }
                        }
                    }
                }
            }
            _ => {
                for api in &subj.lims {
                    let full = match &fulls[api.src] {
                        Some(v) => v,
                        None => continue,
                    };
                    let len = full.len();
                    let data = padded(full);
                    let run = |ctx: &mut Ctx, mode: RMode, limit: usize, k: usize| {
                        ctx.case(
                            None,
                            || CaseDesc {
                                shape: format!("l:{}:{:?}", api.at, mode),
                                text: format!(
                                    "{} value={} : {} through LimitedReader::new(reader, {}, LenSource::Slice, {}, Layer::Ipv6Header), encoding {} bytes (layers {:?}), reader fails after {} bytes, mode {:?}; encoding {}",
                                    name,
                                    subj.value,
                                    api.at,
                                    limit,
                                    LIM_BASE,
                                    len,
                                    api.layers,
                                    if k == usize::MAX { "all (never)".to_string() } else { k.to_string() },
                                    mode,
                                    short_hex(full)
                                ),
                                rank: base_rank(len, limit),
                            },
                            |case| {
                                check_limited(case, api, &data, len, mode, limit, k, 0xC16_2000 + k.min(len + 1) as u64);
                                if (limit > 0 && limit < len) || (k > 0 && k < len) {
                                    case.nontrivial();
                                }
                            },
                        );
                    };
                    for &mode in LMODES {
                        for limit in 0..=len + 1 {
                            run(ctx, mode, limit, usize::MAX);
                            if ctx.done() {
                                return;
                            }
                        }
                    }
                    for &mode in &[RMode::Whole, RMode::Short3] {
                        for limit in [len, len + 1] {
                            for k in 0..=len {
                                run(ctx, mode, limit, k);
                                if ctx.done() {
                                    return;
                                }
                            }
                        }
                    }
                    if len <= cross_max(tier) {
                        for limit in 0..len {
                            for k in 0..len {
                                run(ctx, RMode::Whole, limit, k);
                                if ctx.done() {
                                    return;
                                }
                            }
                        }
                    }
                }
                for fl in &subj.flims {
                    let ext: usize = fl.layers.iter().sum();
                    let top = fl.t_base + ext + 1;
                    for &mode in LMODES {
                        for t in 0..=top.min(0xffff) {
                            ctx.case(
                                None,
                                || CaseDesc {
                                    shape: format!("fl:{}:{}:{:?}", fl.at, fl.field, mode),
                                    text: format!("{} value={} but with {} = {} : {} from an unbounded reader, mode {:?} ({} bytes before the limited area, extension layers {:?})", name, subj.value, fl.field, t, fl.at, mode, fl.fixed, fl.layers),
                                    rank: base_rank(fl.fixed + ext, t),
                                },
                                |case| {
                                    check_field_limited(case, fl, mode, t);
                                    if t > fl.t_base && t < fl.t_base + ext {
                                        case.nontrivial();
                                    }
                                },
                            );
                            if ctx.done() {
                                return;
                            }
                        }
                    }
                }
            }
        }
    }
}
