//! C10 — PacketBuilder emits consistent, parseable packets of the announced size.
//!
//! Bounded-exhaustive enumeration of builder *configurations* (every path the type state offers) x payload
//! lengths, incl. every payload length around the limit of the governing length field. Oracle: the three
//! writers agree with each other and with `size()`, an independent reference decoder (`c10/refdec.rs`)
//! and the crate's strict `SlicedPacket` parser both accept the bytes and recover the configuration,
//! all derived fields (type fields, lengths, checksums) are consistent, unencodable configurations give
//! `Err` — never a panic, never a wrapped length field in what was already written.

use crate::fw::*;

mod cfg;
mod frag;
mod oracle;
mod refdec;

use cfg::*;
use oracle::Outcome;

pub struct C10;

const QUICK_LENS: &[usize] = &[0, 1, 2, 3, 7, 8, 9, 63, 64, 65];

fn small_lens(tier: Tier) -> Vec<usize> {
    if tier.is_thorough() {
        let mut v: Vec<usize> = (0..=70).collect();
        v.extend([127, 128, 129, 255, 256, 257, 511, 512, 513, 1023, 1024, 1025, 1471, 1472, 1473, 1499, 1500, 1501]);
        v
    } else {
        QUICK_LENS.to_vec()
    }
}

/// transports of the full product
fn transports(t: &Tables) -> Vec<TrC> {
    let mut v = vec![TrC::Udp];
    for opts in 0..4 {
        for flags in [0x000, 0x1ff] {
            v.push(TrC::Tcp { flags, opts });
        }
    }
    v.push(TrC::TcpHdr(0));
    v.push(TrC::TcpHdr(1));
    for i in 0..t.i4.len() {
        v.push(TrC::Icmp4(i as u8));
    }
    for i in 0..t.i4raw.len() {
        v.push(TrC::Icmp4Raw(i as u8));
    }
    v.push(TrC::Icmp4EchoReq);
    v.push(TrC::Icmp4EchoRep);
    for i in 0..t.i6.len() {
        v.push(TrC::Icmp6(i as u8));
    }
    for i in 0..t.i6raw.len() {
        v.push(TrC::Icmp6Raw(i as u8));
    }
    v.push(TrC::Icmp6EchoReq);
    v.push(TrC::Icmp6EchoRep);
    v.push(TrC::Raw(253));
    v.push(TrC::Raw(59));
    v
}

/// transports that get the ~65 KiB limit sweep in the quick tier (one per transport header shape)
fn limit_transports_quick(t: &Tables) -> Vec<TrC> {
    let ts = t.i4.len() as u8 - 2; // TimestampRequest: 20 byte message header
    vec![
        TrC::Udp,
        TrC::Tcp { flags: 0x012, opts: 0 },
        TrC::Tcp { flags: 0x010, opts: 1 },
        TrC::Tcp { flags: 0x002, opts: 2 },
        TrC::Tcp { flags: 0x1ff, opts: 3 },
        TrC::TcpHdr(1),
        TrC::Icmp4EchoReq,
        TrC::Icmp4(ts),
        TrC::Icmp4Raw(2),
        TrC::Icmp6EchoRep,
        TrC::Icmp6Raw(2),
        TrC::Raw(253),
    ]
}

fn limit_lens(tier: Tier, lim: usize) -> Vec<usize> {
    if tier.is_thorough() {
        let mut v: Vec<usize> = (lim - 8..=lim + 8).collect();
        v.extend([65507, 65527, 65528, 65535, 65536, 65537, 131071, 131072]);
        v.sort();
        v.dedup();
        v
    } else {
        (lim - 2..=lim + 2).collect()
    }
}

const PAYLOAD_BUF: usize = 131_072 + 64;

fn payload_buf() -> Vec<u8> {
    (0..PAYLOAD_BUF).map(|i| (i as u8).wrapping_mul(7).wrapping_add(3)).collect()
}

fn complexity(c: &Cfg) -> u64 {
    let a = match c.link {
        LinkC::None => 0,
        LinkC::Eth => 1,
        LinkC::Sll(p) => 2 + p as u64,
    };
    let b = match c.vlan {
        VlanC::None => 0,
        VlanC::Single => 1,
        VlanC::Double => 2,
        VlanC::HdrSingle => 3,
        VlanC::HdrDouble => 4,
    };
    let n = match c.net {
        NetC::V4Simple | NetC::V6Simple | NetC::Arp(_) => 0,
        NetC::V4Hdr { opts, icv } => 1 + (opts != 0) as u64 + icv.is_some() as u64,
        NetC::V6Hdr { mask, big } => 1 + mask.count_ones() as u64 + 8 * big as u64,
    };
    let t = match c.tr {
        TrC::Udp | TrC::None => 0,
        TrC::Tcp { flags, opts } => 1 + flags.count_ones() as u64 + opts as u64,
        TrC::Raw(_) => 2,
        _ => 3,
    };
    a + b + 2 * n + t
}

fn run_case(ctx: &mut Ctx, t: &Tables, pay: &[u8], c: Cfg, plen: usize, lim: Option<usize>) {
    ctx.case(
        None,
        || CaseDesc {
            shape: shape(&c),
            text: format!("{} ; payload = {} bytes, payload[i] = (i*7+3) mod 256 ; written with write(&mut Vec), write_to_vec (Vec pre-filled with 3 bytes) and write_to_slice (buffer of size() bytes)", chain(&c, t), plen),
            rank: complexity(&c) * 1_000_000 + plen as u64,
        },
        |case| {
            let o = oracle::check(&c, t, &pay[..plen], plen <= 9, case);
            let sh = shape(&c);
            case.nontrivial();
            match o {
                Outcome::Ok => {
                    case.reach(format!("ok:{}", sh));
                    if matches!(c.net, NetC::Arp(_)) {
                        case.reach("ok:arp");
                    }
                    if lim == Some(plen) {
                        case.reach("limit-exact-ok");
                    }
                    case.outcome(format!("ok:{}", sh));
                }
                Outcome::Err(class) => {
                    case.reach(format!("err:{}", class));
                    if c.tr == TrC::Udp && 8 + plen > 65535 {
                        // the UDP length field cannot hold header + payload
                        case.reach("err:payload-too-big-udp");
                    }
                    case.outcome(format!("err:{}:{}", class, sh));
                }
                Outcome::Bad => case.outcome(format!("violation:{}", sh)),
            }
        },
    );
}

// unit layout
//   [0, S*N)                 product: stacking s x net n  -> all transports x small payload lengths
//   + 1                      ARP: 13 stackings x 5 packets
//   + 8                      all 2^9 TCP flag subsets: 2 carriers x 4 option lists
//   + 8                      raw write with every ip number 0..=255 on every net
//   + 5 + 2                  fragmenting headers: one unit per ip(IpHeaders::Ipv4) net; IPv6 fragment header in small / maximum-size chains
//   + N                      limit sweeps: one unit per net
const FRAG_UNITS: u64 = 5 + 2;
/// (M, fragment offset) of the fragmenting IPv6 fragment headers
const FRAGS6: &[(bool, u16)] = &[(true, 0), (false, 1), (true, 1), (true, 181), (false, 0x1fff), (true, 0x1fff)];
/// (MF, fragment offset in 8 byte units) of the fragmenting headers; each with DF 0 and 1
const FRAGS: &[(bool, u16)] = &[(true, 0), (false, 1), (true, 1), (true, 185), (false, 0x1fff), (true, 0x1fff)];

fn frag_transports() -> Vec<TrC> {
    vec![TrC::Udp, TrC::Tcp { flags: 0x012, opts: 0 }, TrC::Tcp { flags: 0x1ff, opts: 2 }, TrC::Icmp4EchoReq, TrC::Raw(253), TrC::Raw(17), TrC::Raw(6)]
}

fn run_frag_case(ctx: &mut Ctx, t: &Tables, pay: &[u8], c: Cfg, plen: usize, df: bool, mf: bool, off: u16) {
    ctx.case(
        None,
        || CaseDesc {
            shape: format!("{}-fragmenting", shape(&c)),
            text: format!("{} but with dont_fragment:{}, more_fragments:{}, fragment_offset:{} ; payload = {} bytes, payload[i] = (i*7+3) mod 256 ; compared with the same configuration as shown (DF 1, MF 0, offset 0)", chain(&c, t), df, mf, off, plen),
            rank: (complexity(&c) + 20) * 1_000_000 + plen as u64,
        },
        |case| {
            let o = frag::check(&c, t, &pay[..plen], df, mf, off, case);
            case.nontrivial();
            match o {
                Outcome::Ok => {
                    case.reach(if off != 0 { "ok:fragmenting:offset" } else { "ok:fragmenting:mf-only" });
                    if !df {
                        case.reach("ok:fragmenting:df-clear");
                    }
                    case.outcome(format!("ok:frag:{}", shape(&c)));
                }
                Outcome::Err(class) => {
                    case.reach("err:fragmenting:payload-too-big");
                    case.outcome(format!("err:frag:{}:{}", class, shape(&c)));
                }
                Outcome::Bad => case.outcome(format!("violation:frag:{}", shape(&c))),
            }
        },
    );
}

struct Layout {
    s: u64,
    n: u64,
}
impl Layout {
    fn new() -> Layout {
        Layout { s: stackings().len() as u64, n: nets().len() as u64 }
    }
    fn total(&self) -> u64 {
        self.s * self.n + 1 + 8 + 8 + FRAG_UNITS + self.n
    }
}

impl Check for C10 {
    fn quick_is_thorough(&self) -> bool {
        true
    }
    fn id(&self) -> &'static str {
        "C10"
    }
    fn rule(&self, tier: Tier) -> String {
        let t = tables();
        format!(
            "alphabet: builder configurations = 14 link stackings {{start at ip | ethernet2 x (no vlan | single_vlan | double_vlan | vlan(Single, max pcp/dei/id) | vlan(Double)) | linux_sll x packet types 0..=7}} \
             x {} nets {{ipv4() | ipv6() | ip(Ipv4) x (options 0/40, AH none/12-byte ICV; options 4 + 1016-byte ICV) | ip(Ipv6) x all 48 representable subsets of the slots hop-by-hop, dest options, routing, final dest options, fragment(offset 0, M 0), auth; plus all six at maximum size}} \
             x {} transports {{udp | tcp x 4 option lists (none, MSS, MSS+WS+SACKperm+TS via options(), 40 bytes via options_raw()) x flags (none, all) | tcp_header x 2 | icmpv4 x all {} typed variants | icmpv4_raw x {} | icmpv4 echo helpers | icmpv6 x all {} typed variants | icmpv6_raw x {} | icmpv6 echo helpers | raw write(ip number 253, 59)}} \
             x payload lengths {}{}; plus arp x 5 packets (hw/proto address sizes 0, 1, 6/4, 16, 255) on the 13 link stackings that offer it; all 2^9 TCP flag subsets on ethernet2/ipv4 and ip/ipv6 x 4 option lists x the payload lengths; raw write with every ip number 0..=255 on every net; \
             fragmenting IPv4 headers: the 5 ip(Ipv4) nets x 14 stackings x 7 transports {{udp, tcp x 2, icmpv4 echo, raw 253/17/6}} x (MF, offset) in {{(1,0),(0,1),(1,1),(1,185),(0,8191),(1,8191)}} x DF {{0,1}} x the payload lengths (+ total-length limit-2..=limit+2 on one stacking), \
             oracle there: same size/bytes through all three writers, bytes identical to the (DF 1, MF 0, offset 0) sibling except flags/offset word and header checksum, the word carries exactly the supplied bits, header checksum verifies, strict parser accepts, returns the fragment fields, flags the payload as fragmented, decodes no transport and hands out the bytes behind the IP layer, PacketHeaders::from_ip_slice/from_ethernet_slice likewise (fragment fields in the header structs, no transport, PayloadSlice::Ip flagged fragmented); Err iff the sibling is refused; the same for ip(Ipv6) with a fragment header (all 24 slot subsets that contain it, small and maximum size) whose (M, offset) is one of {{(1,0),(0,1),(1,1),(1,181),(0,8191),(1,8191)}} on 5 transports: only the offset/M word of the fragment header may differ from the (0,0) sibling; \
             and on one stacking per (net, transport) every payload length in limit{} of the governing length field (IPv4 total length, IPv6 payload length, UDP length) for {} transports. payload[i] = i*7+3. \
             oracle: size(), write, write_to_vec, write_to_slice never panic, succeed together, give identical bytes of length size(); the reference decoder (own code from RFC 791/8200/4302/768/9293/792/4443/826, 802.1Q, LINUX_SLL; strict: every length field == real size, IPv4 header / UDP / TCP / ICMP checksums verify by an own RFC 1071 sum over an own pseudo header, UDP checksum != 0, every ether type / protocol number / next header decodes as the layer it names) and SlicedPacket::from_ethernet/from_linux_sll/from_ip accept the bytes and give back every configured field, option, extension header (RFC 8200 order) and the payload; \
             Err (all three writers) iff payload exceeds the governing field or ICMPv6 sits on IPv4, and bytes written before the error contain no length field that differs from the real size. \
             a state = one (configuration, payload length); all are distinct by construction; every state is non-trivial (a complete packet is produced or refused).",
            nets().len(),
            transports(&t).len(),
            t.i4.len(),
            t.i4raw.len(),
            t.i6.len(),
            t.i6raw.len(),
            if tier.is_thorough() { "0..=70 (every value)".to_string() } else { format!("{:?}", QUICK_LENS) },
            if tier.is_thorough() { " and 127..=129, 255..=257, 511..=513, 1023..=1025, 1471..=1473, 1499..=1501" } else { "" },
            if tier.is_thorough() { "-8..=limit+8 and 65507, 65527, 65528, 65535..=65537, 131071, 131072" } else { "-2..=limit+2" },
            if tier.is_thorough() { "all".to_string() } else { format!("{} representative", limit_transports_quick(&t).len()) },
        )
    }
    fn assumptions(&self, _tier: Tier) -> Vec<String> {
        vec![
            "field values are fixed per slot (distinct, non-default, junk in every field documented as overwritten); value domains of the fields themselves belong to C15/C09".into(),
            "routing headers are configured with Segments Left = 0 so that the IPv6 destination address is the final destination of the RFC 8200 §8.1 pseudo header".into(),
            "reading: fields that the used builder call does not take (DF/id/dscp of ipv4(), pcp/dei of single_vlan(), ack number without ack()) are not compared; ICMPv4 timestamp messages whose total size is not 20 bytes and raw writes whose ip number a parser interprets further (0,1,6,17,43,44,51,58,60) are exempt from the strict-parse clause only".into(),
            "an unreferenced extension header cannot be configured through the builder (it rewrites every next_header before writing); that error class is therefore out of reach and covered by C12".into(),
            "double tagging: any of the TPIDs 0x8100/0x88a8/0x9100 is accepted as naming a VLAN tag".into(),
        ]
    }
    fn units(&self, _tier: Tier) -> u64 {
        Layout::new().total()
    }
    fn expect_reach(&self, _tier: Tier) -> Vec<String> {
        [
            "ok:eth-vlan2-ipv6-exts-udp",
            "ok:sll-ipv4-tcp-options",
            "ok:arp",
            "err:payload-too-big-ipv4",
            "err:payload-too-big-udp",
            "err:payload-too-big-ipv6",
            "err:icmpv6-in-ipv4",
            "limit-exact-ok",
            "all-512-tcp-flags",
            "exempt:icmpv4-timestamp-with-payload-not-parsed-back",
            "ok:fragmenting:offset",
            "ok:fragmenting:mf-only",
            "ok:fragmenting:df-clear",
            "err:fragmenting:payload-too-big",
            "ok:fragmenting6:offset",
            "ok:fragmenting6:m-only",
            "ok:fragmenting6:headers-behind-fragment-header",
            "err:fragmenting6:payload-too-big",
        ]
        .iter()
        .map(|s| s.to_string())
        .collect()
    }
    fn coverage_extra(&self, tier: Tier) -> Vec<(String, String)> {
        let t = tables();
        vec![
            ("link_vlan_stackings".into(), stackings().len().to_string()),
            ("nets".into(), nets().len().to_string()),
            ("ipv6_extension_subsets".into(), v6_masks().len().to_string()),
            ("transports".into(), transports(&t).len().to_string()),
            ("small_payload_lengths".into(), small_lens(tier).len().to_string()),
        ]
    }
    fn run_unit(&self, tier: Tier, u: u64, ctx: &mut Ctx) {
        let lay = Layout::new();
        let t = tables();
        let pay = payload_buf();
        let st = stackings();
        let ns = nets();
        let lens = small_lens(tier);
        let mut u = u;

        // ---- product
        if u < lay.s * lay.n {
            let (link, vlan) = st[(u / lay.n) as usize];
            let net = ns[(u % lay.n) as usize];
            for tr in transports(&t) {
                for &plen in &lens {
                    run_case(ctx, &t, &pay, Cfg { link, vlan, net, tr }, plen, None);
                    if ctx.done() {
                        return;
                    }
                }
            }
            return;
        }
        u -= lay.s * lay.n;

        // ---- ARP
        if u == 0 {
            for &(link, vlan) in st.iter().filter(|(l, _)| *l != LinkC::None) {
                for i in 0..ARP_VARIANTS {
                    run_case(ctx, &t, &pay, Cfg { link, vlan, net: NetC::Arp(i), tr: TrC::None }, 0, None);
                }
            }
            return;
        }
        u -= 1;

        // ---- all 512 TCP flag subsets
        if u < 8 {
            let (link, net) = if u / 4 == 0 { (LinkC::Eth, NetC::V4Simple) } else { (LinkC::None, NetC::V6Simple) };
            let opts = (u % 4) as u8;
            for &plen in &lens {
                let base = Cfg { link, vlan: VlanC::None, net, tr: TrC::Tcp { flags: 0, opts } };
                ctx.case(
                    None,
                    || CaseDesc {
                        shape: format!("{}-all-flags", shape(&base)),
                        text: format!("{} with every one of the 512 flag subsets (flags value 0..=0x1ff replaces the 0 shown) ; payload = {} bytes, payload[i] = (i*7+3) mod 256", chain(&base, &t), plen),
                        rank: 50_000_000 + plen as u64,
                    },
                    |case| {
                        let mut ok = 0u64;
                        for flags in 0..512u16 {
                            let c = Cfg { tr: TrC::Tcp { flags, opts }, ..base };
                            let before = case.failed();
                            if oracle::check(&c, &t, &pay[..plen], false, case) == Outcome::Ok {
                                ok += 1;
                            } else if !before {
                                // name the flag set in a second record so that the detail of the first one can be read with it
                                case.fail("tcp-flags:subset-failed", format!("flag subset {:#05x} (bit 8 ns, then cwr ece urg ack psh rst syn fin)", flags));
                                break;
                            }
                        }
                        case.states(512);
                        case.nontrivial_n(512);
                        if ok == 512 {
                            case.reach("all-512-tcp-flags");
                        }
                        case.outcome(format!("ok:{}:all-flags", shape(&base)));
                    },
                );
            }
            return;
        }
        u -= 8;

        // ---- raw write with every ip number
        if u < 8 {
            for (ni, &net) in ns.iter().enumerate() {
                if ni as u64 % 8 != u {
                    continue;
                }
                let (link, vlan) = st[ni % st.len()];
                for n in 0..=255u8 {
                    for plen in [0usize, 9] {
                        run_case(ctx, &t, &pay, Cfg { link, vlan, net, tr: TrC::Raw(n) }, plen, None);
                    }
                }
            }
            return;
        }
        u -= 8;

        // ---- fragmenting IPv6 fragment headers (unit 5: small extension headers, unit 6: maximum size)
        if u >= 5 && u < FRAG_UNITS {
            let big = u == 6;
            for net in ns.iter().copied().filter(|n| matches!(n, NetC::V6Hdr { mask, big: b } if mask & 16 != 0 && *b == big)) {
                let NetC::V6Hdr { mask, .. } = net else { unreachable!() };
                let frag_pos = 40 + v6_ext_layers(mask, big).iter().take_while(|(k, _)| *k != 44).map(|(_, b)| 2 + b.len()).sum::<usize>();
                for (si, &(link, vlan)) in st.iter().enumerate() {
                    // every stacking for the chains with all / only the fragment slot, three stackings for the others
                    if !(mask == 16 || mask == 0x3f || si % 5 == (mask as usize) % 5) {
                        continue;
                    }
                    for tr in [TrC::Udp, TrC::Tcp { flags: 0x012, opts: 2 }, TrC::Icmp6EchoReq, TrC::Raw(253), TrC::Raw(17)] {
                        let c = Cfg { link, vlan, net, tr };
                        let mut ls = lens.clone();
                        if si == (mask as usize) % st.len() {
                            let lim = limit(&c, &t);
                            ls.extend(lim - 2..=lim + 2);
                        }
                        for &(mf, off) in FRAGS6 {
                            for &plen in &ls {
                                ctx.case(
                                    None,
                                    || CaseDesc {
                                        shape: format!("{}-fragmenting", shape(&c)),
                                        text: format!("{} but with fragment header (offset {}, M {}) ; payload = {} bytes, payload[i] = (i*7+3) mod 256 ; compared with the same configuration as shown (offset 0, M 0)", chain(&c, &t), off, mf, plen),
                                        rank: (complexity(&c) + 20) * 1_000_000 + plen as u64,
                                    },
                                    |case| {
                                        let o = frag::check_v6(&c, &t, &pay[..plen], mf, off, frag_pos, case);
                                        case.nontrivial();
                                        match o {
                                            Outcome::Ok => {
                                                case.reach(if off != 0 { "ok:fragmenting6:offset" } else { "ok:fragmenting6:m-only" });
                                                if mask & 0x28 != 0 {
                                                    case.reach("ok:fragmenting6:headers-behind-fragment-header");
                                                }
                                                case.outcome(format!("ok:frag6:{}", shape(&c)));
                                            }
                                            Outcome::Err(class) => {
                                                case.reach("err:fragmenting6:payload-too-big");
                                                case.outcome(format!("err:frag6:{}:{}", class, shape(&c)));
                                            }
                                            Outcome::Bad => case.outcome(format!("violation:frag6:{}", shape(&c))),
                                        }
                                    },
                                );
                                if ctx.done() {
                                    return;
                                }
                            }
                        }
                    }
                }
            }
            return;
        }

        // ---- fragmenting IPv4 headers
        if u < 5 {
            let net = ns.iter().copied().filter(|n| matches!(n, NetC::V4Hdr { .. })).nth(u as usize).expect("five ip(IpHeaders::Ipv4) nets");
            for (si, &(link, vlan)) in st.iter().enumerate() {
                for tr in frag_transports() {
                    let c = Cfg { link, vlan, net, tr };
                    let mut ls = lens.clone();
                    if si == (u as usize) % st.len() {
                        let lim = limit(&c, &t);
                        ls.extend(lim - 2..=lim + 2);
                    }
                    for &(mf, off) in FRAGS {
                        for df in [true, false] {
                            for &plen in &ls {
                                run_frag_case(ctx, &t, &pay, c, plen, df, mf, off);
                                if ctx.done() {
                                    return;
                                }
                            }
                        }
                    }
                }
            }
            return;
        }
        u -= FRAG_UNITS;

        // ---- limit sweeps
        let ni = u as usize;
        let net = ns[ni];
        let trs = if tier.is_thorough() { transports(&t) } else { limit_transports_quick(&t) };
        for (ti, tr) in trs.into_iter().enumerate() {
            let (link, vlan) = st[(ni + ti) % st.len()];
            let c = Cfg { link, vlan, net, tr };
            let lim = limit(&c, &t);
            for plen in limit_lens(tier, lim) {
                run_case(ctx, &t, &pay, c, plen, Some(lim));
                if ctx.done() {
                    return;
                }
            }
        }
    }
}
