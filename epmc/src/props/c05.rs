//! C05 — lax parsing extends strict parsing and flags truncation honestly.
//!
//! E1 sweeps x all lax entry points, each paired with its strict sibling.
//! (1) strict Ok  => lax returns the same layers and payload, no stop error, nothing incomplete.
//! (2) otherwise  => lax result == reference lax decoding (documented fall-backs applied):
//!     every layer in front of the fault as the formats prescribe, stop error on the faulty
//!     layer, `incomplete` exactly when the layer's own length field promised more than the
//!     slice holds (then the slice is the length source);
//! (3) lax Err    <=> the very first header of the door is undecodable.

use crate::fw::*;
use crate::mem::rel;
use crate::pkt::conv::{self, CErr, ToCErr};
use crate::pkt::gen::Door;
use crate::pkt::refdec::{self, RLayer, RefResult, RK};
use crate::pkt::sweep;
use etherparse::err::Layer;
use etherparse::*;

pub struct C05;

/// lax whole-packet style result against the reference lax decoding
fn judge_lax(api: &'static str, case: &mut Case, want: &RefResult, got: Result<(Vec<RLayer>, Option<(CErr, Layer)>), CErr>, layers_err: Option<String>) {
    case.eval();
    if let Some(e) = layers_err {
        case.fail(format!("result-not-observable:{}", api), format!("{}: {}", api, e));
        return;
    }
    let first_stop = want.stop.as_ref().map(|s| s.first).unwrap_or(false);
    match got {
        Err(e) => {
            match &want.stop {
                Some(st) if st.first => {
                    if let Err(why) = conv::explain(&e, st, false) {
                        case.fail(format!("error-names-no-real-fault:{}:{}", api, e.class()), format!("{}: {:?}: {}", api, e, why));
                    }
                }
                _ => case.fail(
                    format!("lax-err-although-first-header-decodable:{}:{}", api, e.class()),
                    format!("{} returned Err({:?}) but the first header is decodable; reference: {}", api, e, want.shape()),
                ),
            }
        }
        Ok((layers, stop)) => {
            if first_stop {
                case.fail(format!("lax-ok-although-first-header-undecodable:{}", api), format!("{} returned Ok, reference: {}", api, want.shape()));
                return;
            }
            for (sig, d) in conv::compare_layers(api, &want.layers, &layers, true) {
                case.fail(sig, d);
            }
            match (&stop, &want.stop) {
                (None, None) => {}
                (Some((e, l)), None) => case.fail(format!("stop-error-without-fault:{}:{}", api, e.class()), format!("{}: stop error {:?} on {:?} but no layer is faulty (reference {})", api, e, l, want.shape())),
                (None, Some(st)) => case.fail(
                    format!("fault-not-reported-as-stop-error:{}:{:?}:{}", api, st.kind, st.faults.iter().map(refdec::fault_class).collect::<Vec<_>>().join("+")),
                    format!("{}: no stop error although the {:?} layer at {} has {:?}", api, st.kind, st.off, st.faults),
                ),
                (Some((e, l)), Some(st)) => {
                    let kinds = conv::kinds_of_layer(*l);
                    if !kinds.contains(&st.kind) {
                        case.fail(format!("stop-layer-wrong:{}:{:?}:{:?}", api, l, st.kind), format!("{}: stop error recorded on {:?} but the fault is in the {:?} layer at offset {}", api, l, st.kind, st.off));
                    }
                    if let Err(why) = conv::explain(e, st, false) {
                        case.fail(format!("error-names-no-real-fault:{}:{}:{:?}", api, e.class(), st.kind), format!("{}: {:?}: {}", api, e, why));
                    }
                }
            }
        }
    }
}

/// clause (1): strict Ok => lax identical
fn same_as_strict(api: &'static str, case: &mut Case, strict: Option<&Vec<RLayer>>, lax: Option<&(Vec<RLayer>, Option<(CErr, Layer)>)>) {
    if let Some(s) = strict {
        match lax {
            None => case.fail(format!("strict-ok-lax-err:{}", api), format!("{}: the strict sibling accepts the input but lax returned Err", api)),
            Some((l, stop)) => {
                if stop.is_some() {
                    case.fail(format!("strict-ok-lax-stop:{}", api), format!("{}: the strict sibling accepts the input but lax reports stop error {:?}", api, stop));
                }
                if l.iter().any(|x| x.incomplete) {
                    case.fail(format!("strict-ok-lax-incomplete:{}", api), format!("{}: the strict sibling accepts the input but lax marks a payload incomplete", api));
                }
                if s.len() != l.len() {
                    case.fail(format!("strict-ok-lax-layers-differ:{}", api), format!("{}: strict layers {:?} lax layers {:?}", api, s.iter().map(|x| x.kind).collect::<Vec<_>>(), l.iter().map(|x| x.kind).collect::<Vec<_>>()));
                } else {
                    for (a, b) in s.iter().zip(l.iter()) {
                        if a != b {
                            case.fail(format!("strict-ok-lax-layer-differs:{}:{:?}", api, a.kind), format!("{}: strict {:?} vs lax {:?}", api, a, b));
                        }
                    }
                }
            }
        }
    }
}

/// clause (2), differential part: where strict parsing fails on a fault that lax parsing cannot recover from either
/// (the reference stops at the same place in both modes), the stop error lax records is the very fault strict reports
fn same_fault_as_strict(api: &'static str, case: &mut Case, strict_err: Option<CErr>, lax_stop: Option<&(CErr, Layer)>, strict_want: &RefResult, lax_want: &RefResult) {
    if let (Some(se), Some((le, _))) = (strict_err, lax_stop) {
        let same_place = match (&strict_want.stop, &lax_want.stop) {
            (Some(a), Some(b)) => a.off == b.off && a.kind == b.kind && a.faults == b.faults && a.avail == b.avail,
            _ => false,
        };
        let multi = strict_want.stop.as_ref().map(|s| s.faults.len() > 1).unwrap_or(false);
        // the length source may legitimately be stated less precisely by one of the two (the slice instead of the field
        // that bounds the data: C07 allows the slice everywhere); everything else has to coincide
        let norm = |e: &CErr, other: &CErr| -> CErr {
            match (e, other) {
                (CErr::Len { required, len, src, layer, off }, CErr::Len { src: s2, .. }) if *src == crate::pkt::refdec::Src::Slice || *s2 == crate::pkt::refdec::Src::Slice => {
                    let _ = src;
                    CErr::Len { required: *required, len: *len, src: crate::pkt::refdec::Src::Slice, layer: *layer, off: *off }
                }
                (e, _) => e.clone(),
            }
        };
        let (se, le) = (norm(&se, le), norm(le, &se));
        let le = &le;
        if same_place && !multi && se != *le {
            let what = match (&se, le) {
                (CErr::Len { off: o1, .. }, CErr::Len { off: o2, .. }) if o1 != o2 => "offset",
                (CErr::Len { src: s1, .. }, CErr::Len { src: s2, .. }) if s1 != s2 => "len_source",
                (CErr::Len { layer: l1, .. }, CErr::Len { layer: l2, .. }) if l1 != l2 => "layer",
                (CErr::Len { .. }, CErr::Len { .. }) => "lengths",
                _ => "kind",
            };
            case.fail(format!("stop-error-differs-from-strict-error:{}:{}:{}", api, what, se.class()), format!("{}: strict parsing fails with {:?}, lax records {:?} for the same fault", api, se, le));
        }
    }
}

fn stop_of(e: &Option<(err::packet::SliceError, Layer)>) -> Option<(CErr, Layer)> {
    e.as_ref().map(|(e, l)| (e.cerr(), *l))
}

/// expected (offset,len) of the payload a struct style lax result hands out
fn expected_final_payload(want: &RefResult, b: &[u8]) -> Option<(usize, usize)> {
    if want.stop.is_some() {
        return want.stop_payload;
    }
    match want.layers.last() {
        None => Some((0, b.len())),
        Some(l) if l.kind == RK::Arp => Some((0, 0)),
        Some(l) if matches!(l.kind, RK::Ah | RK::Hbh | RK::Dest | RK::Routing | RK::Frag) => want.net().map(|n| n.pay),
        Some(l) => Some(l.pay),
    }
}

pub fn check_case(door: Door, b: &[u8], case: &mut Case) {
    let want = refdec::decode(door, b, true);
    let strict_want = refdec::decode(door, b, false);
    case.outcome(format!("{}:{}{}", super::c03::door_class(door), want.shape(), if want.layers.iter().any(|l| l.incomplete) { ":incomplete" } else { "" }));
    match &want.stop {
        Some(st) => case.reach(format!("lax-stop:{:?}:{}{}", st.kind, st.faults.iter().map(refdec::fault_class).collect::<Vec<_>>().join("+"), if st.first { ":first" } else { "" })),
        None => case.reach(if strict_want.stop.is_some() { "lax-ok-strict-err" } else { "lax-ok-strict-ok" }.to_string()),
    }
    for l in &want.layers {
        if l.incomplete {
            case.reach(format!("incomplete:{:?}", l.kind));
        }
    }
    if !want.layers.is_empty() {
        case.nontrivial();
    }

    // struct style lax decoders: payload range + stop / err verdicts (the headers themselves are C04's business)
    // the struct family ends an IPv6 extension chain at the first header kind that no longer fits the struct (documented)
    let want_s = refdec::decode_opts(door, b, true, true);
    let judge_headers = |api: &'static str, case: &mut Case, r: Result<&LaxPacketHeaders, CErr>, strict: Option<Result<&PacketHeaders, ()>>| {
        let want = &want_s;
        case.eval();
        let first_stop = want.stop.as_ref().map(|s| s.first).unwrap_or(false);
        match r {
            Err(e) => match &want.stop {
                Some(st) if st.first => {
                    if let Err(why) = conv::explain(&e, st, false) {
                        case.fail(format!("error-names-no-real-fault:{}:{}", api, e.class()), format!("{}: {:?}: {}", api, e, why));
                    }
                }
                _ => case.fail(format!("lax-err-although-first-header-decodable:{}:{}", api, e.class()), format!("{}: Err({:?}); reference {}", api, e, want.shape())),
            },
            Ok(h) => {
                if first_stop {
                    case.fail(format!("lax-ok-although-first-header-undecodable:{}", api), format!("{}: Ok; reference {}", api, want.shape()));
                    return;
                }
                match (stop_of(&h.stop_err), &want.stop) {
                    (None, None) => {}
                    (Some((e, l)), None) => case.fail(format!("stop-error-without-fault:{}:{}", api, e.class()), format!("{}: stop error {:?} on {:?}; reference {}", api, e, l, want.shape())),
                    (None, Some(st)) => case.fail(
                        format!("fault-not-reported-as-stop-error:{}:{:?}:{}", api, st.kind, st.faults.iter().map(refdec::fault_class).collect::<Vec<_>>().join("+")),
                        format!("{}: no stop error although the {:?} layer at {} has {:?}", api, st.kind, st.off, st.faults),
                    ),
                    (Some((e, l)), Some(st)) => {
                        if !conv::kinds_of_layer(l).contains(&st.kind) {
                            case.fail(format!("stop-layer-wrong:{}:{:?}:{:?}", api, l, st.kind), format!("{}: stop error on {:?} but the fault is in the {:?} layer at {}", api, l, st.kind, st.off));
                        }
                        if let Err(why) = conv::explain(&e, st, false) {
                            case.fail(format!("error-names-no-real-fault:{}:{}:{:?}", api, e.class(), st.kind), format!("{}: {:?}: {}", api, e, why));
                        }
                    }
                }
                // number of decoded headers
                let want_exts = want.exts().len();
                if h.link_exts.len() != want_exts || h.net.is_some() != want.net().is_some() || h.transport.is_some() != want.transport().is_some() {
                    case.fail(
                        format!("layer-sequence:{}", api),
                        format!("{}: {} link exts, net {}, transport {}; reference {}", api, h.link_exts.len(), h.net.is_some(), h.transport.is_some(), want.shape()),
                    );
                }
                // payload
                if let Some((wo, wl)) = expected_final_payload(want, b) {
                    match rel(b, h.payload.slice()) {
                        Ok((o, l)) => {
                            if l != wl || (l != 0 && o != wo) {
                                case.fail(
                                    format!("payload-range:{}:{}", api, payload_variant(&h.payload)),
                                    format!("{}: payload {} at ({},{}) but the formats prescribe ({},{}); reference {}", api, payload_variant(&h.payload), o, l, wo, wl, want.shape()),
                                );
                            }
                        }
                        Err(e) => case.fail(format!("result-not-observable:{}", api), e),
                    }
                }
                // clause (4) for the payload the struct decoder hands out: incomplete exactly when the length field that
                // bounds it (IP length field, else the MACsec short length of the last link extension) promised more
                let want_inc = match want.net() {
                    Some(n) if n.kind != RK::Arp => n.incomplete,
                    Some(_) => false,
                    None => want.layers.iter().rev().find(|l| matches!(l.kind, RK::Eth2 | RK::Sll | RK::Vlan | RK::Macsec)).map(|l| l.kind == RK::Macsec && l.incomplete).unwrap_or(false),
                };
                if lax_payload_incomplete(&h.payload) != want_inc {
                    case.fail(
                        format!("incomplete-flag:{}:payload:{}", api, payload_variant(&h.payload)),
                        format!("{}: payload {} incomplete={} but the length field bounding it {} more than the slice holds; reference {}", api, payload_variant(&h.payload), lax_payload_incomplete(&h.payload), if want_inc { "promised" } else { "did not promise" }, want.shape()),
                    );
                }
                // clause (1) against the strict struct decoder
                if let Some(Ok(s)) = strict {
                    if h.stop_err.is_some() {
                        case.fail(format!("strict-ok-lax-stop:{}", api), format!("{}: strict accepts, lax stop error {:?}", api, h.stop_err));
                    }
                    if h.link != s.link || h.link_exts[..] != s.link_exts[..] || h.net != s.net || h.transport != s.transport {
                        case.fail(format!("strict-ok-lax-headers-differ:{}", api), format!("{}: strict {:?} vs lax {:?}", api, s, h));
                    }
                    let (sp, lp) = (rel(b, s.payload.slice()), rel(b, h.payload.slice()));
                    let same = match (&sp, &lp) {
                        (Ok(a), Ok(c)) => a.1 == c.1 && (a.1 == 0 || a.0 == c.0),
                        _ => false,
                    };
                    if !same {
                        case.fail(
                            format!("strict-ok-lax-payload-differs:{}:{}", api, payload_variant(&h.payload)),
                            format!("{}: strict payload {:?} ({:?}) vs lax payload {:?} ({})", api, sp, std::mem::discriminant(&s.payload), lp, payload_variant(&h.payload)),
                        );
                    }
                    if lax_payload_incomplete(&h.payload) {
                        case.fail(format!("strict-ok-lax-incomplete:{}", api), format!("{}: strict accepts, lax payload marked incomplete", api));
                    }
                }
            }
        }
    };

    match door {
        Door::Eth2 => {
            case.at("LaxSlicedPacket::from_ethernet");
            let r = LaxSlicedPacket::from_ethernet(b);
            let (got, lerr) = lax_sliced_result(b, r.as_ref().map_err(|e| e.cerr()));
            let sr = SlicedPacket::from_ethernet(b);
            same_fault_as_strict("LaxSlicedPacket::from_ethernet", case, sr.as_ref().err().map(|e| e.cerr()), got.as_ref().ok().and_then(|g| g.1.as_ref()), &strict_want, &want);
            let s = sr.ok().and_then(|p| conv::sliced_layers(b, &p).ok());
            same_as_strict("LaxSlicedPacket::from_ethernet", case, s.as_ref(), got.as_ref().ok());
            judge_lax("LaxSlicedPacket::from_ethernet", case, &want, got, lerr);
            if let Some(p) = r.as_ref().ok() {
                judge_lax_views("LaxSlicedPacket::from_ethernet", case, door, b, &want, p);
            }
            case.at("LaxPacketHeaders::from_ethernet");
            let r = LaxPacketHeaders::from_ethernet(b);
            let s = PacketHeaders::from_ethernet_slice(b);
            judge_headers("LaxPacketHeaders::from_ethernet", case, r.as_ref().map_err(|e| e.cerr()), Some(s.as_ref().map_err(|_| ())));
        }
        Door::Sll => {
            case.at("LaxPacketHeaders::from_linux_sll");
            let r = LaxPacketHeaders::from_linux_sll(b);
            judge_headers("LaxPacketHeaders::from_linux_sll", case, r.as_ref().map_err(|e| e.cerr()), None);
            // strict sibling of the same family does not exist; compare with the strict slicer: strict Ok => no stop
            if let (Ok(h), Ok(_)) = (&r, SlicedPacket::from_linux_sll(b)) {
                if h.stop_err.is_some() {
                    case.fail("strict-ok-lax-stop:LaxPacketHeaders::from_linux_sll", format!("SlicedPacket::from_linux_sll accepts, lax stop error {:?}", h.stop_err));
                }
            }
        }
        Door::Ether(t) => {
            case.at("LaxSlicedPacket::from_ether_type");
            let r = LaxSlicedPacket::from_ether_type(EtherType(t), b);
            let (got, lerr) = lax_sliced_result(b, Ok(&r));
            let sr = SlicedPacket::from_ether_type(EtherType(t), b);
            // (lax dispatches on the version nibble: only comparable where strict and lax reference stop at the same place)
            same_fault_as_strict("LaxSlicedPacket::from_ether_type", case, sr.as_ref().err().map(|e| e.cerr()), got.as_ref().ok().and_then(|g| g.1.as_ref()), &strict_want, &want);
            let s = sr.ok().and_then(|p| conv::sliced_layers(b, &p).ok());
            same_as_strict("LaxSlicedPacket::from_ether_type", case, s.as_ref(), got.as_ref().ok());
            judge_lax("LaxSlicedPacket::from_ether_type", case, &want, got, lerr);
            if let Some(p) = Some(&r) {
                judge_lax_views("LaxSlicedPacket::from_ether_type", case, door, b, &want, p);
            }
            case.at("LaxPacketHeaders::from_ether_type");
            let r = LaxPacketHeaders::from_ether_type(EtherType(t), b);
            let s = PacketHeaders::from_ether_type(EtherType(t), b);
            judge_headers("LaxPacketHeaders::from_ether_type", case, Ok(&r), Some(s.as_ref().map_err(|_| ())));
            if t == 0x88E5 {
                case.at("LaxMacsecSlice::from_slice");
                let r = LaxMacsecSlice::from_slice(b);
                let mut w1 = want.clone();
                if !w1.layers.is_empty() {
                    w1.layers.truncate(1);
                    w1.stop = None;
                } else if let Some(st) = w1.stop.as_mut() {
                    st.first = true;
                }
                let got = match &r {
                    Ok(m) => conv::lax_macsec_layer(b, m).map(|l| (vec![l], None)).map_err(|e| e),
                    Err(_) => Ok((vec![], None)),
                };
                let s = MacsecSlice::from_slice(b).ok().and_then(|m| conv::macsec_layer(b, &m).ok()).map(|l| vec![l]);
                match (r.as_ref(), got) {
                    (Ok(_), Ok(g)) => {
                        same_as_strict("LaxMacsecSlice::from_slice", case, s.as_ref(), Some(&g));
                        judge_lax("LaxMacsecSlice::from_slice", case, &w1, Ok(g), None)
                    }
                    (Ok(_), Err(e)) => judge_lax("LaxMacsecSlice::from_slice", case, &w1, Ok((vec![], None)), Some(e)),
                    (Err(e), _) => judge_lax("LaxMacsecSlice::from_slice", case, &w1, Err(e.cerr()), None),
                }
            }
        }
        Door::Ip => {
            case.at("LaxSlicedPacket::from_ip");
            let r = LaxSlicedPacket::from_ip(b);
            let (got, lerr) = lax_sliced_result(b, r.as_ref().map_err(|e| e.cerr()));
            let sr = SlicedPacket::from_ip(b);
            same_fault_as_strict("LaxSlicedPacket::from_ip", case, sr.as_ref().err().map(|e| e.cerr()), got.as_ref().ok().and_then(|g| g.1.as_ref()), &strict_want, &want);
            let s = sr.ok().and_then(|p| conv::sliced_layers(b, &p).ok());
            same_as_strict("LaxSlicedPacket::from_ip", case, s.as_ref(), got.as_ref().ok());
            judge_lax("LaxSlicedPacket::from_ip", case, &want, got, lerr);
            if let Some(p) = r.as_ref().ok() {
                judge_lax_views("LaxSlicedPacket::from_ip", case, door, b, &want, p);
            }
            case.at("LaxPacketHeaders::from_ip");
            let r = LaxPacketHeaders::from_ip(b);
            let s = PacketHeaders::from_ip_slice(b);
            judge_headers("LaxPacketHeaders::from_ip", case, r.as_ref().map_err(|e| e.cerr()), Some(s.as_ref().map_err(|_| ())));

            // single layer lax IP decoders
            let wip = refdec::decode_ip_only(b, true, None);
            case.at("LaxIpSlice::from_slice");
            let r = LaxIpSlice::from_slice(b);
            let got = match &r {
                Ok((i, stop)) => {
                    let mut v = vec![];
                    let e = match i {
                        LaxIpSlice::Ipv4(x) => conv::lax_ipv4_layers(b, x, &mut v),
                        LaxIpSlice::Ipv6(x) => conv::lax_ipv6_layers(b, x, &mut v),
                    };
                    e.map(|_| (v, stop.as_ref().map(|(e, l)| (e.cerr(), *l))))
                }
                Err(_) => Ok((vec![], None)),
            };
            let s = IpSlice::from_slice(b).ok().and_then(|p| {
                let mut v = vec![];
                match &p {
                    IpSlice::Ipv4(i) => conv::ipv4_layers(b, i, &mut v).ok()?,
                    IpSlice::Ipv6(i) => conv::ipv6_layers(b, i, &mut v).ok()?,
                }
                Some(v)
            });
            same_fault_as_strict("LaxIpSlice::from_slice", case, IpSlice::from_slice(b).err().map(|e| e.cerr()), got.as_ref().ok().and_then(|g| g.1.as_ref()), &refdec::decode_ip_only(b, false, None), &wip);
            finish_single("LaxIpSlice::from_slice", case, &wip, r.as_ref().err().map(|e| e.cerr()), got, s);

            let w4 = refdec::decode_ip_only(b, true, Some(4));
            case.at("LaxIpv4Slice::from_slice");
            let r = LaxIpv4Slice::from_slice(b);
            let got = match &r {
                Ok((i, stop)) => {
                    let mut v = vec![];
                    conv::lax_ipv4_layers(b, i, &mut v).map(|_| (v, stop.as_ref().map(|e| (e.cerr(), Layer::IpAuthHeader))))
                }
                Err(_) => Ok((vec![], None)),
            };
            let s = Ipv4Slice::from_slice(b).ok().and_then(|p| {
                let mut v = vec![];
                conv::ipv4_layers(b, &p, &mut v).ok()?;
                Some(v)
            });
            same_fault_as_strict("LaxIpv4Slice::from_slice", case, Ipv4Slice::from_slice(b).err().map(|e| e.cerr()), got.as_ref().ok().and_then(|g| g.1.as_ref()), &refdec::decode_ip_only(b, false, Some(4)), &w4);
            finish_single("LaxIpv4Slice::from_slice", case, &w4, r.as_ref().err().map(|e| e.cerr()), got, s);

            let w6 = refdec::decode_ip_only(b, true, Some(6));
            case.at("LaxIpv6Slice::from_slice");
            let r = LaxIpv6Slice::from_slice(b);
            let got = match &r {
                Ok((i, stop)) => {
                    let mut v = vec![];
                    conv::lax_ipv6_layers(b, i, &mut v).map(|_| (v, stop.as_ref().map(|(e, l)| (e.cerr(), *l))))
                }
                Err(_) => Ok((vec![], None)),
            };
            let s6 = Ipv6Slice::from_slice(b).ok().and_then(|p| {
                let mut v = vec![];
                conv::ipv6_layers(b, &p, &mut v).ok()?;
                Some(v)
            });
            same_fault_as_strict("LaxIpv6Slice::from_slice", case, Ipv6Slice::from_slice(b).err().map(|e| e.cerr()), got.as_ref().ok().and_then(|g| g.1.as_ref()), &refdec::decode_ip_only(b, false, Some(6)), &w6);
            finish_single("LaxIpv6Slice::from_slice", case, &w6, r.as_ref().err().map(|e| e.cerr()), got, s6.clone());

            // Ipv6Slice::from_slice_lax: lax about the payload length, strict about the extension chain
            case.at("Ipv6Slice::from_slice_lax");
            let r = Ipv6Slice::from_slice_lax(b);
            case.eval();
            match (&r, &w6.stop) {
                (Ok(p), None) => {
                    let mut v = vec![];
                    match conv::ipv6_layers(b, p, &mut v) {
                        Ok(()) => {
                            // the strict result type has no incomplete flag
                            let mut w = w6.layers.clone();
                            for l in w.iter_mut() {
                                l.incomplete = false;
                            }
                            for (sig, d) in conv::compare_layers("Ipv6Slice::from_slice_lax", &w, &v, true) {
                                case.fail(sig, d);
                            }
                            if let Some(s) = &s6 {
                                if *s != v {
                                    case.fail("strict-ok-lax-layer-differs:Ipv6Slice::from_slice_lax", format!("strict {:?} vs lax {:?}", s, v));
                                }
                            }
                        }
                        Err(e) => case.fail("result-not-observable:Ipv6Slice::from_slice_lax", e),
                    }
                }
                (Ok(_), Some(st)) => case.fail(format!("accepts-faulty-input:Ipv6Slice::from_slice_lax:{:?}", st.kind), format!("Ok although the {:?} layer at {} has {:?}", st.kind, st.off, st.faults)),
                (Err(e), None) => case.fail(format!("rejects-well-formed-input:Ipv6Slice::from_slice_lax:{}", e.cerr().class()), format!("{:?}; reference {}", e, w6.shape())),
                (Err(e), Some(st)) => {
                    if let Err(why) = conv::explain(&e.cerr(), st, false) {
                        case.fail(format!("error-names-no-real-fault:Ipv6Slice::from_slice_lax:{}", e.cerr().class()), format!("{:?}: {}", e, why));
                    }
                }
            }
        }
        Door::Ipv4Exts(n) => {
            case.at("Ipv4ExtensionsSlice::from_slice_lax");
            let (e, next, rest, stop) = Ipv4ExtensionsSlice::from_slice_lax(IpNumber(n), b);
            let got = match &e.auth {
                Some(a) => conv::auth_layer(b, a).map(|l| vec![l]),
                None => Ok(vec![]),
            };
            let strict = Ipv4ExtensionsSlice::from_slice(IpNumber(n), b).ok().and_then(|(e, _, _)| match &e.auth {
                Some(a) => conv::auth_layer(b, a).ok().map(|l| vec![l]),
                None => Some(vec![]),
            });
            let stop_c = stop.as_ref().map(|e| (e.cerr(), Layer::IpAuthHeader));
            match got {
                Ok(v) => {
                    same_as_strict("Ipv4ExtensionsSlice::from_slice_lax", case, strict.as_ref(), Some(&(v.clone(), stop_c.clone())));
                    judge_lax("Ipv4ExtensionsSlice::from_slice_lax", case, &want, Ok((v, stop_c)), None);
                }
                Err(x) => case.fail("result-not-observable:Ipv4ExtensionsSlice::from_slice_lax", x),
            }
            exts_tail("Ipv4ExtensionsSlice::from_slice_lax", case, &want, n, next.0, rest, b);
        }
        Door::Ipv6Exts(n) => {
            case.at("Ipv6ExtensionsSlice::from_slice_lax");
            let (e, next, rest, stop) = Ipv6ExtensionsSlice::from_slice_lax(IpNumber(n), b);
            let mut v = vec![];
            let r = conv::ipv6_ext_layers(b, &e, &mut v);
            let strict = Ipv6ExtensionsSlice::from_slice(IpNumber(n), b).ok().and_then(|(e, _, _)| {
                let mut v = vec![];
                conv::ipv6_ext_layers(b, &e, &mut v).ok()?;
                Some(v)
            });
            let stop_c = stop.as_ref().map(|(e, l)| (e.cerr(), *l));
            match r {
                Ok(()) => {
                    same_as_strict("Ipv6ExtensionsSlice::from_slice_lax", case, strict.as_ref(), Some(&(v.clone(), stop_c.clone())));
                    judge_lax("Ipv6ExtensionsSlice::from_slice_lax", case, &want, Ok((v, stop_c)), None);
                }
                Err(x) => case.fail("result-not-observable:Ipv6ExtensionsSlice::from_slice_lax", x),
            }
            exts_tail("Ipv6ExtensionsSlice::from_slice_lax", case, &want, n, next.0, rest, b);
            let frag = want.layers.iter().any(|l| l.kind == RK::Frag && l.fragmented);
            if e.is_fragmenting_payload() != frag {
                case.fail("fragmented-flag:Ipv6ExtensionsSlice::from_slice_lax", format!("is_fragmenting_payload()={} but the decoded fragment headers say {}", e.is_fragmenting_payload(), frag));
            }
        }
        Door::Transport(17) => {
            case.at("UdpSlice::from_slice_lax");
            let r = UdpSlice::from_slice_lax(b);
            let got = match &r {
                Ok(u) => conv::udp_layer(b, u).map(|l| (vec![l], None)),
                Err(_) => Ok((vec![], None)),
            };
            let mut w = want.clone();
            if let Some(st) = w.stop.as_mut() {
                st.first = true;
            }
            let s = UdpSlice::from_slice(b).ok().and_then(|u| conv::udp_layer(b, &u).ok()).map(|l| vec![l]);
            match (r.as_ref(), got) {
                (Ok(_), Ok(g)) => {
                    same_as_strict("UdpSlice::from_slice_lax", case, s.as_ref(), Some(&g));
                    judge_lax("UdpSlice::from_slice_lax", case, &w, Ok(g), None)
                }
                (Ok(_), Err(e)) => judge_lax("UdpSlice::from_slice_lax", case, &w, Ok((vec![], None)), Some(e)),
                (Err(e), _) => judge_lax("UdpSlice::from_slice_lax", case, &w, Err(e.cerr()), None),
            }
        }
        Door::Transport(_) | Door::TcpOpts | Door::NdpOpts => {}
    }
}

fn finish_single(api: &'static str, case: &mut Case, want: &RefResult, err: Option<CErr>, got: Result<(Vec<RLayer>, Option<(CErr, Layer)>), String>, strict: Option<Vec<RLayer>>) {
    match (err, got) {
        (Some(e), _) => {
            same_as_strict(api, case, strict.as_ref(), None);
            judge_lax(api, case, want, Err(e), None)
        }
        (None, Ok(g)) => {
            same_as_strict(api, case, strict.as_ref(), Some(&g));
            judge_lax(api, case, want, Ok(g), None)
        }
        (None, Err(e)) => judge_lax(api, case, want, Ok((vec![], None)), Some(e)),
    }
}

fn exts_tail(api: &'static str, case: &mut Case, want: &RefResult, start: u8, next: u8, rest: &[u8], b: &[u8]) {
    // behind the decoded headers: next protocol number and the rest of the data (from the failing header on)
    let (wn, wo) = match (&want.stop, want.layers.last()) {
        (Some(st), last) => (last.map(|l| l.fields[0].1 as u8).unwrap_or(start), st.off),
        (None, Some(l)) => (l.fields[0].1 as u8, l.off + l.hlen),
        (None, None) => (start, 0),
    };
    if next != wn || rest.len() != b.len() - wo {
        case.fail(format!("exts-rest:{}", api), format!("{}: next {} rest {} bytes, expected next {} rest {} bytes (reference {})", api, next, rest.len(), wn, b.len() - wo, want.shape()));
    }
}

/// derived views of a lax result (`ether_payload()`, `ip_payload()`, `vlan()`, `vlan_ids()`) against the layers the
/// reference decodes in front of the fault
fn judge_lax_views(api: &'static str, case: &mut Case, door: Door, b: &[u8], want: &RefResult, p: &LaxSlicedPacket) {
    if want.stop.as_ref().map(|s| s.first).unwrap_or(false) {
        return;
    }
    case.eval();
    let ed = match door {
        Door::Ether(t) => Some(t),
        _ => None,
    };
    match conv::views_lax(b, p) {
        Ok(v) => {
            for (sig, d) in conv::check_views(api, ed, b.len(), &want.layers, &v) {
                case.fail(sig, d);
            }
        }
        Err(e) => case.fail(format!("result-not-observable:{}:views", api), format!("{}: {}", api, e)),
    }
}

fn lax_sliced_result(b: &[u8], r: Result<&LaxSlicedPacket, CErr>) -> (Result<(Vec<RLayer>, Option<(CErr, Layer)>), CErr>, Option<String>) {
    match r {
        Err(e) => (Err(e), None),
        Ok(p) => match conv::lax_sliced_layers(b, p) {
            Ok(l) => (Ok((l, stop_of(&p.stop_err))), None),
            Err(e) => (Ok((vec![], None)), Some(e)),
        },
    }
}

pub fn payload_variant(p: &LaxPayloadSlice) -> &'static str {
    match p {
        LaxPayloadSlice::Empty => "Empty",
        LaxPayloadSlice::Ether(_) => "Ether",
        LaxPayloadSlice::MacsecModified { .. } => "MacsecModified",
        LaxPayloadSlice::Ip(_) => "Ip",
        LaxPayloadSlice::Udp { .. } => "Udp",
        LaxPayloadSlice::Tcp { .. } => "Tcp",
        LaxPayloadSlice::Icmpv4 { .. } => "Icmpv4",
        LaxPayloadSlice::Icmpv6 { .. } => "Icmpv6",
        LaxPayloadSlice::LinuxSll(_) => "LinuxSll",
    }
}
pub fn lax_payload_incomplete(p: &LaxPayloadSlice) -> bool {
    match p {
        LaxPayloadSlice::Empty | LaxPayloadSlice::LinuxSll(_) => false,
        LaxPayloadSlice::Ether(e) => e.incomplete,
        LaxPayloadSlice::Ip(i) => i.incomplete,
        LaxPayloadSlice::MacsecModified { incomplete, .. } | LaxPayloadSlice::Udp { incomplete, .. } | LaxPayloadSlice::Tcp { incomplete, .. } | LaxPayloadSlice::Icmpv4 { incomplete, .. } | LaxPayloadSlice::Icmpv6 { incomplete, .. } => *incomplete,
    }
}

impl Check for C05 {
    fn id(&self) -> &'static str {
        "C05"
    }
    fn rule(&self, tier: Tier) -> String {
        format!(
            "alphabet/bound: {}. Each case = (door, byte string) goes through every lax entry point of the door (LaxSlicedPacket x3, LaxPacketHeaders x4, LaxIpSlice, LaxIpv4Slice, LaxIpv6Slice, Ipv6Slice::from_slice_lax, LaxMacsecSlice, UdpSlice::from_slice_lax, Ipv4/Ipv6ExtensionsSlice::from_slice_lax) and its strict sibling. \
             oracle: (1) strict Ok => lax returns equal layers/ranges/fields/sources, no stop error, nothing incomplete, same payload; (2) lax result == reference lax decoding (documented fall-backs: length field above the slice -> incomplete + slice as source; IPv4 total length below header, UDP length below 8 -> slice): layers in front of the fault, stop error on the faulty layer naming a real fault; (3) lax Err <=> the first header of the door is undecodable; (4) incomplete <=> that layer's own length field promised more than the slice holds. \
             distinct = distinct (door, bytes); non-trivial = the reference decodes at least one layer.",
            sweep::describe_bounds(tier)
        )
    }
    fn assumptions(&self, _tier: Tier) -> Vec<String> {
        vec![
            "reading: lax IP decoding behind the IPv4/IPv6 ether types dispatches on the version nibble (what LaxIpSlice documents); not flagged".into(),
            "a VLAN payload behind an incomplete MACsec payload is not itself expected to be flagged incomplete (the clause is per length field)".into(),
        ]
    }
    fn units(&self, tier: Tier) -> u64 {
        sweep::units(tier)
    }
    fn dedup_bits(&self, tier: Tier) -> u32 {
        if tier.is_thorough() {
            30
        } else {
            26
        }
    }
    fn expect_reach(&self, _tier: Tier) -> Vec<String> {
        ["lax-ok-strict-ok", "lax-ok-strict-err", "incomplete:Macsec", "incomplete:Ipv4", "incomplete:Ipv6", "lax-stop:Eth2:short:first", "lax-stop:Vlan:short", "lax-stop:Hbh:content:ipv6.hop_by_hop_not_at_start", "lax-stop:Tcp:content:tcp.data_offset", "lax-stop:Ah:content:ah.zero_payload_len", "lax-stop:Arp:ArpAddr>data+short"]
            .iter()
            .map(|s| s.to_string())
            .collect()
    }
    fn run_unit(&self, tier: Tier, u: u64, ctx: &mut Ctx) {
        sweep::run_unit(tier, u, ctx, &|door, bytes, _shape, case| check_case(door, bytes, case));
    }
}
