//! C12 — extension-header chain bookkeeping is self-consistent.
//!
//! Flat, complete enumeration of every `Ipv6Extensions` / `Ipv4Extensions` state over a small
//! alphabet of `next_header` values (presence set x link of every present header x first
//! header) with the five walkers (`set_next_headers`, `next_header`, `write`, `header_len`,
//! `from_slice` / `Ipv6ExtensionsSlice` + iterator) run on every state, the `IpHeaders` /
//! `NetHeaders` wrappers on top, plus operation chains of depth <= 3.
//!
//! Oracle: a reference walker written from RFC 8200 §4.1 and the documented contract of
//! `next_header` / `write` (follow the links from the first header; hop-by-hop only directly
//! after the IPv6 header; a destination options number names the slot in front of the routing
//! header until a routing header has been passed and the final slot afterwards; a link that
//! does not name a still outstanding header ends the chain; every present header must have been
//! passed), a reference encoder of the six headers from the RFC 8200 / RFC 4302 diagrams and
//! the documented stop rules of the decoders.

use crate::fw::*;
use etherparse::err::ipv4_exts::ExtsWalkError as Walk4;
use etherparse::err::ipv6_exts::ExtsWalkError as Walk6;
use etherparse::*;

pub struct C12;

// ---- protocol numbers (IANA), written out here on purpose -------------------------------------
const HBH: u8 = 0;
const DEST: u8 = 60;
const ROUTE: u8 = 43;
const FRAG: u8 = 44;
const AH: u8 = 51;
const UDP: u8 = 17;
const NONXT: u8 = 59;
const TCP: u8 = 6;
/// numbers the IPv6 decoders follow
const EXT6: [u8; 5] = [HBH, DEST, ROUTE, FRAG, AH];

/// link alphabet of the flat sweep
const V_QUICK: &[u8] = &[HBH, DEST, ROUTE, FRAG, AH, UDP, NONXT, 135];
/// thorough: plus ESP (named in the RFC 8200 order but not supported), HIP and TCP
const V_THOROUGH: &[u8] = &[HBH, DEST, ROUTE, FRAG, AH, UDP, NONXT, 135, 50, 139, TCP];
/// sub-alphabets of the operation chains
const A_QUICK: &[u8] = &[HBH, DEST, UDP];
const A_THOROUGH: &[u8] = &[HBH, DEST, ROUTE, UDP];
/// final protocol numbers handed to set_next_headers (not extension numbers)
const SETNEXT_N: [u8; 3] = [UDP, NONXT, TCP];

// ---- slots ---------------------------------------------------------------------------------
const S_HBH: usize = 0;
const S_DEST: usize = 1;
const S_ROUTE: usize = 2;
const S_FDEST: usize = 3;
const S_FRAG: usize = 4;
const S_AUTH: usize = 5;
const SLOT_NUM: [u8; 6] = [HBH, DEST, ROUTE, DEST, FRAG, AH];
const SLOT_NAME: [&str; 6] = ["hop_by_hop", "dest_opts", "routing", "final_dest_opts", "fragment", "auth"];
/// RFC 8200 §4.1: HBH, DestOpts, Routing, Fragment, AH, [ESP], DestOpts (final)
const RFC_ORDER: [usize; 6] = [S_HBH, S_DEST, S_ROUTE, S_FRAG, S_AUTH, S_FDEST];

/// model of one `Ipv6Extensions` value + the first header number
#[derive(Clone, Copy, PartialEq, Eq, Debug)]
struct St {
    /// 0 = absent, else variant (raw headers: 1; fragment: 1 = offset 0 / M 0, 2 = offset 5 / M 1;
    /// auth: 1 = no ICV, 2 = 4 byte ICV)
    var: [u8; 6],
    /// next_header of every present slot (0 for absent ones)
    link: [u8; 6],
    first: u8,
}

impl St {
    fn k(&self) -> usize {
        self.var.iter().filter(|v| **v != 0).count()
    }
    fn slot_len(&self, s: usize) -> usize {
        match s {
            S_AUTH => {
                if self.var[s] == 2 {
                    16
                } else {
                    12
                }
            }
            _ => 8,
        }
    }
    fn total_len(&self) -> usize {
        (0..6).filter(|s| self.var[*s] != 0).map(|s| self.slot_len(s)).sum()
    }
    fn fragmenting(&self) -> bool {
        self.var[S_FRAG] == 2
    }
    fn present(&self) -> Vec<usize> {
        (0..6).filter(|s| self.var[*s] != 0).collect()
    }
}

fn show_var(var: &[u8; 6]) -> String {
    let mut p = vec![];
    for s in 0..6 {
        if var[s] != 0 {
            p.push(match (s, var[s]) {
                (S_FRAG, 1) => "fragment[offset 0, M 0]".to_string(),
                (S_FRAG, _) => "fragment[offset 5, M 1]".to_string(),
                (S_AUTH, 1) => "auth[no icv]".to_string(),
                (S_AUTH, _) => "auth[4 byte icv]".to_string(),
                _ => SLOT_NAME[s].to_string(),
            });
        }
    }
    if p.is_empty() {
        "{}".into()
    } else {
        format!("{{{}}}", p.join(", "))
    }
}

fn show(st: &St) -> String {
    let mut p = vec![];
    for s in 0..6 {
        if st.var[s] != 0 {
            let v = match (s, st.var[s]) {
                (S_FRAG, 1) => "[offset 0, M 0]",
                (S_FRAG, _) => "[offset 5, M 1]",
                (S_AUTH, 2) => "[4 byte icv]",
                _ => "",
            };
            p.push(format!("{}{}(next_header={})", SLOT_NAME[s], v, st.link[s]));
        }
    }
    format!("Ipv6Extensions{{{}}} first_header={}", p.join(", "), st.first)
}

// ---- reference encoder (RFC 8200 §4.3-4.6, RFC 4302 §2) ----------------------------------------

fn raw_fill(s: usize) -> u8 {
    0xA0 + s as u8
}
const FRAG_ID: [u32; 3] = [0, 0x4400_0001, 0x4400_0002];
const AUTH_SPI: [u32; 3] = [0, 0x5100_0001, 0x5100_0002];
const AUTH_SEQ: u32 = 0x0000_0051;
const ICV4: [u8; 4] = [0xA5; 4];

fn ref_slot_bytes(var: u8, s: usize, link: u8, out: &mut Vec<u8>) {
    match s {
        S_FRAG => {
            let (off, m): (u16, u16) = if var == 2 { (5, 1) } else { (0, 0) };
            let w = (off << 3) | m;
            out.extend_from_slice(&[link, 0, (w >> 8) as u8, w as u8]);
            out.extend_from_slice(&FRAG_ID[var as usize].to_be_bytes());
        }
        S_AUTH => {
            let icv: &[u8] = if var == 2 { &ICV4 } else { &[] };
            let words = (12 + icv.len()) / 4;
            out.extend_from_slice(&[link, (words - 2) as u8, 0, 0]);
            out.extend_from_slice(&AUTH_SPI[var as usize].to_be_bytes());
            out.extend_from_slice(&AUTH_SEQ.to_be_bytes());
            out.extend_from_slice(icv);
        }
        _ => {
            let f = raw_fill(s);
            out.extend_from_slice(&[link, 0, f, f, f, f, f, f]);
        }
    }
}

// ---- reference walker --------------------------------------------------------------------------

#[derive(Clone, Copy, PartialEq, Eq, Debug)]
enum RefEnd {
    /// consistent chain, final protocol number
    Final(u8),
    /// a link names the hop-by-hop header that is present but was not the first header
    HbhNotAtStart,
    /// the chain ended while present headers were never passed
    NotReferenced,
}

struct RefWalk {
    order: [usize; 6],
    n: usize,
    end: RefEnd,
    /// present headers that were not passed when the walk stopped
    missing: [bool; 6],
    /// value of the link at which the walk stopped
    stop_link: u8,
}

impl RefWalk {
    fn order(&self) -> &[usize] {
        &self.order[..self.n]
    }
}

fn ref_walk(st: &St) -> RefWalk {
    let mut visited = [false; 6];
    let mut order = [0usize; 6];
    let mut n = 0usize;
    let mut cur = st.first;
    let mut route_seen = false;
    let mut hbh_misplaced = false;
    loop {
        let open = |s: usize| st.var[s] != 0 && !visited[s];
        let target = match cur {
            HBH => {
                if open(S_HBH) {
                    if n == 0 {
                        Some(S_HBH)
                    } else {
                        hbh_misplaced = true;
                        None
                    }
                } else {
                    None
                }
            }
            DEST => {
                let s = if route_seen { S_FDEST } else { S_DEST };
                if open(s) {
                    Some(s)
                } else {
                    None
                }
            }
            ROUTE if open(S_ROUTE) => Some(S_ROUTE),
            FRAG if open(S_FRAG) => Some(S_FRAG),
            AH if open(S_AUTH) => Some(S_AUTH),
            _ => None,
        };
        match target {
            Some(s) => {
                visited[s] = true;
                order[n] = s;
                n += 1;
                if s == S_ROUTE {
                    route_seen = true;
                }
                cur = st.link[s];
            }
            None => break,
        }
    }
    let mut missing = [false; 6];
    let mut any = false;
    for s in 0..6 {
        if st.var[s] != 0 && !visited[s] {
            missing[s] = true;
            any = true;
        }
    }
    let end = if hbh_misplaced {
        RefEnd::HbhNotAtStart
    } else if any {
        RefEnd::NotReferenced
    } else {
        RefEnd::Final(cur)
    };
    RefWalk { order, n, end, missing, stop_link: cur }
}

/// is the error a true statement about the state?
fn truthful6(rw: &RefWalk, e: &Walk6) -> bool {
    match e {
        Walk6::HopByHopNotAtStart => rw.end == RefEnd::HbhNotAtStart,
        Walk6::ExtNotReferenced { missing_ext } => (0..6).any(|s| rw.missing[s] && SLOT_NUM[s] == missing_ext.0),
    }
}
fn kind6(e: &Walk6) -> u8 {
    match e {
        Walk6::HopByHopNotAtStart => 0,
        Walk6::ExtNotReferenced { .. } => 1,
    }
}

/// links and first header after "link the chain to n" in RFC 8200 order
fn canonical(var: &[u8; 6], n: u8) -> (u8, [u8; 6]) {
    let mut link = [0u8; 6];
    let mut next = n;
    for s in RFC_ORDER.iter().rev() {
        if var[*s] != 0 {
            link[*s] = next;
            next = SLOT_NUM[*s];
        }
    }
    (next, link)
}

/// the strict struct decoder is documented to stop (Ok) in front of a header that does not fit
/// the struct any more and to fail for a hop-by-hop number behind the start; a final number that
/// names a header type with a free slot makes it read on (nothing is there: length error).
fn struct_decode_must_succeed(st: &St, fin: u8) -> bool {
    match fin {
        HBH => false,
        DEST => {
            if st.var[S_ROUTE] != 0 {
                st.var[S_FDEST] != 0
            } else {
                st.var[S_DEST] != 0
            }
        }
        ROUTE => st.var[S_ROUTE] != 0,
        FRAG => st.var[S_FRAG] != 0,
        AH => st.var[S_AUTH] != 0,
        _ => true,
    }
}

// ---- building the crate values -----------------------------------------------------------------

/// Every second header (by slot + link value) is produced by a setter HISTORY instead of directly: created with a
/// longer all-ones body and then shrunk in place to the target through the public setter. The logical value is the
/// same; what differs is the unused tail of the fixed-size buffer, which must not be observable (equality with the
/// decoded set, bytes written, lengths).
fn raw_hdr(s: usize, link: u8) -> Ipv6RawExtHeader {
    if (s + link as usize) % 2 == 1 {
        let mut h = Ipv6RawExtHeader::new_raw(IpNumber(link), &[0xff; 22]).unwrap();
        h.set_payload(&[raw_fill(s); 6]).unwrap();
        h
    } else {
        Ipv6RawExtHeader::new_raw(IpNumber(link), &[raw_fill(s); 6]).unwrap()
    }
}
fn frag_hdr(var: u8, link: u8) -> Ipv6FragmentHeader {
    if var == 2 {
        Ipv6FragmentHeader::new(IpNumber(link), IpFragOffset::try_new(5).unwrap(), true, FRAG_ID[2])
    } else {
        Ipv6FragmentHeader::new(IpNumber(link), IpFragOffset::try_new(0).unwrap(), false, FRAG_ID[1])
    }
}
fn auth_hdr(var: u8, link: u8) -> IpAuthHeader {
    let icv: &[u8] = if var == 2 { &ICV4 } else { &[] };
    if (var as usize + link as usize) % 2 == 1 {
        let mut h = IpAuthHeader::new(IpNumber(link), AUTH_SPI[var as usize], AUTH_SEQ, &[0xff; 12]).unwrap();
        h.set_raw_icv(icv).unwrap();
        h
    } else {
        IpAuthHeader::new(IpNumber(link), AUTH_SPI[var as usize], AUTH_SEQ, icv).unwrap()
    }
}

fn build_exts(st: &St) -> Ipv6Extensions {
    Ipv6Extensions {
        hop_by_hop_options: if st.var[S_HBH] != 0 { Some(raw_hdr(S_HBH, st.link[S_HBH])) } else { None },
        destination_options: if st.var[S_DEST] != 0 { Some(raw_hdr(S_DEST, st.link[S_DEST])) } else { None },
        routing: if st.var[S_ROUTE] != 0 {
            Some(Ipv6RoutingExtensions {
                routing: raw_hdr(S_ROUTE, st.link[S_ROUTE]),
                final_destination_options: if st.var[S_FDEST] != 0 { Some(raw_hdr(S_FDEST, st.link[S_FDEST])) } else { None },
            })
        } else {
            None
        },
        fragment: if st.var[S_FRAG] != 0 { Some(frag_hdr(st.var[S_FRAG], st.link[S_FRAG])) } else { None },
        auth: if st.var[S_AUTH] != 0 { Some(auth_hdr(st.var[S_AUTH], st.link[S_AUTH])) } else { None },
    }
}

/// overwrite the next_header fields in place (presence must already match `st.var`)
fn set_links(e: &mut Ipv6Extensions, link: &[u8; 6]) {
    if let Some(h) = e.hop_by_hop_options.as_mut() {
        h.next_header = IpNumber(link[S_HBH]);
    }
    if let Some(h) = e.destination_options.as_mut() {
        h.next_header = IpNumber(link[S_DEST]);
    }
    if let Some(r) = e.routing.as_mut() {
        r.routing.next_header = IpNumber(link[S_ROUTE]);
        if let Some(h) = r.final_destination_options.as_mut() {
            h.next_header = IpNumber(link[S_FDEST]);
        }
    }
    if let Some(h) = e.fragment.as_mut() {
        h.next_header = IpNumber(link[S_FRAG]);
    }
    if let Some(h) = e.auth.as_mut() {
        h.next_header = IpNumber(link[S_AUTH]);
    }
}

fn raw_matches(h: Option<&Ipv6RawExtHeader>, var: u8, s: usize, link: u8) -> bool {
    match h {
        None => var == 0,
        Some(h) => var != 0 && h.next_header.0 == link && h.payload() == [raw_fill(s); 6],
    }
}

/// field-by-field comparison of a crate value with the model (presence, links, contents)
fn matches_model(e: &Ipv6Extensions, var: &[u8; 6], link: &[u8; 6]) -> bool {
    raw_matches(e.hop_by_hop_options.as_ref(), var[S_HBH], S_HBH, link[S_HBH])
        && raw_matches(e.destination_options.as_ref(), var[S_DEST], S_DEST, link[S_DEST])
        && match e.routing.as_ref() {
            None => var[S_ROUTE] == 0 && var[S_FDEST] == 0,
            Some(r) => raw_matches(Some(&r.routing), var[S_ROUTE], S_ROUTE, link[S_ROUTE]) && raw_matches(r.final_destination_options.as_ref(), var[S_FDEST], S_FDEST, link[S_FDEST]),
        }
        && match e.fragment.as_ref() {
            None => var[S_FRAG] == 0,
            Some(f) => {
                let v = var[S_FRAG];
                v != 0 && f.next_header.0 == link[S_FRAG] && f.identification == FRAG_ID[v as usize] && f.more_fragments == (v == 2) && f.fragment_offset.value() == if v == 2 { 5 } else { 0 }
            }
        }
        && match e.auth.as_ref() {
            None => var[S_AUTH] == 0,
            Some(a) => {
                let v = var[S_AUTH];
                v != 0 && a.next_header.0 == link[S_AUTH] && a.spi == AUTH_SPI[v as usize] && a.sequence_number == AUTH_SEQ && a.raw_icv() == if v == 2 { &ICV4[..] } else { &[][..] }
            }
        }
}

fn dump_links(e: &Ipv6Extensions) -> String {
    let mut p = vec![];
    if let Some(h) = e.hop_by_hop_options.as_ref() {
        p.push(format!("hop_by_hop->{}", h.next_header.0));
    }
    if let Some(h) = e.destination_options.as_ref() {
        p.push(format!("dest_opts->{}", h.next_header.0));
    }
    if let Some(r) = e.routing.as_ref() {
        p.push(format!("routing->{}", r.routing.next_header.0));
        if let Some(h) = r.final_destination_options.as_ref() {
            p.push(format!("final_dest_opts->{}", h.next_header.0));
        }
    }
    if let Some(h) = e.fragment.as_ref() {
        p.push(format!("fragment->{}", h.next_header.0));
    }
    if let Some(h) = e.auth.as_ref() {
        p.push(format!("auth->{}", h.next_header.0));
    }
    p.join(" ")
}

// ---- reporting helper --------------------------------------------------------------------------

const F_WALK_OK: u32 = 1;
const F_UNREF: u32 = 2;
const F_ORDER: u32 = 4;
const F_WRITE_OK: u32 = 8;
const F_WRITE_ERR: u32 = 16;
const F_RT_OK: u32 = 32;
const F_FINAL_EXT: u32 = 64;
const F_IPV4: u32 = 128;
const F_CHAIN3: u32 = 256;
const F_SETNEXT: u32 = 512;
const F_PANIC: u32 = 1024;
const F_WRAP: u32 = 2048;
const F_IPV4_CHAIN: u32 = 4096;
const FLAG_NAMES: [(u32, &str); 13] = [
    (F_WALK_OK, "walk-ok"),
    (F_UNREF, "walk-err-unreferenced"),
    (F_ORDER, "walk-err-order"),
    (F_WRITE_OK, "write-ok"),
    (F_WRITE_ERR, "write-err"),
    (F_RT_OK, "roundtrip-ok"),
    (F_FINAL_EXT, "walk-ok-final-is-extension-number"),
    (F_IPV4, "ipv4-auth"),
    (F_CHAIN3, "chain-depth-3"),
    (F_SETNEXT, "set-next-headers"),
    (F_PANIC, "panic-caught"),
    (F_WRAP, "ip-headers-wrapper"),
    (F_IPV4_CHAIN, "ipv4-chain"),
];

/// per-case reporter: one violation per signature and case, counters, reach flags
struct Rep<'a> {
    case: &'a mut Case,
    seen: Vec<String>,
    walkers: u64,
    nontrivial: u64,
    evals: u64,
    flags: u32,
    /// operation chain that led to the state being examined (put in front of every detail)
    chain_init: Option<St>,
    chain_path: Vec<Op>,
}

impl<'a> Rep<'a> {
    fn new(case: &'a mut Case) -> Rep<'a> {
        Rep { case, seen: vec![], walkers: 0, nontrivial: 0, evals: 0, flags: 0, chain_init: None, chain_path: vec![] }
    }
    #[inline]
    fn at(&mut self, name: &'static str) {
        self.case.at(name);
        self.evals += 1;
    }
    #[inline]
    fn walker(&mut self, nontrivial: bool) {
        self.walkers += 1;
        if nontrivial {
            self.nontrivial += 1;
        }
    }
    fn fail(&mut self, sig: &str, detail: impl FnOnce() -> String) {
        if !self.seen.iter().any(|s| s == sig) {
            self.seen.push(sig.to_string());
            let d = detail();
            let d = match &self.chain_init {
                Some(init) => format!("from {} after [{}] :: {}", show(init), self.chain_path.iter().map(|o| op_name(*o)).collect::<Vec<_>>().join(", "), d),
                None => d,
            };
            self.case.fail(sig, d);
        }
    }
    fn finish(self, outcome_prefix: &str) {
        self.case.states(self.walkers.max(1));
        self.case.evals(self.evals);
        self.case.nontrivial_n(self.nontrivial);
        let mut o = String::from(outcome_prefix);
        for (f, n) in FLAG_NAMES.iter() {
            if self.flags & f != 0 {
                self.case.reach(*n);
                o.push(' ');
                o.push_str(n);
            }
        }
        self.case.outcome(o);
    }
}

struct Bufs {
    w: Vec<u8>,
    w2: Vec<u8>,
    r: Vec<u8>,
}
impl Bufs {
    fn new() -> Bufs {
        Bufs { w: Vec::with_capacity(128), w2: Vec::with_capacity(160), r: Vec::with_capacity(128) }
    }
}

const PANIC_TXT: &str = "an inconsistent chain must be reported as an error, never by panicking";

// ---- the read-only walkers on one Ipv6Extensions value ------------------------------------------

/// what the direct walkers returned (None = panicked), for the wrapper comparison
struct Direct {
    nh: Option<Result<u8, Walk6>>,
    wr: Option<Result<(), Walk6>>,
}

fn walk_exts(st: &St, rw: &RefWalk, e: &Ipv6Extensions, b: &mut Bufs, rep: &mut Rep) -> Direct {
    let nt = st.k() > 0;
    let total = st.total_len();
    let first = IpNumber(st.first);

    // classification of the state (reach table)
    match rw.end {
        RefEnd::Final(f) => {
            rep.flags |= F_WALK_OK;
            if EXT6.contains(&f) {
                rep.flags |= F_FINAL_EXT;
            }
        }
        RefEnd::HbhNotAtStart => rep.flags |= F_ORDER,
        RefEnd::NotReferenced => {
            rep.flags |= F_UNREF;
            // the chain stopped at a number that names a present header which may not stand there
            if (0..6).any(|s| rw.missing[s] && SLOT_NUM[s] == rw.stop_link) {
                rep.flags |= F_ORDER;
            }
        }
    }

    // header_len / is_fragmenting_payload / is_empty
    rep.at("Ipv6Extensions::header_len");
    let hl = e.header_len();
    rep.walker(nt);
    if hl != total {
        rep.fail("header_len-wrong:Ipv6Extensions", || format!("{}: header_len() == {} but the present headers take {} bytes", show(st), hl, total));
    }
    rep.at("Ipv6Extensions::is_fragmenting_payload");
    if e.is_fragmenting_payload() != st.fragmenting() {
        rep.fail("is_fragmenting_payload-wrong:Ipv6Extensions", || format!("{}: is_fragmenting_payload() == {}", show(st), !st.fragmenting()));
    }
    if e.is_empty() != (st.k() == 0) {
        rep.fail("is_empty-wrong:Ipv6Extensions", || format!("{}: is_empty() == {}", show(st), st.k() != 0));
    }

    // next_header
    rep.at("Ipv6Extensions::next_header");
    rep.walker(nt);
    let nh = match guarded(|| e.next_header(first)) {
        Err(p) => {
            rep.flags |= F_PANIC;
            rep.fail("panic:Ipv6Extensions::next_header", || format!("{}: next_header() panicked ({}); {}", show(st), p, PANIC_TXT));
            None
        }
        Ok(r) => {
            match (&rw.end, &r) {
                (RefEnd::Final(f), Ok(p)) => {
                    if p.0 != *f {
                        rep.fail("next_header-wrong-final:Ipv6Extensions", || format!("{}: next_header() == Ok({}) but following the links ends at {}", show(st), p.0, f));
                    }
                }
                (RefEnd::Final(f), Err(x)) => {
                    rep.fail("next_header-rejects-consistent-chain:Ipv6Extensions", || format!("{}: next_header() == Err({:?}) but the links pass every present header once and end at {}", show(st), x, f));
                }
                (end, Ok(p)) => {
                    rep.fail("next_header-accepts-inconsistent-chain:Ipv6Extensions", || format!("{}: next_header() == Ok({}) but the chain is inconsistent ({:?}, never passed: {})", show(st), p.0, end, missing_txt(rw)));
                }
                (end, Err(x)) => {
                    if !truthful6(rw, x) {
                        rep.fail("next_header-error-names-wrong-inconsistency:Ipv6Extensions", || format!("{}: next_header() == Err({:?}) but the inconsistency is {:?} (never passed: {})", show(st), x, end, missing_txt(rw)));
                    }
                }
            }
            Some(r.map(|p| p.0))
        }
    };

    // write
    rep.at("Ipv6Extensions::write");
    rep.walker(nt);
    b.w.clear();
    let wr = match guarded(|| e.write(&mut b.w, first)) {
        Err(p) => {
            rep.flags |= F_PANIC;
            rep.fail("panic:Ipv6Extensions::write", || format!("{}: write() panicked ({}) while next_header() returned {:?}; {}", show(st), p, nh, PANIC_TXT));
            None
        }
        Ok(Err(err::ipv6_exts::HeaderWriteError::Io(x))) => {
            rep.fail("write-io-error-on-vec:Ipv6Extensions", || format!("{}: write() into a Vec returned an io error {:?}", show(st), x));
            None
        }
        Ok(Ok(())) => Some(Ok(())),
        Ok(Err(err::ipv6_exts::HeaderWriteError::Content(x))) => Some(Err(x)),
    };
    if let Some(wr) = &wr {
        match (&rw.end, wr) {
            (RefEnd::Final(_), Ok(())) => {
                rep.flags |= F_WRITE_OK;
                if b.w.len() != hl {
                    rep.fail("write-len-not-header_len:Ipv6Extensions", || format!("{}: write() emitted {} bytes, header_len() == {}", show(st), b.w.len(), hl));
                }
                b.r.clear();
                for s in rw.order() {
                    ref_slot_bytes(st.var[*s], *s, st.link[*s], &mut b.r);
                }
                if b.w != b.r {
                    rep.fail("write-bytes-differ-from-chain:Ipv6Extensions", || format!("{}: write() emitted {} but the headers in link order are {}", show(st), hex(&b.w), hex(&b.r)));
                }
            }
            (RefEnd::Final(f), Err(x)) => {
                rep.fail("write-rejects-consistent-chain:Ipv6Extensions", || format!("{}: write() == Err({:?}) but the links pass every present header once and end at {}", show(st), x, f));
            }
            (end, Ok(())) => {
                let sig = if b.w.len() < hl { "write-silently-drops-header:Ipv6Extensions" } else { "write-accepts-inconsistent-chain:Ipv6Extensions" };
                rep.fail(sig, || format!("{}: write() == Ok with {} bytes ({}), header_len() == {}, but the chain is inconsistent ({:?}, never passed: {})", show(st), b.w.len(), hex(&b.w), hl, end, missing_txt(rw)));
            }
            (end, Err(x)) => {
                rep.flags |= F_WRITE_ERR;
                if !truthful6(rw, x) {
                    rep.fail("write-error-names-wrong-inconsistency:Ipv6Extensions", || format!("{}: write() == Err({:?}) but the inconsistency is {:?} (never passed: {})", show(st), x, end, missing_txt(rw)));
                }
            }
        }
        // write succeeds exactly when walking succeeds
        if let Some(nh) = &nh {
            match (nh, wr) {
                (Ok(_), Ok(())) => {}
                (Err(a), Err(bb)) => {
                    if kind6(a) != kind6(bb) {
                        rep.fail("write-and-next_header-name-different-errors:Ipv6Extensions", || format!("{}: next_header() == Err({:?}), write() == Err({:?})", show(st), a, bb));
                    }
                }
                (a, bb) => {
                    rep.fail("write-and-next_header-disagree:Ipv6Extensions", || format!("{}: next_header() == {:?} but write() == {:?}", show(st), a, bb));
                }
            }
        }
    }

    // decode what was written
    if let (RefEnd::Final(fin), Some(Ok(()))) = (rw.end, &wr) {
        rep.at("Ipv6Extensions::from_slice");
        rep.walker(nt);
        match Ipv6Extensions::from_slice(first, &b.w) {
            Ok((d, p, rest)) => {
                if !matches_model(&d, &st.var, &st.link) || d != *e {
                    rep.fail("roundtrip-set-differs:Ipv6Extensions::from_slice", || format!("{}: wrote {}, from_slice gave back another set: {}", show(st), hex(&b.w), dump_links(&d)));
                } else if p.0 != fin {
                    rep.fail("roundtrip-final-protocol-differs:Ipv6Extensions::from_slice", || format!("{}: wrote {}, from_slice reports next protocol {} but the chain ends at {}", show(st), hex(&b.w), p.0, fin));
                } else if !rest.is_empty() {
                    rep.fail("roundtrip-leaves-rest:Ipv6Extensions::from_slice", || format!("{}: wrote {}, from_slice left {} bytes", show(st), hex(&b.w), rest.len()));
                } else {
                    rep.flags |= F_RT_OK;
                }
            }
            Err(x) => {
                if struct_decode_must_succeed(st, fin) {
                    rep.fail("roundtrip-decode-fails:Ipv6Extensions::from_slice", || format!("{}: wrote {}, from_slice({}, ..) == Err({:?})", show(st), hex(&b.w), st.first, x));
                }
            }
        }
        rep.at("Ipv6ExtensionsSlice::from_slice");
        rep.walker(nt);
        match Ipv6ExtensionsSlice::from_slice(first, &b.w) {
            Ok((s, p, rest)) => {
                let exp_first = if b.w.is_empty() { None } else { Some(first) };
                if s.slice() != &b.w[..] || p.0 != fin || !rest.is_empty() {
                    rep.fail("roundtrip-differs:Ipv6ExtensionsSlice::from_slice", || format!("{}: wrote {}, the slice covers {} bytes, next protocol {}, rest {} bytes; expected all bytes and {}", show(st), hex(&b.w), s.slice().len(), p.0, rest.len(), fin));
                } else {
                    if s.first_header() != exp_first || s.is_empty() != b.w.is_empty() {
                        rep.fail("first_header-wrong:Ipv6ExtensionsSlice", || format!("{}: wrote {}, first_header() == {:?}, is_empty() == {}", show(st), hex(&b.w), s.first_header(), s.is_empty()));
                    }
                    if s.is_fragmenting_payload() != st.fragmenting() {
                        rep.fail("is_fragmenting_payload-wrong:Ipv6ExtensionsSlice", || format!("{}: wrote {}, is_fragmenting_payload() == {}", show(st), hex(&b.w), s.is_fragmenting_payload()));
                    }
                    // the iterator must hand out the headers in link order
                    rep.at("Ipv6ExtensionSliceIter::next");
                    let mut off = 0usize;
                    let mut i = 0usize;
                    let mut bad = false;
                    for item in s.clone().into_iter() {
                        if i >= rw.n {
                            bad = true;
                            break;
                        }
                        let slot = rw.order[i];
                        let (kind_ok, bytes): (bool, &[u8]) = match &item {
                            Ipv6ExtensionSlice::HopByHop(x) => (slot == S_HBH, x.slice()),
                            Ipv6ExtensionSlice::DestinationOptions(x) => (slot == S_DEST || slot == S_FDEST, x.slice()),
                            Ipv6ExtensionSlice::Routing(x) => (slot == S_ROUTE, x.slice()),
                            Ipv6ExtensionSlice::Fragment(x) => (slot == S_FRAG, x.slice()),
                            Ipv6ExtensionSlice::Authentication(x) => (slot == S_AUTH, x.slice()),
                        };
                        let l = st.slot_len(slot);
                        if !kind_ok || off + l > b.w.len() || bytes != &b.w[off..off + l] {
                            bad = true;
                            break;
                        }
                        off += l;
                        i += 1;
                    }
                    if bad || i != rw.n {
                        rep.fail("iterator-differs-from-chain:Ipv6ExtensionSliceIter", || format!("{}: wrote {}, the iterator does not yield the {} headers in link order (stopped at item {})", show(st), hex(&b.w), rw.n, i));
                    }
                }
            }
            Err(x) => {
                // the slice decoder follows every extension number (no struct to overflow)
                if !EXT6.contains(&fin) {
                    rep.fail("roundtrip-decode-fails:Ipv6ExtensionsSlice::from_slice", || format!("{}: wrote {}, Ipv6ExtensionsSlice::from_slice({}, ..) == Err({:?})", show(st), hex(&b.w), st.first, x));
                }
            }
        }
    }
    Direct { nh, wr }
}

fn missing_txt(rw: &RefWalk) -> String {
    let v: Vec<&str> = (0..6).filter(|s| rw.missing[*s]).map(|s| SLOT_NAME[s]).collect();
    if v.is_empty() {
        "-".into()
    } else {
        v.join("+")
    }
}

// ---- IpHeaders / NetHeaders around the same state ------------------------------------------------

struct V6Ctx {
    ip: IpHeaders,
    net: NetHeaders,
    b: Bufs,
}

fn v6_header(st: &St) -> Ipv6Header {
    Ipv6Header {
        traffic_class: 0,
        flow_label: Default::default(),
        payload_length: st.total_len() as u16,
        next_header: IpNumber(st.first),
        hop_limit: 64,
        source: [0x20, 1, 0xd, 0xb8, 0, 0, 0, 0, 0, 0, 0, 0, 0, 0, 0, 1],
        destination: [0x20, 1, 0xd, 0xb8, 0, 0, 0, 0, 0, 0, 0, 0, 0, 0, 0, 2],
    }
}

impl V6Ctx {
    fn new(st: &St) -> V6Ctx {
        V6Ctx { ip: IpHeaders::Ipv6(v6_header(st), build_exts(st)), net: NetHeaders::Ipv6(v6_header(st), build_exts(st)), b: Bufs::new() }
    }
}

fn ip_parts(ip: &mut IpHeaders) -> (&mut Ipv6Header, &mut Ipv6Extensions) {
    match ip {
        IpHeaders::Ipv6(h, e) => (h, e),
        _ => unreachable!(),
    }
}
fn net_parts(net: &mut NetHeaders) -> (&mut Ipv6Header, &mut Ipv6Extensions) {
    match net {
        NetHeaders::Ipv6(h, e) => (h, e),
        _ => unreachable!(),
    }
}

fn walk_wrappers(st: &St, rw: &RefWalk, ip: &IpHeaders, net: &NetHeaders, d: &Direct, b: &mut Bufs, rep: &mut Rep) {
    let nt = st.k() > 0;
    let total = st.total_len();
    rep.flags |= F_WRAP;
    rep.walker(nt);
    rep.at("IpHeaders::header_len");
    if ip.header_len() != 40 + total {
        rep.fail("header_len-wrong:IpHeaders:Ipv6", || format!("IpHeaders::Ipv6 with {}: header_len() == {} expected {}", show(st), ip.header_len(), 40 + total));
    }
    rep.at("NetHeaders::header_len");
    if net.header_len() != 40 + total {
        rep.fail("header_len-wrong:NetHeaders:Ipv6", || format!("NetHeaders::Ipv6 with {}: header_len() == {} expected {}", show(st), net.header_len(), 40 + total));
    }
    rep.at("IpHeaders::is_fragmenting_payload");
    if ip.is_fragmenting_payload() != st.fragmenting() {
        rep.fail("is_fragmenting_payload-wrong:IpHeaders:Ipv6", || format!("IpHeaders::Ipv6 with {}: is_fragmenting_payload() == {}", show(st), !st.fragmenting()));
    }
    if let Some(nh) = &d.nh {
        rep.at("IpHeaders::next_header");
        match guarded(|| ip.next_header()) {
            Err(p) => {
                rep.flags |= F_PANIC;
                rep.fail("panic:IpHeaders::next_header:Ipv6", || format!("IpHeaders::Ipv6 with {}: next_header() panicked ({}); {}", show(st), p, PANIC_TXT));
            }
            Ok(r) => {
                let same = match (&r, nh) {
                    (Ok(a), Ok(bb)) => a.0 == *bb,
                    (Err(err::ip_exts::ExtsWalkError::Ipv6Exts(a)), Err(bb)) => a == bb,
                    _ => false,
                };
                if !same {
                    rep.fail("wrapper-differs-from-extensions:IpHeaders::next_header:Ipv6", || format!("IpHeaders::Ipv6 with {}: next_header() == {:?} but Ipv6Extensions::next_header(first) == {:?}", show(st), r, nh));
                }
            }
        }
    }
    if let Some(wr) = &d.wr {
        rep.at("IpHeaders::write");
        b.w2.clear();
        match guarded(|| ip.write(&mut b.w2)) {
            Err(p) => {
                rep.flags |= F_PANIC;
                rep.fail("panic:IpHeaders::write:Ipv6", || format!("IpHeaders::Ipv6 with {}: write() panicked ({}); {}", show(st), p, PANIC_TXT));
            }
            Ok(r) => {
                let same = match (&r, wr) {
                    (Ok(()), Ok(())) => b.w2.len() == 40 + b.w.len() && b.w2[40..] == b.w[..] && b.w2[0] >> 4 == 6 && b.w2[6] == st.first,
                    (Err(err::ip::HeadersWriteError::Ipv6Exts(a)), Err(bb)) => a == bb,
                    _ => false,
                };
                if !same {
                    rep.fail("wrapper-differs-from-extensions:IpHeaders::write:Ipv6", || format!("IpHeaders::Ipv6 with {}: write() == {:?} with {} bytes ({}) but Ipv6Extensions::write == {:?} with {}", show(st), r, b.w2.len(), hex(&b.w2), wr, hex(&b.w)));
                } else if let (Ok(()), RefEnd::Final(fin)) = (&r, rw.end) {
                    rep.at("IpHeaders::from_slice");
                    match IpHeaders::from_slice(&b.w2) {
                        Ok((ip2, pl)) => {
                            let set_ok = match &ip2 {
                                IpHeaders::Ipv6(_, e2) => matches_model(e2, &st.var, &st.link) && ip2 == *ip,
                                _ => false,
                            };
                            if !set_ok {
                                rep.fail("roundtrip-set-differs:IpHeaders::from_slice:Ipv6", || format!("IpHeaders::Ipv6 with {}: wrote {}, from_slice gave back other headers", show(st), hex(&b.w2)));
                            } else if pl.ip_number.0 != fin || !pl.payload.is_empty() {
                                rep.fail("roundtrip-final-protocol-differs:IpHeaders::from_slice:Ipv6", || format!("IpHeaders::Ipv6 with {}: wrote {}, payload ip_number {} ({} bytes), the chain ends at {}", show(st), hex(&b.w2), pl.ip_number.0, pl.payload.len(), fin));
                            } else if pl.fragmented != st.fragmenting() {
                                rep.fail("roundtrip-fragmented-flag-differs:IpHeaders::from_slice:Ipv6", || format!("IpHeaders::Ipv6 with {}: wrote {}, payload.fragmented == {}", show(st), hex(&b.w2), pl.fragmented));
                            }
                        }
                        Err(x) => {
                            if struct_decode_must_succeed(st, fin) {
                                rep.fail("roundtrip-decode-fails:IpHeaders::from_slice:Ipv6", || format!("IpHeaders::Ipv6 with {}: wrote {}, from_slice == Err({:?})", show(st), hex(&b.w2), x));
                            }
                        }
                    }
                }
            }
        }
    }
}

/// `set_next_headers(n)` through the three entry points, on the state as it is; the state is restored
fn walk_setnext(st: &St, ip: &mut IpHeaders, net: &mut NetHeaders, rep: &mut Rep) {
    let nt = st.k() > 0;
    rep.flags |= F_SETNEXT;
    for n in SETNEXT_N {
        let (exp_first, exp_link) = canonical(&st.var, n);
        // Ipv6Extensions::set_next_headers
        {
            let (_, e) = ip_parts(ip);
            rep.at("Ipv6Extensions::set_next_headers");
            rep.walker(nt);
            let ret = e.set_next_headers(IpNumber(n));
            if ret.0 != exp_first {
                rep.fail("set_next_headers-returns-wrong-first:Ipv6Extensions", || format!("{}: set_next_headers({}) returned {} but the first present header in RFC 8200 order is announced by {}", show(st), n, ret.0, exp_first));
            }
            if !matches_model(e, &st.var, &exp_link) {
                rep.fail("set_next_headers-links-not-in-rfc8200-order:Ipv6Extensions", || format!("{}: after set_next_headers({}) the links are [{}], RFC 8200 order demands {:?} (slots hbh,dest,routing,final_dest,frag,auth)", show(st), n, dump_links(e), exp_link));
            }
            set_links(e, &st.link);
        }
        // IpHeaders::set_next_headers
        {
            rep.at("IpHeaders::set_next_headers");
            rep.walker(nt);
            let et = ip.set_next_headers(IpNumber(n));
            let (h, e) = ip_parts(ip);
            if et.0 != 0x86DD {
                rep.fail("ether-type-of-wrong-version:IpHeaders::set_next_headers:Ipv6", || format!("IpHeaders::Ipv6 with {}: set_next_headers({}) returned ether type {:#06x}, IPv6 is 0x86dd", show(st), n, et.0));
            }
            if h.next_header.0 != exp_first {
                rep.fail("ip-header-not-pointing-at-first-extension:IpHeaders::set_next_headers:Ipv6", || format!("IpHeaders::Ipv6 with {}: after set_next_headers({}) the IPv6 header announces {} expected {}", show(st), n, h.next_header.0, exp_first));
            }
            if !matches_model(e, &st.var, &exp_link) {
                rep.fail("set_next_headers-links-not-in-rfc8200-order:IpHeaders:Ipv6", || format!("IpHeaders::Ipv6 with {}: after set_next_headers({}) the links are [{}], RFC 8200 order demands {:?}", show(st), n, dump_links(e), exp_link));
            }
            h.next_header = IpNumber(st.first);
            set_links(e, &st.link);
        }
        // NetHeaders::try_set_next_headers
        {
            rep.at("NetHeaders::try_set_next_headers");
            rep.walker(nt);
            let r = net.try_set_next_headers(IpNumber(n));
            let (h, e) = net_parts(net);
            match r {
                Ok(et) => {
                    if et.0 != 0x86DD {
                        rep.fail("ether-type-of-wrong-version:NetHeaders::try_set_next_headers:Ipv6", || format!("NetHeaders::Ipv6 with {}: try_set_next_headers({}) returned ether type {:#06x}, IPv6 is 0x86dd", show(st), n, et.0));
                    }
                }
                Err(x) => rep.fail("try_set_next_headers-fails-on-ip:NetHeaders:Ipv6", || format!("NetHeaders::Ipv6 with {}: try_set_next_headers({}) == Err({:?})", show(st), n, x)),
            }
            if h.next_header.0 != exp_first {
                rep.fail("ip-header-not-pointing-at-first-extension:NetHeaders::try_set_next_headers:Ipv6", || format!("NetHeaders::Ipv6 with {}: after try_set_next_headers({}) the IPv6 header announces {} expected {}", show(st), n, h.next_header.0, exp_first));
            }
            if !matches_model(e, &st.var, &exp_link) {
                rep.fail("set_next_headers-links-not-in-rfc8200-order:NetHeaders:Ipv6", || format!("NetHeaders::Ipv6 with {}: after try_set_next_headers({}) the links are [{}], RFC 8200 order demands {:?}", show(st), n, dump_links(e), exp_link));
            }
            h.next_header = IpNumber(st.first);
            set_links(e, &st.link);
        }
    }
}

/// every walker on one state of the flat space (`cx` must have been built for `st.var`)
fn check_full(st: &St, cx: &mut V6Ctx, rep: &mut Rep) {
    {
        let (h, e) = ip_parts(&mut cx.ip);
        h.next_header = IpNumber(st.first);
        set_links(e, &st.link);
        let (h, e) = net_parts(&mut cx.net);
        h.next_header = IpNumber(st.first);
        set_links(e, &st.link);
    }
    let rw = ref_walk(st);
    let V6Ctx { ip, net, b } = cx;
    let d = {
        let e: &Ipv6Extensions = match &*ip {
            IpHeaders::Ipv6(_, e) => e,
            _ => unreachable!(),
        };
        walk_exts(st, &rw, e, b, rep)
    };
    walk_wrappers(st, &rw, ip, net, &d, b, rep);
    walk_setnext(st, ip, net, rep);
}

// ---- operation chains ---------------------------------------------------------------------------

#[derive(Clone, Copy, Debug, PartialEq, Eq)]
enum Op {
    Toggle(usize),
    SetNext(u8),
    /// x := decode(write(x))
    Rt,
}
const OPS: [Op; 9] = [Op::Toggle(S_HBH), Op::Toggle(S_DEST), Op::Toggle(S_ROUTE), Op::Toggle(S_FDEST), Op::Toggle(S_FRAG), Op::Toggle(S_AUTH), Op::SetNext(UDP), Op::SetNext(NONXT), Op::Rt];
/// chain depth: 3 (quick), 4 (thorough)
fn chain_depth(tier: Tier) -> usize {
    if tier.is_thorough() {
        4
    } else {
        3
    }
}

fn op_name(op: Op) -> String {
    match op {
        Op::Toggle(s) => format!("toggle({})", SLOT_NAME[s]),
        Op::SetNext(n) => format!("first:=set_next_headers({})", n),
        Op::Rt => "x:=from_slice(first,write(x,first))".into(),
    }
}

/// apply `op` to the model and to the crate value; false = not applicable in this state (the chain is cut)
fn apply_op(op: Op, st: &mut St, e: &mut Ipv6Extensions, b: &mut Bufs, rep: &mut Rep) -> bool {
    match op {
        Op::Toggle(s) => {
            if st.var[s] != 0 {
                st.var[s] = 0;
                st.link[s] = 0;
                if s == S_ROUTE {
                    st.var[S_FDEST] = 0;
                    st.link[S_FDEST] = 0;
                }
                match s {
                    S_HBH => e.hop_by_hop_options = None,
                    S_DEST => e.destination_options = None,
                    S_ROUTE => e.routing = None,
                    S_FDEST => e.routing.as_mut().unwrap().final_destination_options = None,
                    S_FRAG => e.fragment = None,
                    _ => e.auth = None,
                }
            } else {
                if s == S_FDEST && st.var[S_ROUTE] == 0 {
                    return false;
                }
                st.var[s] = if s == S_FRAG { 2 } else { 1 };
                st.link[s] = UDP;
                match s {
                    S_HBH => e.hop_by_hop_options = Some(raw_hdr(s, UDP)),
                    S_DEST => e.destination_options = Some(raw_hdr(s, UDP)),
                    S_ROUTE => e.routing = Some(Ipv6RoutingExtensions { routing: raw_hdr(s, UDP), final_destination_options: None }),
                    S_FDEST => e.routing.as_mut().unwrap().final_destination_options = Some(raw_hdr(s, UDP)),
                    S_FRAG => e.fragment = Some(frag_hdr(2, UDP)),
                    _ => e.auth = Some(auth_hdr(1, UDP)),
                }
            }
            true
        }
        Op::SetNext(n) => {
            let (ef, el) = canonical(&st.var, n);
            rep.at("Ipv6Extensions::set_next_headers");
            let r = e.set_next_headers(IpNumber(n));
            st.link = el;
            st.first = ef;
            if r.0 != ef {
                let stc = *st;
                rep.fail("set_next_headers-returns-wrong-first:Ipv6Extensions", || format!("{}: set_next_headers({}) returned {}", show(&stc), n, r.0));
                return false;
            }
            true
        }
        Op::Rt => {
            let rw = ref_walk(st);
            let fin = match rw.end {
                RefEnd::Final(f) => f,
                _ => return false,
            };
            // every misbehaviour of write/from_slice on this state is reported by walk_exts when the
            // state itself is the end of the (shorter) chain; here the operation is just cut
            b.w.clear();
            rep.at("Ipv6Extensions::write");
            match guarded(|| e.write(&mut b.w, IpNumber(st.first))) {
                Ok(Ok(())) => {}
                _ => return false,
            }
            rep.at("Ipv6Extensions::from_slice");
            match Ipv6Extensions::from_slice(IpNumber(st.first), &b.w) {
                Ok((d, p, rest)) => {
                    if p.0 != fin || !rest.is_empty() {
                        return false;
                    }
                    *e = d;
                    true
                }
                Err(_) => false,
            }
        }
    }
}

fn chain_dfs(depth: usize, max_depth: usize, first_op: Option<Op>, st: &St, e: &Ipv6Extensions, b: &mut Bufs, rep: &mut Rep) {
    let ops: &[Op] = match &first_op {
        Some(o) => std::slice::from_ref(o),
        None => &OPS,
    };
    for op in ops {
        let mut st2 = *st;
        let mut e2 = e.clone();
        rep.chain_path.push(*op);
        if apply_op(*op, &mut st2, &mut e2, b, rep) {
            if depth + 1 == 3 {
                rep.flags |= F_CHAIN3;
            }
            if !matches_model(&e2, &st2.var, &st2.link) {
                let sig = match op {
                    Op::Toggle(_) => "chain-state-differs-from-model:toggle",
                    Op::SetNext(_) => "set_next_headers-links-not-in-rfc8200-order:Ipv6Extensions",
                    Op::Rt => "roundtrip-set-differs:Ipv6Extensions::from_slice",
                };
                rep.fail(sig, || format!("the value is now [{}], expected {}", dump_links(&e2), show(&st2)));
            } else {
                // the reached value must behave exactly like a freshly built one
                let rw = ref_walk(&st2);
                walk_exts(&st2, &rw, &e2, b, rep);
                if depth + 1 < max_depth {
                    chain_dfs(depth + 1, max_depth, None, &st2, &e2, b, rep);
                }
            }
        }
        rep.chain_path.pop();
    }
}

// ---- IPv4 ---------------------------------------------------------------------------------------

#[derive(Clone, Copy, PartialEq, Eq, Debug)]
struct St4 {
    /// 0 = no auth header, 1 = no ICV, 2 = 4 byte ICV
    var: u8,
    link: u8,
    first: u8,
}

fn show4(st: &St4) -> String {
    match st.var {
        0 => format!("Ipv4Extensions{{}} protocol={}", st.first),
        v => format!("Ipv4Extensions{{auth{}(next_header={})}} protocol={}", if v == 2 { "[4 byte icv]" } else { "" }, st.link, st.first),
    }
}
fn build4(st: &St4) -> Ipv4Extensions {
    Ipv4Extensions { auth: if st.var != 0 { Some(auth_hdr(st.var, st.link)) } else { None } }
}
fn matches4(e: &Ipv4Extensions, var: u8, link: u8) -> bool {
    match e.auth.as_ref() {
        None => var == 0,
        Some(a) => var != 0 && a.next_header.0 == link && a.spi == AUTH_SPI[var as usize] && a.sequence_number == AUTH_SEQ && a.raw_icv() == if var == 2 { &ICV4[..] } else { &[][..] },
    }
}
fn len4(st: &St4) -> usize {
    match st.var {
        0 => 0,
        1 => 12,
        _ => 16,
    }
}
/// the one IPv4 extension is announced by the protocol field of the IPv4 header
fn ref4(st: &St4) -> Result<u8, ()> {
    if st.var != 0 {
        if st.first == AH {
            Ok(st.link)
        } else {
            Err(())
        }
    } else {
        Ok(st.first)
    }
}
fn v4_header(st: &St4) -> Ipv4Header {
    let mut h = Ipv4Header { total_len: (20 + len4(st)) as u16, time_to_live: 64, protocol: IpNumber(st.first), source: [192, 0, 2, 1], destination: [192, 0, 2, 2], ..Default::default() };
    h.header_checksum = h.calc_header_checksum();
    h
}

fn walk4(st: &St4, e: &Ipv4Extensions, b: &mut Bufs, rep: &mut Rep, wrappers: bool) {
    let nt = st.var != 0;
    let rf = ref4(st);
    let first = IpNumber(st.first);
    rep.flags |= F_IPV4;
    match rf {
        Ok(_) => rep.flags |= F_WALK_OK,
        Err(()) => rep.flags |= F_UNREF,
    }
    rep.at("Ipv4Extensions::header_len");
    rep.walker(nt);
    let hl = e.header_len();
    if hl != len4(st) {
        rep.fail("header_len-wrong:Ipv4Extensions", || format!("{}: header_len() == {} expected {}", show4(st), hl, len4(st)));
    }
    if e.is_empty() != (st.var == 0) {
        rep.fail("is_empty-wrong:Ipv4Extensions", || format!("{}: is_empty() == {}", show4(st), st.var != 0));
    }
    rep.at("Ipv4Extensions::next_header");
    rep.walker(nt);
    let nh = match guarded(|| e.next_header(first)) {
        Err(p) => {
            rep.flags |= F_PANIC;
            rep.fail("panic:Ipv4Extensions::next_header", || format!("{}: next_header() panicked ({}); {}", show4(st), p, PANIC_TXT));
            None
        }
        Ok(r) => {
            let ok = match (&rf, &r) {
                (Ok(f), Ok(p)) => p.0 == *f,
                (Err(()), Err(Walk4::ExtNotReferenced { missing_ext })) => missing_ext.0 == AH,
                _ => false,
            };
            if !ok {
                let sig = match (&rf, &r) {
                    (Ok(_), Ok(_)) => "next_header-wrong-final:Ipv4Extensions",
                    (Ok(_), Err(_)) => "next_header-rejects-consistent-chain:Ipv4Extensions",
                    (Err(_), Ok(_)) => "next_header-accepts-inconsistent-chain:Ipv4Extensions",
                    (Err(_), Err(_)) => "next_header-error-names-wrong-inconsistency:Ipv4Extensions",
                };
                rep.fail(sig, || format!("{}: next_header() == {:?}, expected {:?} (Err = auth header not referenced)", show4(st), r, rf));
            }
            Some(r)
        }
    };
    rep.at("Ipv4Extensions::write");
    rep.walker(nt);
    b.w.clear();
    let wr: Option<Result<(), Walk4>> = match guarded(|| e.write(&mut b.w, first)) {
        Err(p) => {
            rep.flags |= F_PANIC;
            rep.fail("panic:Ipv4Extensions::write", || format!("{}: write() panicked ({}); {}", show4(st), p, PANIC_TXT));
            None
        }
        Ok(Err(err::ipv4_exts::HeaderWriteError::Io(x))) => {
            rep.fail("write-io-error-on-vec:Ipv4Extensions", || format!("{}: write() into a Vec returned an io error {:?}", show4(st), x));
            None
        }
        Ok(Ok(())) => Some(Ok(())),
        Ok(Err(err::ipv4_exts::HeaderWriteError::Content(x))) => Some(Err(x)),
    };
    if let Some(wr) = &wr {
        match (&rf, wr) {
            (Ok(_), Ok(())) => {
                rep.flags |= F_WRITE_OK;
                if b.w.len() != hl {
                    rep.fail("write-len-not-header_len:Ipv4Extensions", || format!("{}: write() emitted {} bytes, header_len() == {}", show4(st), b.w.len(), hl));
                }
                b.r.clear();
                if st.var != 0 {
                    ref_slot_bytes(st.var, S_AUTH, st.link, &mut b.r);
                }
                if b.w != b.r {
                    rep.fail("write-bytes-differ-from-chain:Ipv4Extensions", || format!("{}: write() emitted {} expected {}", show4(st), hex(&b.w), hex(&b.r)));
                }
            }
            (Ok(_), Err(x)) => rep.fail("write-rejects-consistent-chain:Ipv4Extensions", || format!("{}: write() == Err({:?})", show4(st), x)),
            (Err(()), Ok(())) => {
                let sig = if b.w.len() < hl { "write-silently-drops-header:Ipv4Extensions" } else { "write-accepts-inconsistent-chain:Ipv4Extensions" };
                rep.fail(sig, || format!("{}: write() == Ok with {} bytes although the auth header is not referenced by the protocol number", show4(st), b.w.len()));
            }
            (Err(()), Err(Walk4::ExtNotReferenced { missing_ext })) => {
                rep.flags |= F_WRITE_ERR;
                if missing_ext.0 != AH {
                    rep.fail("write-error-names-wrong-inconsistency:Ipv4Extensions", || format!("{}: write() names {} as unreferenced", show4(st), missing_ext.0));
                }
            }
        }
        if let Some(nh) = &nh {
            if nh.is_ok() != wr.is_ok() {
                rep.fail("write-and-next_header-disagree:Ipv4Extensions", || format!("{}: next_header() == {:?} but write() == {:?}", show4(st), nh, wr));
            }
        }
    }
    // without an auth header a protocol number 51 makes the decoder look for one (nothing there)
    let must_ok = !(st.var == 0 && st.first == AH);
    if let (Ok(fin), Some(Ok(()))) = (rf, &wr) {
        rep.at("Ipv4Extensions::from_slice");
        rep.walker(nt);
        match Ipv4Extensions::from_slice(first, &b.w) {
            Ok((d, p, rest)) => {
                if !matches4(&d, st.var, st.link) || d != *e {
                    rep.fail("roundtrip-set-differs:Ipv4Extensions::from_slice", || format!("{}: wrote {}, from_slice gave back {:?}", show4(st), hex(&b.w), d.auth.as_ref().map(|a| a.next_header.0)));
                } else if p.0 != fin || !rest.is_empty() {
                    rep.fail("roundtrip-final-protocol-differs:Ipv4Extensions::from_slice", || format!("{}: wrote {}, from_slice reports next protocol {} and {} rest bytes, expected {}", show4(st), hex(&b.w), p.0, rest.len(), fin));
                } else {
                    rep.flags |= F_RT_OK;
                }
            }
            Err(x) => {
                if must_ok {
                    rep.fail("roundtrip-decode-fails:Ipv4Extensions::from_slice", || format!("{}: wrote {}, from_slice == Err({:?})", show4(st), hex(&b.w), x));
                }
            }
        }
        rep.at("Ipv4ExtensionsSlice::from_slice");
        rep.walker(nt);
        match Ipv4ExtensionsSlice::from_slice(first, &b.w) {
            Ok((s, p, rest)) => {
                if !matches4(&s.to_header(), st.var, st.link) || p.0 != fin || !rest.is_empty() || s.is_empty() != (st.var == 0) {
                    rep.fail("roundtrip-differs:Ipv4ExtensionsSlice::from_slice", || format!("{}: wrote {}, the slice decoder reports next protocol {}, {} rest bytes, is_empty {}", show4(st), hex(&b.w), p.0, rest.len(), s.is_empty()));
                }
            }
            Err(x) => {
                if must_ok {
                    rep.fail("roundtrip-decode-fails:Ipv4ExtensionsSlice::from_slice", || format!("{}: wrote {}, from_slice == Err({:?})", show4(st), hex(&b.w), x));
                }
            }
        }
    }
    if !wrappers {
        return;
    }

    // IpHeaders::Ipv4 / NetHeaders::Ipv4 around the same value
    rep.flags |= F_WRAP;
    rep.walker(nt);
    let ip = IpHeaders::Ipv4(v4_header(st), e.clone());
    let net = NetHeaders::Ipv4(v4_header(st), e.clone());
    rep.at("IpHeaders::header_len");
    if ip.header_len() != 20 + len4(st) || net.header_len() != 20 + len4(st) {
        rep.fail("header_len-wrong:IpHeaders:Ipv4", || format!("IpHeaders/NetHeaders::Ipv4 with {}: header_len() == {} / {} expected {}", show4(st), ip.header_len(), net.header_len(), 20 + len4(st)));
    }
    if let Some(nh) = &nh {
        rep.at("IpHeaders::next_header");
        match guarded(|| ip.next_header()) {
            Err(p) => rep.fail("panic:IpHeaders::next_header:Ipv4", || format!("IpHeaders::Ipv4 with {}: next_header() panicked ({}); {}", show4(st), p, PANIC_TXT)),
            Ok(r) => {
                let same = match (&r, nh) {
                    (Ok(a), Ok(bb)) => a == bb,
                    (Err(err::ip_exts::ExtsWalkError::Ipv4Exts(a)), Err(bb)) => a == bb,
                    _ => false,
                };
                if !same {
                    rep.fail("wrapper-differs-from-extensions:IpHeaders::next_header:Ipv4", || format!("IpHeaders::Ipv4 with {}: next_header() == {:?} but Ipv4Extensions::next_header(protocol) == {:?}", show4(st), r, nh));
                }
            }
        }
    }
    if let Some(wr) = &wr {
        rep.at("IpHeaders::write");
        b.w2.clear();
        match guarded(|| ip.write(&mut b.w2)) {
            Err(p) => rep.fail("panic:IpHeaders::write:Ipv4", || format!("IpHeaders::Ipv4 with {}: write() panicked ({}); {}", show4(st), p, PANIC_TXT)),
            Ok(r) => {
                let same = match (&r, wr) {
                    (Ok(()), Ok(())) => b.w2.len() == 20 + b.w.len() && b.w2[20..] == b.w[..] && b.w2[0] == 0x45 && b.w2[9] == st.first,
                    (Err(err::ip::HeadersWriteError::Ipv4Exts(a)), Err(bb)) => a == bb,
                    _ => false,
                };
                if !same {
                    rep.fail("wrapper-differs-from-extensions:IpHeaders::write:Ipv4", || format!("IpHeaders::Ipv4 with {}: write() == {:?} with {} but Ipv4Extensions::write == {:?} with {}", show4(st), r, hex(&b.w2), wr, hex(&b.w)));
                } else if let (Ok(()), Ok(fin)) = (&r, rf) {
                    rep.at("IpHeaders::from_slice");
                    match IpHeaders::from_slice(&b.w2) {
                        Ok((ip2, pl)) => {
                            if ip2 != ip {
                                rep.fail("roundtrip-set-differs:IpHeaders::from_slice:Ipv4", || format!("IpHeaders::Ipv4 with {}: wrote {}, from_slice gave back other headers {:?}", show4(st), hex(&b.w2), ip2));
                            } else if pl.ip_number.0 != fin || !pl.payload.is_empty() {
                                rep.fail("roundtrip-final-protocol-differs:IpHeaders::from_slice:Ipv4", || format!("IpHeaders::Ipv4 with {}: wrote {}, payload ip_number {} ({} bytes) expected {}", show4(st), hex(&b.w2), pl.ip_number.0, pl.payload.len(), fin));
                            }
                        }
                        Err(x) => {
                            if must_ok {
                                rep.fail("roundtrip-decode-fails:IpHeaders::from_slice:Ipv4", || format!("IpHeaders::Ipv4 with {}: wrote {}, from_slice == Err({:?})", show4(st), hex(&b.w2), x));
                            }
                        }
                    }
                }
            }
        }
    }
    // set_next_headers through the three entry points
    rep.flags |= F_SETNEXT;
    for n in SETNEXT_N {
        let (exp_first, exp_link) = if st.var != 0 { (AH, n) } else { (n, 0) };
        rep.walker(nt);
        rep.at("Ipv4Extensions::set_next_headers");
        let mut e2 = e.clone();
        let ret = e2.set_next_headers(IpNumber(n));
        if ret.0 != exp_first || !matches4(&e2, st.var, exp_link) {
            rep.fail("set_next_headers-wrong:Ipv4Extensions", || format!("{}: set_next_headers({}) returned {} and left auth.next_header {:?}; expected {} / {}", show4(st), n, ret.0, e2.auth.as_ref().map(|a| a.next_header.0), exp_first, exp_link));
        }
        rep.at("IpHeaders::set_next_headers");
        let mut ip2 = ip.clone();
        let et = ip2.set_next_headers(IpNumber(n));
        if et.0 != 0x0800 {
            rep.fail("ether-type-of-wrong-version:IpHeaders::set_next_headers:Ipv4", || format!("IpHeaders::Ipv4 with {}: set_next_headers({}) returned ether type {:#06x}, IPv4 is 0x0800", show4(st), n, et.0));
        }
        match &ip2 {
            IpHeaders::Ipv4(h, x) if h.protocol.0 == exp_first && matches4(x, st.var, exp_link) => {}
            _ => rep.fail("ip-header-not-pointing-at-first-extension:IpHeaders::set_next_headers:Ipv4", || format!("IpHeaders::Ipv4 with {}: after set_next_headers({}): {:?}", show4(st), n, ip2.ipv4().map(|(h, x)| (h.protocol.0, x.auth.as_ref().map(|a| a.next_header.0))))),
        }
        rep.at("NetHeaders::try_set_next_headers");
        let mut net2 = net.clone();
        match net2.try_set_next_headers(IpNumber(n)) {
            Ok(et) => {
                if et.0 != 0x0800 {
                    rep.fail("ether-type-of-wrong-version:NetHeaders::try_set_next_headers:Ipv4", || format!("NetHeaders::Ipv4 with {}: try_set_next_headers({}) returned ether type {:#06x}, IPv4 is 0x0800", show4(st), n, et.0));
                }
            }
            Err(x) => rep.fail("try_set_next_headers-fails-on-ip:NetHeaders:Ipv4", || format!("NetHeaders::Ipv4 with {}: try_set_next_headers({}) == Err({:?})", show4(st), n, x)),
        }
        match &net2 {
            NetHeaders::Ipv4(h, x) if h.protocol.0 == exp_first && matches4(x, st.var, exp_link) => {}
            _ => rep.fail("ip-header-not-pointing-at-first-extension:NetHeaders::try_set_next_headers:Ipv4", || format!("NetHeaders::Ipv4 with {}: after try_set_next_headers({}): {:?}", show4(st), n, net2.ipv4_ref().map(|(h, x)| (h.protocol.0, x.auth.as_ref().map(|a| a.next_header.0))))),
        }
    }
}

#[derive(Clone, Copy, Debug)]
enum Op4 {
    Toggle,
    SetNext(u8),
    Rt,
}
const OPS4: [Op4; 4] = [Op4::Toggle, Op4::SetNext(UDP), Op4::SetNext(NONXT), Op4::Rt];

fn chain4(depth: usize, max_depth: usize, st: &St4, e: &Ipv4Extensions, path: &mut Vec<Op4>, b: &mut Bufs, rep: &mut Rep) {
    for op in OPS4 {
        let mut st2 = *st;
        let mut e2 = e.clone();
        let ok = match op {
            Op4::Toggle => {
                if st2.var != 0 {
                    st2.var = 0;
                    st2.link = 0;
                    e2.auth = None;
                } else {
                    st2.var = 1;
                    st2.link = UDP;
                    e2.auth = Some(auth_hdr(1, UDP));
                }
                true
            }
            Op4::SetNext(n) => {
                rep.at("Ipv4Extensions::set_next_headers");
                let r = e2.set_next_headers(IpNumber(n));
                if st2.var != 0 {
                    st2.link = n;
                    st2.first = AH;
                } else {
                    st2.first = n;
                }
                r.0 == st2.first
            }
            Op4::Rt => {
                b.w.clear();
                rep.at("Ipv4Extensions::write");
                match guarded(|| e2.write(&mut b.w, IpNumber(st2.first))) {
                    Ok(Ok(())) if ref4(&st2).is_ok() => match Ipv4Extensions::from_slice(IpNumber(st2.first), &b.w) {
                        Ok((d, _, _)) => {
                            e2 = d;
                            true
                        }
                        Err(_) => false,
                    },
                    _ => false,
                }
            }
        };
        if !ok {
            continue;
        }
        path.push(op);
        rep.flags |= F_IPV4_CHAIN;
        if !matches4(&e2, st2.var, st2.link) {
            rep.fail("chain-state-differs-from-model:Ipv4Extensions", || format!("after {:?}: value {:?} expected {}", path, e2.auth.as_ref().map(|a| a.next_header.0), show4(&st2)));
        } else {
            walk4(&st2, &e2, b, rep, false);
            if depth + 1 < max_depth {
                chain4(depth + 1, max_depth, &st2, &e2, path, b, rep);
            }
        }
        path.pop();
    }
}

// ---- unit layout ---------------------------------------------------------------------------------

/// presence/variant configuration `idx` of the flat sweep (108 = 2 x 2 x 3 x 3 x 3)
fn sweep_cfg(idx: usize) -> [u8; 6] {
    let r = (idx / 4) % 3;
    let mut var = [0u8; 6];
    var[S_HBH] = (idx % 2) as u8;
    var[S_DEST] = ((idx / 2) % 2) as u8;
    var[S_ROUTE] = (r >= 1) as u8;
    var[S_FDEST] = (r == 2) as u8;
    var[S_FRAG] = ((idx / 12) % 3) as u8;
    var[S_AUTH] = ((idx / 36) % 3) as u8;
    var
}
const N_SWEEP_CFG: usize = 108;

/// presence set `idx` of the chain exploration (48 = 2 x 2 x 3 x 2 x 2; fragmenting fragment header, auth without ICV)
fn chain_cfg(idx: usize) -> [u8; 6] {
    let r = (idx / 4) % 3;
    let mut var = [0u8; 6];
    var[S_HBH] = (idx % 2) as u8;
    var[S_DEST] = ((idx / 2) % 2) as u8;
    var[S_ROUTE] = (r >= 1) as u8;
    var[S_FDEST] = (r == 2) as u8;
    var[S_FRAG] = (((idx / 12) % 2) * 2) as u8;
    var[S_AUTH] = ((idx / 24) % 2) as u8;
    var
}
const N_CHAIN_CFG: usize = 48;

/// configurations with many headers first (their units are the long ones)
fn by_size(n: usize, f: fn(usize) -> [u8; 6]) -> Vec<usize> {
    let mut v: Vec<usize> = (0..n).collect();
    v.sort_by_key(|i| (6 - f(*i).iter().filter(|x| **x != 0).count(), *i));
    v
}

fn v_of(tier: Tier) -> &'static [u8] {
    if tier.is_thorough() {
        V_THOROUGH
    } else {
        V_QUICK
    }
}
fn a_of(tier: Tier) -> &'static [u8] {
    if tier.is_thorough() {
        A_THOROUGH
    } else {
        A_QUICK
    }
}

const BLOCK: u64 = 4096;

fn pow(b: usize, e: usize) -> u64 {
    (b as u64).pow(e as u32)
}

/// links of combination `c` (digit j = link of the j-th present slot)
fn links_of(c: u64, ps: &[usize], alpha: &[u8]) -> [u8; 6] {
    let mut link = [0u8; 6];
    let mut c = c;
    for s in ps {
        link[*s] = alpha[(c % alpha.len() as u64) as usize];
        c /= alpha.len() as u64;
    }
    link
}

impl C12 {
    fn n_sweep(tier: Tier) -> u64 {
        (N_SWEEP_CFG * v_of(tier).len()) as u64
    }
    /// the initial link combinations of one (presence set, first, first operation) are dealt to this many units
    fn chain_parts(tier: Tier) -> usize {
        if tier.is_thorough() {
            8
        } else {
            1
        }
    }
    fn n_chain(tier: Tier) -> u64 {
        (N_CHAIN_CFG * a_of(tier).len() * OPS.len() * Self::chain_parts(tier)) as u64
    }

    fn run_sweep(&self, tier: Tier, u: u64, ctx: &mut Ctx) {
        let v = v_of(tier);
        let cfg = by_size(N_SWEEP_CFG, sweep_cfg)[(u as usize) / v.len()];
        let var = sweep_cfg(cfg);
        let first = v[(u as usize) % v.len()];
        let st0 = St { var, link: [0; 6], first };
        let ps = st0.present();
        let combos = pow(v.len(), ps.len());
        let mut cx = V6Ctx::new(&st0);
        let blocks = (combos + BLOCK - 1) / BLOCK;
        for blk in 0..blocks {
            let lo = blk * BLOCK;
            let hi = (lo + BLOCK).min(combos);
            let ps = &ps;
            let cx = &mut cx;
            ctx.case(
                None,
                || CaseDesc {
                    shape: format!("sweep:{}", show_var(&var)),
                    text: format!(
                        "Ipv6Extensions with {} and first header {}: link combinations {}..{} of {} (combination c: the j-th present header gets next_header = V[(c / {}^j) % {}], V = {:?}); all walkers + IpHeaders/NetHeaders wrappers on each",
                        show_var(&var), first, lo, hi, combos, v.len(), v.len(), v
                    ),
                    rank: (ps.len() as u64) * 1_000_000 + (first as u64) * 1000 + blk,
                },
                |case| {
                    let mut rep = Rep::new(case);
                    for c in lo..hi {
                        let st = St { var, link: links_of(c, ps, v), first };
                        check_full(&st, cx, &mut rep);
                    }
                    rep.finish(&format!("sweep {}", show_var(&var)));
                },
            );
            if ctx.done() {
                return;
            }
        }
    }

    /// the states `set_next_headers(n)` produces, from differently polluted link values
    fn run_canon(&self, _tier: Tier, ctx: &mut Ctx) {
        for cfg in 0..N_SWEEP_CFG {
            let var = sweep_cfg(cfg);
            for n in SETNEXT_N {
                ctx.case(
                    None,
                    || CaseDesc {
                        shape: format!("set_next_headers:{}", show_var(&var)),
                        text: format!("Ipv6Extensions with {}: set_next_headers({}) from links all 255 / every header pointing at itself / all 0, then every walker on the result", show_var(&var), n),
                        rank: var.iter().filter(|x| **x != 0).count() as u64 * 10 + 1,
                    },
                    |case| {
                        let mut rep = Rep::new(case);
                        let mut b = Bufs::new();
                        for junk in 0..3 {
                            let mut link = [0u8; 6];
                            for s in 0..6 {
                                if var[s] != 0 {
                                    link[s] = match junk {
                                        0 => 255,
                                        1 => SLOT_NUM[s],
                                        _ => 0,
                                    };
                                }
                            }
                            let init = St { var, link, first: 255 };
                            let mut e = build_exts(&init);
                            rep.at("Ipv6Extensions::set_next_headers");
                            rep.walker(init.k() > 0);
                            rep.flags |= F_SETNEXT;
                            let ret = e.set_next_headers(IpNumber(n));
                            let (exp_first, exp_link) = canonical(&var, n);
                            if ret.0 != exp_first {
                                rep.fail("set_next_headers-returns-wrong-first:Ipv6Extensions", || format!("{}: set_next_headers({}) returned {} expected {}", show(&init), n, ret.0, exp_first));
                            }
                            if !matches_model(&e, &var, &exp_link) {
                                rep.fail("set_next_headers-links-not-in-rfc8200-order:Ipv6Extensions", || format!("{}: after set_next_headers({}) the links are [{}], RFC 8200 order demands {:?}", show(&init), n, dump_links(&e), exp_link));
                                continue;
                            }
                            // the linked chain must walk to n in RFC 8200 order
                            let st = St { var, link: exp_link, first: ret.0 };
                            let rw = ref_walk(&st);
                            let rfc: Vec<usize> = RFC_ORDER.iter().copied().filter(|s| var[*s] != 0).collect();
                            if rw.end != RefEnd::Final(n) || rw.order() != &rfc[..] {
                                rep.fail("oracle-self-check:canonical-links-do-not-walk-in-rfc-order", || format!("{}: reference walk {:?} {:?}", show(&st), rw.order(), rw.end));
                            }
                            rep.at("Ipv6Extensions::next_header");
                            match guarded(|| e.next_header(ret)) {
                                Ok(Ok(p)) if p.0 == n => {}
                                other => rep.fail("linked-chain-does-not-walk-to-n:Ipv6Extensions::next_header", || format!("{}: after set_next_headers({}) == {}, next_header({}) == {:?}", show(&init), n, ret.0, ret.0, other)),
                            }
                            walk_exts(&st, &rw, &e, &mut b, &mut rep);
                            let mut cx = V6Ctx::new(&st);
                            check_full(&st, &mut cx, &mut rep);
                        }
                        rep.finish(&format!("set_next_headers {}", show_var(&var)));
                    },
                );
                if ctx.done() {
                    return;
                }
            }
        }
    }

    fn run_ipv4(&self, tier: Tier, ctx: &mut Ctx) {
        let v = v_of(tier);
        for var in 0..3u8 {
            let links: &[u8] = if var == 0 { &[0] } else { v };
            for link in links {
                for first in v {
                    let st = St4 { var, link: *link, first: *first };
                    ctx.case(
                        None,
                        || CaseDesc { shape: format!("ipv4:{}", if var == 0 { "{}" } else { "{auth}" }), text: format!("{}: all walkers, IpHeaders/NetHeaders wrappers and operation chains of depth <= 3 (4 in the thorough tier)", show4(&st)), rank: var as u64 * 100 },
                        |case| {
                            let mut rep = Rep::new(case);
                            let mut b = Bufs::new();
                            let e = build4(&st);
                            walk4(&st, &e, &mut b, &mut rep, true);
                            let mut path = vec![];
                            chain4(0, chain_depth(tier), &st, &e, &mut path, &mut b, &mut rep);
                            rep.finish(&format!("ipv4 auth-variant {}", var));
                        },
                    );
                    if ctx.done() {
                        return;
                    }
                }
            }
        }
    }

    fn run_chain(&self, tier: Tier, u: u64, ctx: &mut Ctx) {
        let a = a_of(tier);
        let parts = Self::chain_parts(tier);
        let part = (u as usize) % parts;
        let u = (u as usize) / parts;
        let cfg = by_size(N_CHAIN_CFG, chain_cfg)[u / (a.len() * OPS.len())];
        let var = chain_cfg(cfg);
        let first = a[(u / OPS.len()) % a.len()];
        let op0 = OPS[u % OPS.len()];
        let st0 = St { var, link: [0; 6], first };
        let ps = st0.present();
        let combos = pow(a.len(), ps.len());
        let depth = chain_depth(tier);
        for c in (0..combos).filter(|c| (*c as usize) % parts == part) {
            let init = St { var, link: links_of(c, &ps, a), first };
            ctx.case(
                None,
                || CaseDesc {
                    shape: format!("chain:{}:{}", show_var(&var), op_name(op0)),
                    text: format!("from {}: every operation chain of depth <= {} that starts with {} over {{toggle one of the 6 slots (inserted headers point at 17), first:=set_next_headers(17|59), x:=from_slice(first, write(x, first))}}; every reached value must behave like the model state", show(&init), depth, op_name(op0)),
                    rank: 100_000_000 + (ps.len() as u64) * 1_000_000 + c,
                },
                |case| {
                    let mut rep = Rep::new(case);
                    let mut b = Bufs::new();
                    let e = build_exts(&init);
                    rep.chain_init = Some(init);
                    chain_dfs(0, depth, Some(op0), &init, &e, &mut b, &mut rep);
                    rep.finish(&format!("chain {} {}", show_var(&var), op_name(op0)));
                },
            );
            if ctx.done() {
                return;
            }
        }
    }
}

impl Check for C12 {
    fn id(&self) -> &'static str {
        "C12"
    }
    fn rule(&self, tier: Tier) -> String {
        format!(
            "alphabet: Ipv6Extensions with every presence set the struct can hold (48 of the 2^6: final destination options live inside the routing struct) x fragment header (offset 0, M 0 | offset 5, M 1) x auth header (no ICV | 4 byte ICV) = 108 configurations, raw extension payloads 6 bytes filled with a slot-specific byte (every second raw / auth header is produced by a setter history - longer all-ones body, then shrunk in place - instead of directly: the unused tail of the fixed-size buffers must not be observable), \
             x next_header of every present header in V x first header in V, V = {:?} (the 5 extension numbers the crate follows + UDP, NoNextHeader, Mobility{}); Ipv4Extensions (no auth | auth without/with ICV) x auth.next_header in V x protocol in V; complete product, no sampling. \
             walkers on every state: header_len, is_fragmenting_payload, is_empty, next_header(first), write(first), from_slice(first, written bytes), Ipv6ExtensionsSlice::from_slice + iterator, set_next_headers(n) for n in {:?} directly and through IpHeaders::set_next_headers / NetHeaders::try_set_next_headers, \
             IpHeaders::{{next_header, write, header_len, from_slice, is_fragmenting_payload}} and NetHeaders::header_len around the same value; every value produced by set_next_headers from polluted links gets the same walkers; \
             operation chains of depth <= {} over {{toggle one of the 6 slots, first:=set_next_headers(17|59), x:=from_slice(first,write(x,first))}} from every state over the sub-alphabet {:?}, all walkers on every reached value. \
             oracle: reference walker (links followed from the first header; hop-by-hop only directly after the IP header; number 60 names the slot in front of the routing header until a routing header was passed and the final slot afterwards; a link that names no outstanding header ends the chain; all present headers must have been passed), reference encoder from the RFC 8200/4302 diagrams, RFC 8200 §4.1 order for set_next_headers. \
             write Ok <=> next_header Ok <=> reference consistent, errors must be true statements about the state and of the same kind in both, no panic, bytes == headers in link order and len == header_len(), decode(bytes) == same set + same final number + empty rest \
             (a decoder error is accepted only where the final number itself announces a header type with a free slot or hop-by-hop: nothing follows), ether type 0x0800/0x86DD by IP version and the IP header pointing at the first extension. \
             a state = one (configuration, links, first) tuple x one walker; distinct by construction; non-trivial = at least one header present.",
            v_of(tier),
            if tier.is_thorough() { ", ESP, HIP, TCP" } else { "" },
            SETNEXT_N,
            chain_depth(tier),
            a_of(tier)
        )
    }
    fn assumptions(&self, _tier: Tier) -> Vec<String> {
        vec![
            "header sizes are minimal (8 byte raw extension headers, 12/16 byte auth header): the walkers under test never branch on header sizes, only on presence and next_header values".into(),
            "next_header values outside the alphabet behave like the non-extension members of the alphabet (the walkers compare against the five extension numbers only)".into(),
            "a chain that ends in an extension number (possible with arbitrary links) is accepted by write/next_header by design (documented in the code: a placeholder may be replaced later); decoding such bytes alone may legitimately fail with a length or hop-by-hop error".into(),
        ]
    }
    fn units(&self, tier: Tier) -> u64 {
        Self::n_sweep(tier) + 2 + Self::n_chain(tier)
    }
    fn expect_reach(&self, _tier: Tier) -> Vec<String> {
        ["walk-ok", "walk-err-unreferenced", "walk-err-order", "write-ok", "write-err", "roundtrip-ok", "ipv4-auth", "chain-depth-3", "set-next-headers", "ip-headers-wrapper", "walk-ok-final-is-extension-number", "ipv4-chain"].iter().map(|s| s.to_string()).collect()
    }
    fn coverage_extra(&self, tier: Tier) -> Vec<(String, String)> {
        let v = v_of(tier).len() as u64;
        let a = a_of(tier).len() as u64;
        let mut flat = 0u64;
        for c in 0..N_SWEEP_CFG {
            flat += pow(v as usize, sweep_cfg(c).iter().filter(|x| **x != 0).count()) * v;
        }
        let mut init = 0u64;
        for c in 0..N_CHAIN_CFG {
            init += pow(a as usize, chain_cfg(c).iter().filter(|x| **x != 0).count()) * a;
        }
        vec![
            ("ipv6_struct_states".into(), flat.to_string()),
            ("ipv4_struct_states".into(), ((1 + 2 * v) * v).to_string()),
            ("chain_initial_states".into(), init.to_string()),
            ("chain_depth".into(), chain_depth(tier).to_string()),
            ("link_alphabet".into(), format!("{:?}", v_of(tier))),
        ]
    }
    fn run_unit(&self, tier: Tier, u: u64, ctx: &mut Ctx) {
        let ns = Self::n_sweep(tier);
        if u < ns {
            self.run_sweep(tier, u, ctx);
        } else if u == ns {
            self.run_canon(tier, ctx);
        } else if u == ns + 1 {
            self.run_ipv4(tier, ctx);
        } else {
            self.run_chain(tier, u - ns - 2, ctx);
        }
    }
}
