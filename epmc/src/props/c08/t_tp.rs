//! C08 adapters: UDP, TCP, TCP options

use super::refenc as rf;
use super::t_net::OPT_LENS;
use super::ty::*;
use etherparse::*;

pub struct Udp;
impl Ty for Udp {
    type V = UdpHeader;
    const NAME: &'static str = "UdpHeader";
    fn alphabets(th: bool, _: usize) -> Vec<Vec<u64>> {
        vec![ints(16, 0, th), ints(16, 1, th), ints(16, 2, th), ints(16, 3, th)]
    }
    fn build(_: bool, _: usize, v: &[u64]) -> Option<(Self::V, Vec<u8>)> {
        Some((UdpHeader { source_port: v[0] as u16, destination_port: v[1] as u16, length: v[2] as u16, checksum: v[3] as u16 }, rf::udp(v[0] as u16, v[1] as u16, v[2] as u16, v[3] as u16)))
    }
    fn header_len(v: &Self::V) -> usize {
        v.header_len()
    }
    fn ser(v: &Self::V) -> Vec<(&'static str, Vec<u8>)> {
        vec![("to_bytes", v.to_bytes().to_vec()), ("write", wr(|w| v.write(w).unwrap())), ("TransportHeader::Udp.write", wr(|w| TransportHeader::Udp(v.clone()).write(w).unwrap()))]
    }
    fn ser_special(v: &Self::V, r: &[u8]) -> Vec<(&'static str, Vec<u8>, Vec<u8>)> {
        vec![("TransportHeader::Udp.header_len", (TransportHeader::Udp(v.clone()).header_len() as u64).to_be_bytes().to_vec(), (r.len() as u64).to_be_bytes().to_vec())]
    }
    fn dec0(b: &[u8]) -> Dec<Self::V> {
        sl(b, UdpHeader::from_slice(b))
    }
    fn dec_more(b: &[u8]) -> Vec<(&'static str, Dec<Self::V>)> {
        vec![
            ("read", cur(b, |c| UdpHeader::read(c))),
            ("from_bytes", if b.len() >= 8 { Ok((UdpHeader::from_bytes(b[..8].try_into().unwrap()), 8)) } else { Err("short".into()) }),
            ("UdpHeaderSlice::to_header", UdpHeaderSlice::from_slice(b).map(|s| (s.to_header(), s.slice().len())).map_err(dbg)),
        ]
    }
}

pub struct TcpH;
impl Ty for TcpH {
    type V = TcpHeader;
    const NAME: &'static str = "TcpHeader";
    fn alphabets(th: bool, _: usize) -> Vec<Vec<u64>> {
        let mut a = vec![ints(16, 0, th), ints(16, 1, th), ints(32, 2, th), ints(32, 3, th)];
        for _ in 0..9 {
            a.push(bools());
        }
        a.extend([ints(16, 4, th), ints(16, 5, th), ints(16, 6, th), varpart(&OPT_LENS, &pats3())]);
        a
    }
    fn build(_: bool, _: usize, v: &[u64]) -> Option<(Self::V, Vec<u8>)> {
        let opts = varpart_bytes(v[16], 7);
        let b = |i: usize| v[i] != 0;
        let r = rf::Tcp { sp: v[0] as u16, dp: v[1] as u16, seq: v[2] as u32, ack_nr: v[3] as u32, ns: b(4), fin: b(5), syn: b(6), rst: b(7), psh: b(8), ack: b(9), urg: b(10), ece: b(11), cwr: b(12), win: v[13] as u16, csum: v[14] as u16, urgp: v[15] as u16, opts: opts.clone() };
        let h = TcpHeader {
            source_port: r.sp,
            destination_port: r.dp,
            sequence_number: r.seq,
            acknowledgment_number: r.ack_nr,
            ns: r.ns,
            fin: r.fin,
            syn: r.syn,
            rst: r.rst,
            psh: r.psh,
            ack: r.ack,
            urg: r.urg,
            ece: r.ece,
            cwr: r.cwr,
            window_size: r.win,
            checksum: r.csum,
            urgent_pointer: r.urgp,
            options: TcpOptions::try_from_slice(&opts).ok()?,
        };
        Some((h, rf::tcp(&r)))
    }
    fn header_len(v: &Self::V) -> usize {
        v.header_len()
    }
    fn ser(v: &Self::V) -> Vec<(&'static str, Vec<u8>)> {
        vec![("to_bytes", v.to_bytes().to_vec()), ("write", wr(|w| v.write(w).unwrap())), ("TransportHeader::Tcp.write", wr(|w| TransportHeader::Tcp(v.clone()).write(w).unwrap()))]
    }
    fn ser_special(v: &Self::V, r: &[u8]) -> Vec<(&'static str, Vec<u8>, Vec<u8>)> {
        vec![("TransportHeader::Tcp.header_len", (TransportHeader::Tcp(v.clone()).header_len() as u64).to_be_bytes().to_vec(), (r.len() as u64).to_be_bytes().to_vec())]
    }
    fn dec0(b: &[u8]) -> Dec<Self::V> {
        sl(b, TcpHeader::from_slice(b))
    }
    fn dec_more(b: &[u8]) -> Vec<(&'static str, Dec<Self::V>)> {
        vec![("read", cur(b, |c| TcpHeader::read(c))), ("TcpHeaderSlice::to_header", TcpHeaderSlice::from_slice(b).map(|s| (s.to_header(), s.slice().len())).map_err(dbg))]
    }
    fn mask(_b: &[u8], m: &mut [u8]) {
        rf::mask_tcp(m)
    }
}

/// the typed option list together with the `TcpOptions` built from it
#[derive(Clone, Debug, PartialEq)]
pub struct TcpOptV {
    pub elems: Vec<TcpOptionElement>,
    pub o: TcpOptions,
}

/// element alphabet: code 0 = no element
fn elem(code: u64) -> Option<(TcpOptionElement, rf::TcpOpt)> {
    use TcpOptionElement::*;
    let blocks: [(u32, u32); 4] = [(0, 1), (0x5a5b5c5d, 0x6b6c6d6e), (0xffff_fffe, 0xffff_ffff), (0x8000_0000, 0x7fff_ffff)];
    let sack = |n: usize| {
        let mut rest = [None; 3];
        for i in 1..n {
            rest[i - 1] = Some(blocks[i]);
        }
        (SelectiveAcknowledgement(blocks[0], rest), rf::TcpOpt::Sack(blocks[..n].to_vec()))
    };
    Some(match code {
        1 => (Noop, rf::TcpOpt::Nop),
        2 => (MaximumSegmentSize(0), rf::TcpOpt::Mss(0)),
        3 => (MaximumSegmentSize(0x5a5b), rf::TcpOpt::Mss(0x5a5b)),
        4 => (MaximumSegmentSize(0xffff), rf::TcpOpt::Mss(0xffff)),
        5 => (WindowScale(0), rf::TcpOpt::Ws(0)),
        6 => (WindowScale(0x5a), rf::TcpOpt::Ws(0x5a)),
        7 => (WindowScale(0xff), rf::TcpOpt::Ws(0xff)),
        8 => (SelectiveAcknowledgementPermitted, rf::TcpOpt::SackPerm),
        9 => sack(1),
        10 => sack(2),
        11 => sack(3),
        12 => sack(4),
        13 => (Timestamp(0, 0), rf::TcpOpt::Ts(0, 0)),
        14 => (Timestamp(0x5a5b5c5d, 0x6b6c6d6e), rf::TcpOpt::Ts(0x5a5b5c5d, 0x6b6c6d6e)),
        15 => (Timestamp(0xffff_ffff, 0xffff_fffe), rf::TcpOpt::Ts(0xffff_ffff, 0xffff_fffe)),
        _ => return None,
    })
}

fn tcp_with_options(o: &TcpOptions) -> TcpHeader {
    let mut h = TcpHeader::new(1, 2, 3, 4);
    h.options = o.clone();
    h
}

pub fn tcpopts_from_array(b: &[u8]) -> Option<TcpOptions> {
    macro_rules! m {
        ($($n:expr),*) => {
            match b.len() {
                $( $n => { let a: [u8; $n] = b.try_into().unwrap(); Some(TcpOptions::from(a)) } )*
                _ => None,
            }
        };
    }
    m!(4, 8, 12, 16, 20, 24, 28, 32, 36, 40)
}

pub struct TcpO;
impl Ty for TcpO {
    type V = TcpOptV;
    const NAME: &'static str = "TcpOptions";
    const DEC0: &'static str = "try_from_slice+elements_iter";
    const REENC_ZERO_PAD: bool = true;
    fn alphabets(th: bool, _: usize) -> Vec<Vec<u64>> {
        vec![range(16); if th { 5 } else { 4 }]
    }
    fn build(_: bool, _: usize, v: &[u64]) -> Option<(Self::V, Vec<u8>)> {
        // canonical: "no element" only at the end
        let mut elems = vec![];
        let mut refs = vec![];
        let mut ended = false;
        for c in v {
            match elem(*c) {
                None => ended = true,
                Some((e, r)) => {
                    if ended {
                        return None;
                    }
                    elems.push(e);
                    refs.push(r);
                }
            }
        }
        let r = rf::tcp_options(&refs);
        if r.len() > 40 {
            return None; // does not fit a TCP header
        }
        let o = TcpOptions::try_from_elements(&elems).ok()?;
        Some((TcpOptV { elems, o }, r))
    }
    fn header_len(v: &Self::V) -> usize {
        v.o.len()
    }
    fn ser(v: &Self::V) -> Vec<(&'static str, Vec<u8>)> {
        let mut h = TcpHeader::new(1, 2, 3, 4);
        let set = h.set_options(&v.elems).is_ok();
        let as_ref: &[u8] = v.o.as_ref();
        vec![
            ("try_from_elements.as_slice", v.o.as_slice().to_vec()),
            ("deref", (&*v.o).to_vec()),
            ("as_ref", as_ref.to_vec()),
            ("TcpHeader{options}.to_bytes()[20..]", tcp_with_options(&v.o).to_bytes()[20..].to_vec()),
            ("TcpHeader::set_options+write[20..]", if set { wr(|w| h.write(w).unwrap())[20..].to_vec() } else { vec![0xee] }),
        ]
    }
    fn dec0(b: &[u8]) -> Dec<Self::V> {
        let o = TcpOptions::try_from_slice(b).map_err(dbg)?;
        let elems = o.elements_iter().collect::<Result<Vec<_>, _>>().map_err(dbg)?;
        let n = o.len();
        Ok((TcpOptV { elems, o }, n))
    }
    fn dec_more(b: &[u8]) -> Vec<(&'static str, Dec<Self::V>)> {
        let padded = (b.len() + 3) / 4 * 4;
        let mut hdr = rf::tcp(&rf::Tcp { sp: 1, dp: 2, seq: 3, ack_nr: 4, ns: false, fin: false, syn: true, rst: false, psh: false, ack: false, urg: false, ece: false, cwr: false, win: 5, csum: 6, urgp: 7, opts: vec![0; padded.min(40)] });
        hdr[20..20 + b.len().min(40)].copy_from_slice(&b[..b.len().min(40)]);
        let conv = |h: TcpHeader, n: usize| -> Dec<TcpOptV> {
            let elems = h.options_iterator().collect::<Result<Vec<_>, _>>().map_err(dbg)?;
            Ok((TcpOptV { elems, o: h.options }, n - 20))
        };
        let mut v = vec![
            ("TcpHeader::from_slice(..).options", TcpHeader::from_slice(&hdr).map_err(dbg).and_then(|(h, rest)| conv(h, hdr.len() - rest.len()))),
            ("TcpHeader::read(..).options", cur(&hdr, |c| TcpHeader::read(c)).and_then(|(h, n)| conv(h, n))),
        ];
        // From<[u8; N]> exists for N = 4, 8, .., 40
        if let Some(o) = tcpopts_from_array(b) {
            v.push(("From<[u8;N]>", o.elements_iter().collect::<Result<Vec<_>, _>>().map(|elems| (TcpOptV { elems, o }, b.len())).map_err(dbg)));
        }
        v
    }
    /// bytes -> elements -> bytes: RFC 9293 §3.1 "End of Option List ... used at the end of all options": everything from
    /// the first EOL octet on is padding and is normalised to zeros by `try_from_elements`
    fn mask(b: &[u8], m: &mut [u8]) {
        let mut i = 0;
        while i < b.len() {
            match b[i] {
                0 => break,
                1 => i += 1,
                _ => {
                    if i + 1 >= b.len() || b[i + 1] < 2 {
                        return;
                    }
                    i += b[i + 1] as usize;
                }
            }
        }
        for k in i..m.len() {
            m[k] = 0xff;
        }
    }
    /// the raw buffer keeps what followed the EOL octet, the element list is the value that must be stable
    fn same_after_reenc(a: &Self::V, b: &Self::V) -> bool {
        a.elems == b.elems
    }
    fn reenc(v: &Self::V) -> Vec<u8> {
        match TcpOptions::try_from_elements(&v.elems) {
            Ok(o) => o.as_slice().to_vec(),
            Err(e) => format!("{:?}", e).into_bytes(),
        }
    }
    fn extra_bases(_th: bool) -> Vec<(usize, Vec<u64>)> {
        vec![(0, vec![3, 6, 8, 14]), (0, vec![12, 1, 1, 0]), (0, vec![1, 10, 5, 0])]
    }
}

/// raw view of `TcpOptions`: any byte string of up to 40 bytes, zero padded to a multiple of 4
pub struct TcpORaw;
impl Ty for TcpORaw {
    type V = TcpOptions;
    const NAME: &'static str = "TcpOptions:raw";
    const DEC0: &'static str = "try_from_slice";
    fn alphabets(th: bool, _: usize) -> Vec<Vec<u64>> {
        let lens: Vec<usize> = (0..=40).collect();
        vec![varpart(&lens, &pats(th))]
    }
    fn build(_: bool, _: usize, v: &[u64]) -> Option<(Self::V, Vec<u8>)> {
        let mut b = varpart_bytes(v[0], 8);
        let o = TcpOptions::try_from_slice(&b).ok()?;
        while b.len() % 4 != 0 {
            b.push(0);
        }
        Some((o, b))
    }
    fn header_len(v: &Self::V) -> usize {
        v.len()
    }
    fn ser(v: &Self::V) -> Vec<(&'static str, Vec<u8>)> {
        vec![("as_slice", v.as_slice().to_vec()), ("TcpHeader{options}.to_bytes()[20..]", tcp_with_options(v).to_bytes()[20..].to_vec()), ("TcpHeader{options}.write[20..]", wr(|w| tcp_with_options(v).write(w).unwrap())[20..].to_vec())]
    }
    fn dec0(b: &[u8]) -> Dec<Self::V> {
        TcpOptions::try_from_slice(b).map(|o| (o, b.len())).map_err(dbg)
    }
}
