//! C08 (C): "stale bytes after shrinking" — every variable part is set to one size and then to another
//! through the public setters; the result must serialise and compare exactly like the directly
//! constructed value (the complete (A) oracle is applied to the mutated value). Also the unit that
//! serialises every type with all variable parts at their maximum at once.

use super::engine::check_value;
use super::refenc as rf;
use super::t_exts::{self, Tok};
use super::t_net::{self, ARP_LENS, ICV_LENS, OPT_LENS, RAW_LENS};
use super::t_tp;
use super::ty::*;
use crate::fw::*;
use etherparse::*;

pub const N_UNITS: usize = 6;

fn one<T: Ty>(ctx: &mut Ctx, what: String, key: &'static str, make: impl FnOnce() -> Option<(T::V, T::V, Vec<u8>)>) {
    ctx.case(
        None,
        || CaseDesc { shape: format!("{}:{}", key, T::NAME), text: what.clone(), rank: 0 },
        |case| {
            case.at(T::NAME);
            match make() {
                Some((mutated, direct, r)) => {
                    if mutated != direct {
                        case.fail(format!("{}:{}:not-equal-to-directly-constructed", key, T::NAME), truncate(&format!("{}: mutated value {:?} != directly constructed {:?}", what, mutated, direct), 1400));
                    }
                    let ev = check_value::<T>(&mutated, &r, &[], case);
                    case.evals(ev + 1);
                    case.nontrivial();
                    case.reach(key);
                    let f = case.failed();
                    case.outcome(format!("{}:{}:{}", key, T::NAME, if f { "violation" } else { "ok" }));
                }
                None => case.fail(format!("{}:{}:setter-rejected-legal-size", key, T::NAME), format!("{}: a constructor or setter returned an error for a legal size", what)),
            }
        },
    );
}

pub fn run(_tier: Tier, k: usize, ctx: &mut Ctx) {
    const KEY: &str = "stale-shrink";
    match k {
        0 => {
            // AH: set_raw_icv from every size to every size; first content all FF so that stale bytes are visible
            for l1 in ICV_LENS {
                for l2 in ICV_LENS {
                    for c2 in [0u64, 2] {
                        one::<t_net::Ah>(ctx, format!("IpAuthHeader::new(icv {} x 0xff) then set_raw_icv({} bytes, pattern {})", l1, l2, c2), KEY, || {
                            let icv2 = pat(c2, 3, l2);
                            let mut h = IpAuthHeader::new(IpNumber(17), 0x5a5b5c5d, 0xfffffffe, &pat(4, 0, l1)).ok()?;
                            h.set_raw_icv(&icv2).ok()?;
                            Some((h, IpAuthHeader::new(IpNumber(17), 0x5a5b5c5d, 0xfffffffe, &icv2).ok()?, rf::auth(17, 0x5a5b5c5d, 0xfffffffe, &icv2)))
                        });
                    }
                }
            }
                    // histories of depth 3: size -> size -> size (a high-water mark or a lazily cleared tail only shows on the third step)
            for l1 in ICV_LENS {
                for lm in ICV_LENS {
                    for l2 in ICV_LENS {
                        one::<t_net::Ah>(ctx, format!("IpAuthHeader::new(icv {} x 0xff) then set_raw_icv({} bytes, pattern 1) then set_raw_icv({} bytes, pattern 2)", l1, lm, l2), KEY, || {
                            let icv2 = pat(2, 3, l2);
                            let mut h = IpAuthHeader::new(IpNumber(17), 0x5a5b5c5d, 0xfffffffe, &pat(4, 0, l1)).ok()?;
                            h.set_raw_icv(&pat(1, 5, lm)).ok()?;
                            h.set_raw_icv(&icv2).ok()?;
                            Some((h, IpAuthHeader::new(IpNumber(17), 0x5a5b5c5d, 0xfffffffe, &icv2).ok()?, rf::auth(17, 0x5a5b5c5d, 0xfffffffe, &icv2)))
                        });
                    }
                }
            }
        }
        1 => {
            for l1 in RAW_LENS {
                for lm in RAW_LENS {
                    for l2 in RAW_LENS {
                        one::<t_net::RawExt>(ctx, format!("Ipv6RawExtHeader::new_raw(payload {} x 0xff) then set_payload({} bytes, pattern 1) then set_payload({} bytes, pattern 2)", l1, lm, l2), KEY, || {
                            let p2 = pat(2, 3, l2);
                            let mut h = Ipv6RawExtHeader::new_raw(IpNumber(60), &pat(4, 0, l1)).ok()?;
                            h.set_payload(&pat(1, 5, lm)).ok()?;
                            h.set_payload(&p2).ok()?;
                            Some((h, Ipv6RawExtHeader::new_raw(IpNumber(60), &p2).ok()?, rf::raw_ext(60, &p2)))
                        });
                    }
                }
            }
            for l1 in RAW_LENS {
                for l2 in RAW_LENS {
                    for c2 in [0u64, 2] {
                        one::<t_net::RawExt>(ctx, format!("Ipv6RawExtHeader::new_raw(payload {} x 0xff) then set_payload({} bytes, pattern {})", l1, l2, c2), KEY, || {
                            let p2 = pat(c2, 3, l2);
                            let mut h = Ipv6RawExtHeader::new_raw(IpNumber(60), &pat(4, 0, l1)).ok()?;
                            h.set_payload(&p2).ok()?;
                            Some((h, Ipv6RawExtHeader::new_raw(IpNumber(60), &p2).ok()?, rf::raw_ext(60, &p2)))
                        });
                    }
                }
            }
        }
        2 => {
            // IPv4 options: assignment and the deprecated set_options; TCP: set_options_raw (every length 0..=40), set_options, assignment
            let v4 = |opt_code: u64| -> Vec<u64> { vec![0x16, 1, 0x5a5b, 0x6b6c, 1, 0, 0x0b4b, 64, 17, 0x1234, 2, 4, opt_code] };
            for l1 in OPT_LENS {
                for l2 in OPT_LENS {
                    for how in 0..2 {
                        one::<t_net::V4H>(ctx, format!("Ipv4Header with {} option bytes 0xff, then {} {} bytes", l1, if how == 0 { "options = try_from" } else { "set_options" }, l2), KEY, || {
                            let (mut h, _) = t_net::V4H::mk(&v4(l1 as u64 * 8 + 4));
                            let (direct, mut r) = t_net::V4H::mk(&v4(l2 as u64 * 8 + 2));
                            let small = r.opts.clone();
                            if how == 0 {
                                h.options = Ipv4Options::try_from(&small[..]).ok()?;
                            } else {
                                #[allow(deprecated)]
                                h.set_options(&small).ok()?;
                            }
                            r.opts = small;
                            Some((h, direct, rf::ipv4(&r)))
                        });
                    }
                }
            }
            let tcpv = |opt_code: u64| -> Vec<u64> { vec![0x5a5b, 0x6b6c, 0x5a5b5c5d, 0x6b6c6d6e, 1, 0, 1, 0, 1, 0, 1, 0, 1, 0x1234, 0x2345, 0x3456, opt_code] };
            for l1 in [0usize, 4, 20, 40] {
                for l2 in 0..=40usize {
                    one::<t_tp::TcpH>(ctx, format!("TcpHeader with {} option bytes 0xff, then set_options_raw({} bytes)", l1, l2), KEY, || {
                        let (mut h, _) = t_tp::TcpH::build(false, 0, &tcpv(l1 as u64 * 8 + 4))?;
                        let mut small = pat(2, 1, l2);
                        h.set_options_raw(&small).ok()?;
                        // RFC 9293: the header is padded with zeros to a 32 bit boundary
                        while small.len() % 4 != 0 {
                            small.push(0);
                        }
                        let mut direct = t_tp::TcpH::build(false, 0, &tcpv(0))?.0;
                        direct.options = TcpOptions::try_from_slice(&small).ok()?;
                        let mut r = t_tp::TcpH::build(false, 0, &tcpv(0))?.1;
                        r[12] = (r[12] & 0x0f) | (((5 + small.len() / 4) as u8) << 4);
                        r.extend_from_slice(&small);
                        Some((h, direct, r))
                    });
                }
            }
            {
                use TcpOptionElement::*;
                let big = vec![SelectiveAcknowledgement((0xffff_ffff, 0xffff_ffff), [Some((0xffff_ffff, 0xffff_ffff)); 3]), WindowScale(0xff), WindowScale(0xff)];
                let smalls: Vec<(Vec<TcpOptionElement>, Vec<rf::TcpOpt>)> = vec![
                    (vec![], vec![]),
                    (vec![Noop], vec![rf::TcpOpt::Nop]),
                    (vec![WindowScale(7)], vec![rf::TcpOpt::Ws(7)]),
                    (vec![MaximumSegmentSize(0x5a5b), SelectiveAcknowledgementPermitted], vec![rf::TcpOpt::Mss(0x5a5b), rf::TcpOpt::SackPerm]),
                    (vec![Timestamp(1, 2), Noop], vec![rf::TcpOpt::Ts(1, 2), rf::TcpOpt::Nop]),
                ];
                for (elems, refs) in smalls {
                    let big = big.clone();
                    one::<t_tp::TcpH>(ctx, format!("TcpHeader::set_options(40 bytes of SACK/WS elements) then set_options({:?})", elems), KEY, move || {
                        let (mut h, _) = t_tp::TcpH::build(false, 0, &tcpv(0))?;
                        h.set_options(&big).ok()?;
                        h.set_options(&elems).ok()?;
                        let o = rf::tcp_options(&refs);
                        let mut direct = t_tp::TcpH::build(false, 0, &tcpv(0))?.0;
                        direct.options = TcpOptions::try_from_slice(&o).ok()?;
                        let mut r = t_tp::TcpH::build(false, 0, &tcpv(0))?.1;
                        r[12] = (r[12] & 0x0f) | (((5 + o.len() / 4) as u8) << 4);
                        r.extend_from_slice(&o);
                        Some((h, direct, r))
                    });
                }
            }
        }
        3 => {
            for h1 in ARP_LENS {
                for h2 in ARP_LENS {
                    for p1 in [0usize, 4, 255] {
                        for p2 in [0usize, 1, 4, 255] {
                            one::<t_net::Arp>(ctx, format!("ArpPacket::new(hw {} / proto {} bytes of 0xff) then set_hw_addrs({} bytes) and set_protocol_addrs({} bytes)", h1, p1, h2, p2), KEY, || {
                                let mut p = ArpPacket::new(ArpHardwareId(1), EtherType(0x0800), ArpOperation(2), &pat(4, 0, h1), &pat(4, 0, p1), &pat(4, 0, h1), &pat(4, 0, p1)).ok()?;
                                let (sha, spa, tha, tpa) = (pat(2, 0, h2), pat(2, 1, p2), pat(2, 2, h2), pat(2, 3, p2));
                                p.set_hw_addrs(&sha, &tha).ok()?;
                                p.set_protocol_addrs(&spa, &tpa).ok()?;
                                Some((p, ArpPacket::new(ArpHardwareId(1), EtherType(0x0800), ArpOperation(2), &sha, &spa, &tha, &tpa).ok()?, rf::arp(1, 0x0800, 2, &sha, &spa, &tha, &tpa)))
                            });
                        }
                    }
                }
            }
        }
        4 => {
            // MACsec: longest layout (SCI + ether type) shrunk field by field
            for (drop_sci, drop_et) in [(true, false), (false, true), (true, true), (false, false)] {
                one::<super::t_link::Macsec>(ctx, format!("MacsecHeader with SCI and ether type all ones, then sci=None:{} ptype=Modified:{}", drop_sci, drop_et), KEY, || {
                    let mk = |pt: MacsecPType, sci: Option<u64>| MacsecHeader { ptype: pt, endstation_id: true, scb: false, an: MacsecAn::try_new(3).unwrap(), short_len: MacsecShortLen::try_from_u8(0x2a).unwrap(), packet_nr: 0x5a5b5c5d, sci };
                    let mut h = mk(MacsecPType::Unmodified(EtherType(0xffff)), Some(u64::MAX));
                    let _ = h.to_bytes();
                    let sci = if drop_sci { None } else { Some(0x1112131415161718) };
                    h.sci = sci;
                    let (pt, et, c) = if drop_et { (MacsecPType::Modified, None, true) } else { (MacsecPType::Unmodified(EtherType(0x0800)), Some(0x0800), false) };
                    h.ptype = pt;
                    Some((h, mk(pt, sci), rf::macsec(true, false, false, c, 3, 0x2a, 0x5a5b5c5d, sci, et)))
                });
            }
            // extension sets: big parts replaced by small ones in place
            let chain = [Tok::Hbh, Tok::Dest, Tok::Route, Tok::Auth, Tok::FDest];
            one::<t_exts::Ext6>(ctx, "Ipv6Extensions [hbh,dest,route,auth,final dest] with maximum sizes, every part then shrunk in place with set_payload / set_raw_icv".into(), KEY, || {
                let ((s, mut e, last), _) = t_exts::x6_mk(&chain, 3, 17)?;
                let ((_, direct, _), mut r) = t_exts::x6_mk(&chain, 0, 17)?;
                e.hop_by_hop_options.as_mut()?.set_payload(&pat(2, 0, 6)).ok()?;
                e.destination_options.as_mut()?.set_payload(&pat(2, 1, 6)).ok()?;
                e.routing.as_mut()?.routing.set_payload(&pat(2, 2, 6)).ok()?;
                e.routing.as_mut()?.final_destination_options.as_mut()?.set_payload(&pat(2, 4, 6)).ok()?;
                let a = e.auth.as_mut()?;
                a.set_raw_icv(&[]).ok()?;
                a.spi = 0;
                a.sequence_number = 0;
                r.insert(0, s);
                Some(((s, e, last), (s, direct, last), r))
            });
            one::<t_exts::Ext4>(ctx, "Ipv4Extensions with a 1016 byte ICV, then set_raw_icv(4 bytes)".into(), KEY, || {
                let mut e = Ipv4Extensions { auth: Some(IpAuthHeader::new(IpNumber(6), 1, 2, &pat(4, 0, 1016)).ok()?) };
                e.auth.as_mut()?.set_raw_icv(&[9, 8, 7, 6]).ok()?;
                let direct = Ipv4Extensions { auth: Some(IpAuthHeader::new(IpNumber(6), 1, 2, &[9, 8, 7, 6]).ok()?) };
                let mut r = rf::auth(6, 1, 2, &[9, 8, 7, 6]);
                r.insert(0, 51);
                Some(((51, e, 6), (51, direct, 6), r))
            });
        }
        _ => {
            // every variable part at its maximum at the same time
            const MK: &str = "max-variable-part";
            fn mx<T: Ty>(ctx: &mut Ctx, variant: usize, vals: Vec<u64>, want_len: usize) {
                one::<T>(ctx, format!("{} with every variable part at its maximum: field values {:x?}", T::NAME, vals), MK, || {
                    let (v, r) = T::build(false, variant, &vals)?;
                    if r.len() != want_len {
                        return None;
                    }
                    Some((v.clone(), v, r))
                });
            }
            let last = |a: Vec<Vec<u64>>| -> Vec<u64> { a.iter().map(|x| *x.last().unwrap()).collect() };
            mx::<t_net::V4H>(ctx, 0, last(t_net::V4H::alphabets(false, 0)), 60);
            mx::<t_net::V4O>(ctx, 0, last(t_net::V4O::alphabets(false, 0)), 40);
            mx::<t_tp::TcpH>(ctx, 0, last(t_tp::TcpH::alphabets(false, 0)), 60);
            mx::<t_tp::TcpORaw>(ctx, 0, last(t_tp::TcpORaw::alphabets(false, 0)), 40);
            mx::<t_tp::TcpO>(ctx, 0, vec![12, 6, 6, 0], 40);
            mx::<t_net::Ah>(ctx, 0, last(t_net::Ah::alphabets(false, 0)), 1028);
            mx::<t_net::RawExt>(ctx, 0, last(t_net::RawExt::alphabets(false, 0)), 2048);
            mx::<t_net::Arp>(ctx, 0, last(t_net::Arp::alphabets(false, 0)), 8 + 4 * 255);
            mx::<super::t_link::Macsec>(ctx, 0, last(super::t_link::Macsec::alphabets(false, 0)), 16);
            mx::<t_exts::Ext4>(ctx, 0, last(t_exts::Ext4::alphabets(false, 0)), 1 + 1028);
            let ch = t_exts::chains();
            let full = ch.iter().position(|c| c[..] == [Tok::Hbh, Tok::Dest, Tok::Route, Tok::Frag, Tok::Auth, Tok::FDest]).unwrap() as u64;
            let full2 = ch.iter().position(|c| c[..] == [Tok::Hbh, Tok::Auth, Tok::Dest, Tok::Route, Tok::FDest, Tok::Frag]).unwrap() as u64;
            let xl = 4 * 2048 + 8 + 1028;
            mx::<t_exts::Ext6>(ctx, 0, vec![full, 3, 17], 1 + xl);
            mx::<t_exts::Ext6>(ctx, 0, vec![full2, 3, 58], 1 + xl);
            mx::<t_exts::Ip6>(ctx, 0, vec![0xff, 0xfffff, 0xff, 4, 4, full, 3, 6], 40 + xl);
            let ip4 = t_exts::Ip4::alphabets(false, 0);
            let mut v = last(ip4);
            v[11] = 17;
            mx::<t_exts::Ip4>(ctx, 0, v, 60 + 1028);
        }
    }
}
