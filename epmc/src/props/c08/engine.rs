//! C08 engine: enumeration of value spaces (full product or bounded deviations from three
//! backgrounds), the value -> bytes -> value oracle, the bit flip enumeration and the
//! bytes -> value -> bytes oracle. Generic over the adapter trait `Ty`.

use super::ty::*;
use crate::fw::*;

pub const QUICK_LIMIT: u64 = 2_000_000;
pub const THOROUGH_LIMIT: u64 = 100_000_000;

#[derive(Clone, Copy, Debug, PartialEq)]
pub enum Mode {
    Product,
    /// all vectors that differ from one of the three backgrounds in at most k fields
    Dev(usize),
}

pub struct Space {
    pub variant: usize,
    pub alph: Vec<Vec<u64>>,
    pub mode: Mode,
    /// number of index vectors enumerated (upper bound in Dev mode: vectors close to two backgrounds are visited once)
    pub count: u64,
}

/// Σ_{|S| <= k} Π_{i in S} (n_i - 1)
fn dev_count(alph: &[Vec<u64>], k: usize) -> u64 {
    let mut e = vec![0u128; k + 1];
    e[0] = 1;
    for a in alph {
        let d = (a.len() - 1) as u128;
        for j in (1..=k).rev() {
            e[j] = e[j].saturating_add(e[j - 1].saturating_mul(d));
        }
    }
    e.iter().fold(0u128, |s, x| s.saturating_add(*x)).min(u64::MAX as u128) as u64
}

pub fn backgrounds(alph: &[Vec<u64>]) -> Vec<Vec<usize>> {
    let zeros: Vec<usize> = alph.iter().map(|_| 0).collect();
    let ones: Vec<usize> = alph.iter().map(|a| a.len() - 1).collect();
    let mixed: Vec<usize> = alph.iter().enumerate().map(|(i, a)| if a.len() <= 2 { i % a.len() } else { a.len() / 2 }).collect();
    let mut v = vec![zeros];
    for b in [ones, mixed] {
        if !v.contains(&b) {
            v.push(b);
        }
    }
    v
}

pub fn spaces<T: Ty>(th: bool) -> Vec<Space> {
    let limit = (if th { THOROUGH_LIMIT } else { QUICK_LIMIT }) / T::HEAVY;
    (0..T::variants(th))
        .map(|variant| {
            let alph = T::alphabets(th, variant);
            assert!(alph.iter().all(|a| !a.is_empty()));
            let product = alph.iter().fold(1u128, |p, a| p.saturating_mul(a.len() as u128));
            if product <= limit as u128 {
                Space { variant, alph, mode: Mode::Product, count: product as u64 }
            } else {
                let nb = backgrounds(&alph).len() as u64;
                let mut k = 2;
                while k < alph.len() && dev_count(&alph, k + 1).saturating_mul(nb) <= limit {
                    k += 1;
                }
                let count = dev_count(&alph, k).saturating_mul(nb);
                Space { variant, alph, mode: Mode::Dev(k), count }
            }
        })
        .collect()
}

const CHUNK: u64 = 2048;

/// visits the index vectors of work items `item % parts == part` (items are numbered across all spaces of a type)
pub fn enumerate_space(sp: &Space, part: u64, parts: u64, item: &mut u64, visit: &mut dyn FnMut(&[usize])) {
    let n = sp.alph.len();
    match sp.mode {
        Mode::Product => {
            let mut start = 0u64;
            let mut idx = vec![0usize; n];
            while start < sp.count {
                let end = (start + CHUNK).min(sp.count);
                if *item % parts == part {
                    for lin in start..end {
                        let mut x = lin;
                        for f in (0..n).rev() {
                            let l = sp.alph[f].len() as u64;
                            idx[f] = (x % l) as usize;
                            x /= l;
                        }
                        visit(&idx);
                    }
                }
                *item += 1;
                start = end;
            }
        }
        Mode::Dev(k) => {
            let bgs = backgrounds(&sp.alph);
            for (bi, bg) in bgs.iter().enumerate() {
                for size in 0..=k.min(n) {
                    // combinations of `size` fields in lexicographic order
                    let mut comb: Vec<usize> = (0..size).collect();
                    loop {
                        if *item % parts == part {
                            // every assignment of non-background values to the chosen fields
                            let mut idx = bg.clone();
                            let mut ctr = vec![0usize; size];
                            'assign: loop {
                                let mut ok = true;
                                for (j, f) in comb.iter().enumerate() {
                                    // ctr[j] runs over the alphabet without the background value
                                    let l = sp.alph[*f].len();
                                    if l < 2 {
                                        ok = false;
                                        break;
                                    }
                                    let v = if ctr[j] >= bg[*f] { ctr[j] + 1 } else { ctr[j] };
                                    idx[*f] = v;
                                }
                                if !ok {
                                    break 'assign;
                                }
                                // already visited from an earlier background?
                                let dup = bgs[..bi].iter().any(|o| o.iter().zip(idx.iter()).filter(|(a, b)| a != b).count() <= k);
                                if !dup {
                                    visit(&idx);
                                }
                                // next assignment
                                let mut j = size;
                                loop {
                                    if j == 0 {
                                        break 'assign;
                                    }
                                    j -= 1;
                                    ctr[j] += 1;
                                    if ctr[j] < sp.alph[comb[j]].len() - 1 {
                                        break;
                                    }
                                    ctr[j] = 0;
                                }
                            }
                        }
                        *item += 1;
                        // next combination
                        let mut j = size;
                        let mut advanced = false;
                        while j > 0 {
                            j -= 1;
                            if comb[j] < n - size + j {
                                comb[j] += 1;
                                for t in j + 1..size {
                                    comb[t] = comb[t - 1] + 1;
                                }
                                advanced = true;
                                break;
                            }
                        }
                        if !advanced {
                            break;
                        }
                    }
                }
            }
        }
    }
}

fn short(s: String) -> String {
    truncate(&s, 1400)
}

fn first_diff(a: &[u8], b: &[u8]) -> String {
    if a.len() != b.len() {
        return format!("lengths {} vs {}", a.len(), b.len());
    }
    match (0..a.len()).find(|i| a[*i] != b[*i]) {
        Some(i) => format!("first difference at byte {}: {:#04x} vs {:#04x}", i, a[i], b[i]),
        None => "equal".into(),
    }
}

/// value -> bytes -> value
pub fn check_value<T: Ty>(v: &T::V, r: &[u8], vals: &[u64], case: &mut Case) -> u64 {
    let mut evals = 0u64;
    let hl = T::header_len(v);
    evals += 1;
    if hl != r.len() {
        case.fail(format!("A:{}:header_len-differs-from-reference-length", T::NAME), short(format!("header_len()={} but the reference encoding has {} bytes; value {:?} (field values {:x?})", hl, r.len(), v, vals)));
    }
    let sers = T::ser(v);
    for (name, got) in &sers {
        evals += 1;
        if got.len() != hl {
            case.fail(format!("A:{}:{}:length-is-not-header_len", T::NAME, name), short(format!("{} gave {} bytes, header_len()={}; value {:?}", name, got.len(), hl, v)));
        }
        if got[..] != r[..] {
            case.fail(
                format!("A:{}:{}:bytes-differ-from-reference", T::NAME, name),
                short(format!("{} gave {} but the field-by-field reference encoding is {} ({}); value {:?} (field values {:x?})", name, hex(got), hex(r), first_diff(got, r), v, vals)),
            );
        }
        if got[..] != sers[0].1[..] {
            case.fail(format!("A:{}:{}:serialisers-disagree", T::NAME, name), short(format!("{} gave {} but {} gave {}; value {:?}", name, hex(got), sers[0].0, hex(&sers[0].1), v)));
        }
    }
    for (name, got, want) in T::ser_special(v, r) {
        evals += 1;
        if got != want {
            case.fail(format!("A:{}:{}:bytes-differ-from-reference", T::NAME, name), short(format!("{} gave {} expected {} ({}); value {:?}", name, hex(&got), hex(&want), first_diff(&got, &want), v)));
        }
    }
    // decode what the crate wrote
    let bytes = &sers[0].1;
    let mut decs = vec![(T::DEC0, T::dec0(bytes))];
    decs.extend(T::dec_more(bytes));
    for (name, res) in decs {
        evals += 1;
        match res {
            Ok((v2, consumed)) => {
                if v2 != *v {
                    case.fail(format!("A:{}:{}:decoded-value-differs", T::NAME, name), short(format!("{} of {} returned {:?}, the encoded value was {:?}", name, hex(bytes), v2, v)));
                }
                if consumed != bytes.len() {
                    case.fail(format!("A:{}:{}:remainder-not-empty", T::NAME, name), short(format!("{} of the {} encoded bytes {} consumed {} bytes; value {:?}", name, bytes.len(), hex(bytes), consumed, v)));
                }
            }
            Err(e) => {
                case.fail(format!("A:{}:{}:rejects-own-encoding", T::NAME, name), short(format!("{} rejected {} with {}; value {:?}", name, hex(bytes), e, v)));
            }
        }
    }
    evals
}

/// bytes -> value -> bytes for one (mutated) string; returns true when the primary decoder accepted it
pub fn check_bytes<T: Ty>(b: &[u8], what: &dyn Fn() -> String, case: &mut Case) -> bool {
    let r0 = T::dec0(b);
    if r0.is_err() {
        return false;
    }
    let mut decs = vec![(T::DEC0, r0)];
    decs.extend(T::dec_more(b));
    for (di, (name, res)) in decs.into_iter().enumerate() {
        let (v, consumed) = match res {
            Ok(x) => x,
            Err(_) => continue,
        };
        if consumed > b.len() {
            case.fail(format!("B:{}:{}:consumed-more-than-given", T::NAME, name), short(format!("{}: {} of {} consumed {} of {} bytes", what(), name, hex(b), consumed, b.len())));
            continue;
        }
        let hdr = &b[..consumed];
        let mut re = T::reenc(&v);
        if T::REENC_ZERO_PAD {
            while re.len() < consumed {
                re.push(0);
            }
        }
        let mut m = vec![0u8; consumed];
        T::mask(hdr, &mut m);
        if re.len() != consumed {
            case.fail(format!("B:{}:{}:reencoded-length-differs", T::NAME, name), short(format!("{}: {} consumed {} bytes of {} and returned {:?}, which re-encodes to {} bytes {}", what(), name, consumed, hex(b), v, re.len(), hex(&re))));
        } else if let Some(i) = (0..consumed).find(|i| (re[*i] ^ hdr[*i]) & !m[*i] != 0) {
            case.fail(
                format!("B:{}:{}:reencoded-bytes-differ-outside-reserved-bits", T::NAME, name),
                short(format!("{}: {} of {} returned {:?}, which re-encodes to {}: byte {} is {:#04x}, was {:#04x}, reserved/normalised bits there {:#04x}", what(), name, hex(hdr), v, hex(&re), i, re[i], hdr[i], m[i])),
            );
        }
        // idempotence: decode(re-encoded) is the same value
        // (followed by whatever followed the header in the original string, so that decoders which look at the
        // total length see the same length as before)
        let mut full = re.clone();
        if re.len() == consumed {
            full.extend_from_slice(&b[consumed..]);
        }
        let again = if di == 0 { T::dec0(&full) } else { T::dec_more(&full).into_iter().nth(di - 1).map(|x| x.1).unwrap_or(Err("decoder missing".into())) };
        match again {
            Ok((v2, c2)) => {
                if !T::same_after_reenc(&v, &v2) {
                    case.fail(format!("B:{}:{}:not-idempotent", T::NAME, name), short(format!("{}: {} of {} = {:?}; re-encoded {} decodes to {:?}", what(), name, hex(hdr), v, hex(&re), v2)));
                } else if c2 != re.len() {
                    case.fail(format!("B:{}:{}:reencoded-not-consumed-completely", T::NAME, name), short(format!("{}: re-encoded {} : {} consumed {} bytes", what(), hex(&re), name, c2)));
                }
            }
            Err(e) => {
                case.fail(format!("B:{}:{}:rejects-reencoded", T::NAME, name), short(format!("{}: {} accepted {} as {:?} but rejects its re-encoding {} with {}", what(), name, hex(hdr), v, hex(&re), e)));
            }
        }
    }
    true
}

/// all work of the value side for one type, items `% parts == part`
pub fn run_a<T: Ty>(tier: Tier, part: u64, parts: u64, ctx: &mut Ctx) {
    let th = tier.is_thorough();
    let sps = spaces::<T>(th);
    let block_size = (1024 / T::HEAVY).max(16) as usize;
    let mut item = 0u64;
    for sp in &sps {
        let mut block: Vec<Vec<usize>> = Vec::with_capacity(block_size);
        {
            let mut visit = |idx: &[usize]| {
                block.push(idx.to_vec());
                if block.len() >= block_size {
                    flush_a::<T>(ctx, th, sp, &mut block);
                }
            };
            enumerate_space(sp, part, parts, &mut item, &mut visit);
        }
        flush_a::<T>(ctx, th, sp, &mut block);
        if ctx.done() {
            return;
        }
    }
}

fn flush_a<T: Ty>(ctx: &mut Ctx, th: bool, sp: &Space, block: &mut Vec<Vec<usize>>) {
    if block.is_empty() {
        return;
    }
    let b = std::mem::take(block);
    let vals_of = |idx: &Vec<usize>| -> Vec<u64> { idx.iter().enumerate().map(|(f, i)| sp.alph[f][*i]).collect() };
    ctx.case(
        None,
        || CaseDesc {
            shape: format!("A:{}", T::NAME),
            text: format!(
                "{} (sub-space {} of the type, {:?}): {} field value vectors, first {:x?} last {:x?} (alphabet sizes {:?})",
                T::NAME,
                sp.variant,
                sp.mode,
                b.len(),
                vals_of(&b[0]),
                vals_of(&b[b.len() - 1]),
                sp.alph.iter().map(|a| a.len()).collect::<Vec<_>>()
            ),
            rank: b[0].iter().map(|x| *x as u64).sum(),
        },
        |case| {
            case.at(T::NAME);
            let (mut n, mut nt, mut ev) = (0u64, 0u64, 0u64);
            for idx in &b {
                let vals = vals_of(idx);
                if let Some((v, r)) = T::build(th, sp.variant, &vals) {
                    n += 1;
                    if idx.iter().any(|i| *i != 0) {
                        nt += 1;
                    }
                    ev += check_value::<T>(&v, &r, &vals, case);
                }
            }
            case.states(n);
            case.evals(ev);
            case.nontrivial_n(nt);
            if n > 0 {
                case.reach(format!("A:{}", T::NAME));
            }
            let f = case.failed();
            case.outcome(format!("A:{}:{}:{}", T::NAME, sp.variant, if f { "violation" } else { "round-trips" }));
        },
    );
}

/// base encodings of the bit flip enumeration: the backgrounds of the first sub-space plus the adapter's extra ones
pub fn bases<T: Ty>(th: bool) -> Vec<(String, Vec<u8>)> {
    let mut out: Vec<(String, Vec<u8>)> = vec![];
    let alph = T::alphabets(th, 0);
    for (i, bg) in backgrounds(&alph).iter().enumerate() {
        let vals: Vec<u64> = bg.iter().enumerate().map(|(f, i)| alph[f][*i]).collect();
        if let Some((_, r)) = T::build(th, 0, &vals) {
            out.push((format!("{} of sub-space 0, field values {:x?}", ["all-min", "all-max", "mixed"][i.min(2)], vals), r));
        }
    }
    for (variant, vals) in T::extra_bases(th) {
        if let Some((_, r)) = T::build(th, variant, &vals) {
            out.push((format!("sub-space {}, field values {:x?}", variant, vals), r));
        }
    }
    let mut seen: Vec<Vec<u8>> = vec![];
    out.retain(|(_, r)| {
        if seen.contains(r) {
            false
        } else {
            seen.push(r.clone());
            true
        }
    });
    out
}

/// number of leading bytes in which all 2-bit flips are enumerated
pub fn pair_window(th: bool, len: usize) -> usize {
    len.min(if th { 64 } else { 8 })
}

pub fn run_b<T: Ty>(tier: Tier, base_no: usize, ctx: &mut Ctx) {
    let th = tier.is_thorough();
    let bs = bases::<T>(th);
    let (label, base) = &bs[base_no];
    let nbits = base.len() * 8;
    let w = pair_window(th, base.len()) * 8;
    let flip = |b: &mut [u8], i: usize| b[i / 8] ^= 0x80 >> (i % 8);
    // the unmodified base
    ctx.case(
        None,
        || CaseDesc { shape: format!("B:{}", T::NAME), text: format!("{}: base encoding {} ({}) unmodified", T::NAME, hex(base), label), rank: 0 },
        |case| {
            case.at(T::NAME);
            let acc = check_bytes::<T>(base, &|| "unmodified base".to_string(), case);
            if !acc {
                case.fail(format!("B:{}:{}:rejects-reference-encoding", T::NAME, T::DEC0), format!("{} rejected the reference encoding {} ({})", T::DEC0, hex(base), label));
            }
            case.evals(3);
            case.nontrivial();
            case.reach(format!("B:{}", T::NAME));
            case.outcome(format!("B:{}:accepted", T::NAME));
        },
    );
    for i in 0..nbits {
        if ctx.done() {
            return;
        }
        ctx.case(
            None,
            || CaseDesc {
                shape: format!("B:{}", T::NAME),
                text: format!("{}: base encoding {} ({}) with bit {} flipped (bit 0 = MSB of byte 0){}", T::NAME, hex(base), label, i, if i < w { format!(", and additionally each of the bits {}..{}", i + 1, w) } else { String::new() }),
                rank: 1 + i as u64,
            },
            |case| {
                case.at(T::NAME);
                let mut m = base.clone();
                flip(&mut m, i);
                let (mut n, mut acc) = (1u64, 0u64);
                if check_bytes::<T>(&m, &|| format!("bit {} flipped", i), case) {
                    acc += 1;
                }
                if i < w {
                    for j in i + 1..w {
                        flip(&mut m, j);
                        n += 1;
                        if check_bytes::<T>(&m, &|| format!("bits {} and {} flipped", i, j), case) {
                            acc += 1;
                        }
                        flip(&mut m, j);
                    }
                }
                case.states(n);
                case.evals(n + 3 * acc);
                case.nontrivial_n(acc);
                if acc > 0 {
                    case.reach(format!("B:{}", T::NAME));
                }
                let f = case.failed();
                case.outcome(format!("B:{}:{}{}", T::NAME, if acc == n { "all-accepted" } else if acc == 0 { "all-rejected" } else { "some-accepted" }, if f { ":violation" } else { "" }));
            },
        );
    }
}
