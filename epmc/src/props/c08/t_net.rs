//! C08 adapters: ARP, IPv4 header + options, IPv6 header, AH, raw extension header, fragment header

use super::refenc as rf;
use super::ty::*;
use etherparse::*;

pub const ARP_LENS: [usize; 6] = [0, 1, 4, 6, 16, 255];

pub struct Arp;
impl Ty for Arp {
    type V = ArpPacket;
    const NAME: &'static str = "ArpPacket";
    const HEAVY: u64 = 2;
    fn alphabets(th: bool, _: usize) -> Vec<Vec<u64>> {
        let lens: Vec<u64> = ARP_LENS.iter().map(|x| *x as u64).collect();
        let c = if th { pats(false) } else { pats3() };
        vec![ints(16, 0, th), with(ints(16, 1, th), &[0x0800]), with(ints(16, 2, th), &[2]), lens.clone(), lens, c.clone(), c.clone(), c.clone(), c]
    }
    fn build(_: bool, _: usize, v: &[u64]) -> Option<(Self::V, Vec<u8>)> {
        let (hl, pl) = (v[3] as usize, v[4] as usize);
        // zero length addresses have no content
        if (hl == 0 && (v[5] != 0 || v[7] != 0)) || (pl == 0 && (v[6] != 0 || v[8] != 0)) {
            return None;
        }
        let sha = pat(v[5], 0, hl);
        let spa = pat(v[6], 1, pl);
        let tha = pat(v[7], 2, hl);
        let tpa = pat(v[8], 3, pl);
        let p = ArpPacket::new(ArpHardwareId(v[0] as u16), EtherType(v[1] as u16), ArpOperation(v[2] as u16), &sha, &spa, &tha, &tpa).ok()?;
        Some((p, rf::arp(v[0] as u16, v[1] as u16, v[2] as u16, &sha, &spa, &tha, &tpa)))
    }
    fn header_len(v: &Self::V) -> usize {
        v.packet_len()
    }
    fn ser(v: &Self::V) -> Vec<(&'static str, Vec<u8>)> {
        vec![("to_bytes", v.to_bytes().to_vec()), ("write", wr(|w| v.write(w).unwrap()))]
    }
    fn dec0(b: &[u8]) -> Dec<Self::V> {
        let p = ArpPacket::from_slice(b).map_err(dbg)?;
        let n = ArpPacketSlice::from_slice(b).map_err(dbg)?.slice().len();
        Ok((p, n))
    }
    fn dec_more(b: &[u8]) -> Vec<(&'static str, Dec<Self::V>)> {
        vec![("read", cur(b, |c| ArpPacket::read(c)))]
    }
    fn extra_bases(_th: bool) -> Vec<(usize, Vec<u64>)> {
        vec![(0, vec![1, 0x0800, 1, 6, 4, 2, 2, 2, 2]), (0, vec![0x5a5b, 0x6b6c, 2, 1, 16, 2, 2, 4, 0])]
    }
}

pub struct ArpEth;
impl Ty for ArpEth {
    type V = ArpEthIpv4Packet;
    const NAME: &'static str = "ArpEthIpv4Packet";
    const DEC0: &'static str = "ArpPacket::from_slice+try_eth_ipv4";
    fn alphabets(th: bool, _: usize) -> Vec<Vec<u64>> {
        vec![with(ints(16, 2, th), &[2]), pats(th), pats(th), pats(th), pats(th)]
    }
    fn build(_: bool, _: usize, v: &[u64]) -> Option<(Self::V, Vec<u8>)> {
        let p = ArpEthIpv4Packet { operation: ArpOperation(v[0] as u16), sender_mac: arr(v[1], 0), sender_ipv4: arr(v[2], 1), target_mac: arr(v[3], 2), target_ipv4: arr(v[4], 3) };
        // RFC 826 with hrd = 1 (Ethernet), pro = 0x0800, hln 6, pln 4
        let r = rf::arp(1, 0x0800, v[0] as u16, &p.sender_mac, &p.sender_ipv4, &p.target_mac, &p.target_ipv4);
        Some((p, r))
    }
    fn header_len(_: &Self::V) -> usize {
        ArpEthIpv4Packet::LEN
    }
    fn ser(v: &Self::V) -> Vec<(&'static str, Vec<u8>)> {
        vec![("to_bytes", v.to_bytes().to_vec()), ("to_arp_packet().to_bytes", v.to_arp_packet().to_bytes().to_vec()), ("ArpPacket::from(..).write", wr(|w| ArpPacket::from(v.clone()).write(w).unwrap()))]
    }
    fn dec0(b: &[u8]) -> Dec<Self::V> {
        let p = ArpPacket::from_slice(b).map_err(dbg)?;
        let n = p.packet_len();
        Ok((p.try_eth_ipv4().map_err(dbg)?, n))
    }
    fn dec_more(b: &[u8]) -> Vec<(&'static str, Dec<Self::V>)> {
        vec![(
            "ArpPacket::read+try_from",
            match cur(b, |c| ArpPacket::read(c)) {
                Ok((p, n)) => ArpEthIpv4Packet::try_from(p).map(|x| (x, n)).map_err(dbg),
                Err(e) => Err(e),
            },
        )]
    }
}

pub const OPT_LENS: [usize; 11] = [0, 4, 8, 12, 16, 20, 24, 28, 32, 36, 40];

pub struct V4H;
impl V4H {
    pub fn mk(v: &[u64]) -> (Ipv4Header, rf::V4) {
        let opts = varpart_bytes(v[12], 5);
        let r = rf::V4 {
            dscp: v[0] as u8,
            ecn: v[1] as u8,
            total_len: v[2] as u16,
            id: v[3] as u16,
            df: v[4] != 0,
            mf: v[5] != 0,
            frag: v[6] as u16,
            ttl: v[7] as u8,
            proto: v[8] as u8,
            csum: v[9] as u16,
            src: arr(v[10], 0),
            dst: arr(v[11], 1),
            opts: opts.clone(),
        };
        let h = Ipv4Header {
            dscp: IpDscp::try_new(r.dscp).unwrap(),
            ecn: IpEcn::try_new(r.ecn).unwrap(),
            total_len: r.total_len,
            identification: r.id,
            dont_fragment: r.df,
            more_fragments: r.mf,
            fragment_offset: IpFragOffset::try_new(r.frag).unwrap(),
            time_to_live: r.ttl,
            protocol: IpNumber(r.proto),
            header_checksum: r.csum,
            source: r.src,
            destination: r.dst,
            options: Ipv4Options::try_from(&opts[..]).unwrap(),
        };
        (h, r)
    }
}
impl Ty for V4H {
    type V = Ipv4Header;
    const NAME: &'static str = "Ipv4Header";
    fn alphabets(th: bool, _: usize) -> Vec<Vec<u64>> {
        vec![
            ints(6, 0, th),
            range(4),
            ints(16, 1, th),
            ints(16, 2, th),
            bools(),
            bools(),
            ints(13, 3, th),
            ints(8, 4, th),
            ip_numbers(th),
            ints(16, 5, th),
            pats(th),
            pats(th),
            varpart(&OPT_LENS, &pats3()),
        ]
    }
    fn build(_: bool, _: usize, v: &[u64]) -> Option<(Self::V, Vec<u8>)> {
        let (h, r) = Self::mk(v);
        Some((h, rf::ipv4(&r)))
    }
    fn header_len(v: &Self::V) -> usize {
        v.header_len()
    }
    fn ser(v: &Self::V) -> Vec<(&'static str, Vec<u8>)> {
        vec![("to_bytes", v.to_bytes().to_vec()), ("write_raw", wr(|w| v.write_raw(w).unwrap()))]
    }
    fn ser_special(v: &Self::V, r: &[u8]) -> Vec<(&'static str, Vec<u8>, Vec<u8>)> {
        // `write` is documented to calculate the header checksum: expected = reference bytes with the RFC 1071 value
        let mut want = r.to_vec();
        let c = rf::ipv4_checksum_of(r);
        want[10] = (c >> 8) as u8;
        want[11] = c as u8;
        // ... which must be what `to_bytes` gives for the value whose header_checksum field holds that number
        let mut v2 = v.clone();
        v2.header_checksum = c;
        vec![("write(computes checksum)", wr(|w| v.write(w).unwrap()), want.clone()), ("to_bytes(header_checksum := RFC 1071 value)", v2.to_bytes().to_vec(), want)]
    }
    fn dec0(b: &[u8]) -> Dec<Self::V> {
        sl(b, Ipv4Header::from_slice(b))
    }
    fn dec_more(b: &[u8]) -> Vec<(&'static str, Dec<Self::V>)> {
        vec![("read", cur(b, |c| Ipv4Header::read(c))), ("Ipv4HeaderSlice::to_header", Ipv4HeaderSlice::from_slice(b).map(|s| (s.to_header(), s.slice().len())).map_err(dbg))]
    }
    fn mask(_b: &[u8], m: &mut [u8]) {
        rf::mask_ipv4(m)
    }
}

pub fn v4opts_from_array(b: &[u8]) -> Option<Ipv4Options> {
    macro_rules! m {
        ($($n:expr),*) => {
            match b.len() {
                $( $n => { let a: [u8; $n] = b.try_into().unwrap(); Some(Ipv4Options::from(a)) } )*
                _ => None,
            }
        };
    }
    m!(0, 4, 8, 12, 16, 20, 24, 28, 32, 36, 40)
}

fn v4_with_options(o: &Ipv4Options) -> Ipv4Header {
    let mut h = Ipv4Header::default();
    h.options = o.clone();
    h
}

pub struct V4O;
impl Ty for V4O {
    type V = Ipv4Options;
    const NAME: &'static str = "Ipv4Options";
    const DEC0: &'static str = "try_from(&[u8])";
    fn alphabets(th: bool, _: usize) -> Vec<Vec<u64>> {
        vec![varpart(&OPT_LENS, &pats(th))]
    }
    fn build(_: bool, _: usize, v: &[u64]) -> Option<(Self::V, Vec<u8>)> {
        let b = varpart_bytes(v[0], 6);
        Some((Ipv4Options::try_from(&b[..]).ok()?, b))
    }
    fn header_len(v: &Self::V) -> usize {
        v.len()
    }
    fn ser(v: &Self::V) -> Vec<(&'static str, Vec<u8>)> {
        let via_hdr = v4_with_options(v).to_bytes()[20..].to_vec();
        let as_ref: &[u8] = v.as_ref();
        vec![("as_slice", v.as_slice().to_vec()), ("deref", (&**v).to_vec()), ("as_ref", as_ref.to_vec()), ("Ipv4Header{options}.to_bytes()[20..]", via_hdr)]
    }
    fn dec0(b: &[u8]) -> Dec<Self::V> {
        Ipv4Options::try_from(b).map(|o| (o, b.len())).map_err(dbg)
    }
    fn dec_more(b: &[u8]) -> Vec<(&'static str, Dec<Self::V>)> {
        let mut hdr = rf::ipv4(&rf::V4 { dscp: 0, ecn: 0, total_len: 60, id: 0, df: false, mf: false, frag: 0, ttl: 1, proto: 17, csum: 0, src: [1; 4], dst: [2; 4], opts: if b.len() % 4 == 0 && b.len() <= 40 { b.to_vec() } else { vec![] } });
        hdr.extend_from_slice(&[0xee; 3]);
        vec![
            ("From<[u8;N]>", v4opts_from_array(b).map(|o| (o, b.len())).ok_or("no array conversion".to_string())),
            ("Ipv4Header::from_slice(..).options", Ipv4Header::from_slice(&hdr).map(|(h, _)| (h.options, b.len())).map_err(dbg)),
            ("Ipv4Header::read(..).options", cur(&hdr, |c| Ipv4Header::read(c)).map(|(h, n)| (h.options, n - 20))),
        ]
    }
}

pub struct V6H;
impl V6H {
    pub fn mk(tc: u64, flow: u64, plen: u64, nh: u64, hop: u64, s: u64, d: u64) -> (Ipv6Header, Vec<u8>) {
        let src: [u8; 16] = arr(s, 0);
        let dst: [u8; 16] = arr(d, 1);
        (
            Ipv6Header { traffic_class: tc as u8, flow_label: Ipv6FlowLabel::try_new(flow as u32).unwrap(), payload_length: plen as u16, next_header: IpNumber(nh as u8), hop_limit: hop as u8, source: src, destination: dst },
            rf::ipv6(tc as u8, flow as u32, plen as u16, nh as u8, hop as u8, &src, &dst),
        )
    }
}
impl Ty for V6H {
    type V = Ipv6Header;
    const NAME: &'static str = "Ipv6Header";
    fn alphabets(th: bool, _: usize) -> Vec<Vec<u64>> {
        vec![ints(8, 0, true), ints(20, 1, th), ints(16, 2, th), ip_numbers(th), ints(8, 3, th), pats(th), pats(th)]
    }
    fn build(_: bool, _: usize, v: &[u64]) -> Option<(Self::V, Vec<u8>)> {
        Some(Self::mk(v[0], v[1], v[2], v[3], v[4], v[5], v[6]))
    }
    fn header_len(v: &Self::V) -> usize {
        v.header_len()
    }
    fn ser(v: &Self::V) -> Vec<(&'static str, Vec<u8>)> {
        vec![("to_bytes", v.to_bytes().to_vec()), ("write", wr(|w| v.write(w).unwrap()))]
    }
    fn dec0(b: &[u8]) -> Dec<Self::V> {
        sl(b, Ipv6Header::from_slice(b))
    }
    fn dec_more(b: &[u8]) -> Vec<(&'static str, Dec<Self::V>)> {
        vec![("read", cur(b, |c| Ipv6Header::read(c))), ("Ipv6HeaderSlice::to_header", Ipv6HeaderSlice::from_slice(b).map(|s| (s.to_header(), s.slice().len())).map_err(dbg))]
    }
}

pub const ICV_LENS: [usize; 6] = [0, 4, 8, 12, 1012, 1016];

pub struct Ah;
impl Ty for Ah {
    type V = IpAuthHeader;
    const NAME: &'static str = "IpAuthHeader";
    const HEAVY: u64 = 8;
    fn alphabets(th: bool, _: usize) -> Vec<Vec<u64>> {
        vec![ip_numbers(th), ints(32, 0, th), ints(32, 1, th), varpart(&ICV_LENS, &if th { pats(false) } else { pats3() })]
    }
    fn build(_: bool, _: usize, v: &[u64]) -> Option<(Self::V, Vec<u8>)> {
        let icv = varpart_bytes(v[3], 2);
        Some((IpAuthHeader::new(IpNumber(v[0] as u8), v[1] as u32, v[2] as u32, &icv).ok()?, rf::auth(v[0] as u8, v[1] as u32, v[2] as u32, &icv)))
    }
    fn header_len(v: &Self::V) -> usize {
        v.header_len()
    }
    fn ser(v: &Self::V) -> Vec<(&'static str, Vec<u8>)> {
        vec![("to_bytes", v.to_bytes().to_vec()), ("write", wr(|w| v.write(w).unwrap()))]
    }
    fn dec0(b: &[u8]) -> Dec<Self::V> {
        sl(b, IpAuthHeader::from_slice(b))
    }
    fn dec_more(b: &[u8]) -> Vec<(&'static str, Dec<Self::V>)> {
        vec![("read", cur(b, |c| IpAuthHeader::read(c))), ("IpAuthHeaderSlice::to_header", IpAuthHeaderSlice::from_slice(b).map(|s| (s.to_header(), s.slice().len())).map_err(dbg))]
    }
    fn mask(_b: &[u8], m: &mut [u8]) {
        rf::mask_auth(m)
    }
    fn extra_bases(_th: bool) -> Vec<(usize, Vec<u64>)> {
        vec![(0, vec![17, 0x5a5b5c5d, 0x6b6c6d6e, 12 * 8 + 2]), (0, vec![6, 1, 0xfffffffe, 4 * 8 + 4])]
    }
}

pub const RAW_LENS: [usize; 5] = [6, 14, 22, 2038, 2046];

pub struct RawExt;
impl Ty for RawExt {
    type V = Ipv6RawExtHeader;
    const NAME: &'static str = "Ipv6RawExtHeader";
    const HEAVY: u64 = 16;
    fn alphabets(th: bool, _: usize) -> Vec<Vec<u64>> {
        vec![ip_numbers(th), varpart(&RAW_LENS, &pats(th))]
    }
    fn build(_: bool, _: usize, v: &[u64]) -> Option<(Self::V, Vec<u8>)> {
        let p = varpart_bytes(v[1], 1);
        Some((Ipv6RawExtHeader::new_raw(IpNumber(v[0] as u8), &p).ok()?, rf::raw_ext(v[0] as u8, &p)))
    }
    fn header_len(v: &Self::V) -> usize {
        v.header_len()
    }
    fn ser(v: &Self::V) -> Vec<(&'static str, Vec<u8>)> {
        vec![("to_bytes", v.to_bytes().to_vec()), ("write", wr(|w| v.write(w).unwrap()))]
    }
    fn dec0(b: &[u8]) -> Dec<Self::V> {
        sl(b, Ipv6RawExtHeader::from_slice(b))
    }
    fn dec_more(b: &[u8]) -> Vec<(&'static str, Dec<Self::V>)> {
        vec![("read", cur(b, |c| Ipv6RawExtHeader::read(c))), ("Ipv6RawExtHeaderSlice::to_header", Ipv6RawExtHeaderSlice::from_slice(b).map(|s| (s.to_header(), s.slice().len())).map_err(dbg))]
    }
    fn extra_bases(_th: bool) -> Vec<(usize, Vec<u64>)> {
        vec![(0, vec![60, 14 * 8 + 2]), (0, vec![43, 22 * 8 + 4])]
    }
}

pub struct Frag;
impl Ty for Frag {
    type V = Ipv6FragmentHeader;
    const NAME: &'static str = "Ipv6FragmentHeader";
    fn alphabets(th: bool, _: usize) -> Vec<Vec<u64>> {
        vec![ip_numbers(th), if th { range(8192) } else { ints(13, 0, true) }, bools(), ints(32, 1, th)]
    }
    fn build(_: bool, _: usize, v: &[u64]) -> Option<(Self::V, Vec<u8>)> {
        Some((Ipv6FragmentHeader::new(IpNumber(v[0] as u8), IpFragOffset::try_new(v[1] as u16).unwrap(), v[2] != 0, v[3] as u32), rf::frag(v[0] as u8, v[1] as u16, v[2] != 0, v[3] as u32)))
    }
    fn header_len(v: &Self::V) -> usize {
        v.header_len()
    }
    fn ser(v: &Self::V) -> Vec<(&'static str, Vec<u8>)> {
        vec![("to_bytes", v.to_bytes().to_vec()), ("write", wr(|w| v.write(w).unwrap()))]
    }
    fn dec0(b: &[u8]) -> Dec<Self::V> {
        sl(b, Ipv6FragmentHeader::from_slice(b))
    }
    fn dec_more(b: &[u8]) -> Vec<(&'static str, Dec<Self::V>)> {
        vec![("read", cur(b, |c| Ipv6FragmentHeader::read(c))), ("Ipv6FragmentHeaderSlice::to_header", Ipv6FragmentHeaderSlice::from_slice(b).map(|s| (s.to_header(), s.slice().len())).map_err(dbg))]
    }
    fn mask(_b: &[u8], m: &mut [u8]) {
        rf::mask_frag(m)
    }
}
