//! C08: the adapter trait (one implementation per serialisable type) and the value alphabets.

use std::fmt::Debug;
use std::io::Cursor;

/// result of a decoder: (value, number of bytes consumed) or the reason of the rejection
pub type Dec<V> = Result<(V, usize), String>;

pub trait Ty {
    type V: Clone + PartialEq + Debug;
    /// name of the etherparse type (reach keys "A:NAME", "B:NAME")
    const NAME: &'static str;
    /// relative cost of one value (big buffers): divides the enumeration limits
    const HEAVY: u64 = 1;
    /// name of the primary decoder
    const DEC0: &'static str = "from_slice";
    /// independent sub-spaces (e.g. one per ICMP message kind), each with its own field list
    fn variants(_th: bool) -> usize {
        1
    }
    /// per field the alphabet (sorted, index 0 = minimum, last = maximum)
    fn alphabets(th: bool, variant: usize) -> Vec<Vec<u64>>;
    /// well-formed value + its reference encoding, both built from the same plain field values;
    /// None = this combination is not a (distinct) well-formed value
    fn build(th: bool, variant: usize, vals: &[u64]) -> Option<(Self::V, Vec<u8>)>;
    fn header_len(v: &Self::V) -> usize;
    /// every serialiser that must produce exactly the reference bytes; [0] is the canonical one
    fn ser(v: &Self::V) -> Vec<(&'static str, Vec<u8>)>;
    /// serialisers with a documented transformation: (name, produced, expected)
    fn ser_special(_v: &Self::V, _r: &[u8]) -> Vec<(&'static str, Vec<u8>, Vec<u8>)> {
        vec![]
    }
    fn dec0(b: &[u8]) -> Dec<Self::V>;
    /// the other decoders (only called on strings `dec0` accepted)
    fn dec_more(_b: &[u8]) -> Vec<(&'static str, Dec<Self::V>)> {
        vec![]
    }
    /// reserved / normalised bits of the consumed bytes `b` (set bit = may differ)
    fn mask(_b: &[u8], _m: &mut [u8]) {}
    /// re-encoding used by bytes -> value -> bytes
    fn reenc(v: &Self::V) -> Vec<u8> {
        Self::ser(v).remove(0).1
    }
    /// "decoding the re-encoded bytes yields the same value again"
    fn same_after_reenc(a: &Self::V, b: &Self::V) -> bool {
        a == b
    }
    /// re-encoded bytes may be shorter than the consumed bytes (normalised tail): pad with zeros
    const REENC_ZERO_PAD: bool = false;
    /// more (variant, field values) whose encodings serve as bases of the bit flip enumeration
    fn extra_bases(_th: bool) -> Vec<(usize, Vec<u64>)> {
        vec![]
    }
}

pub fn dbg<E: Debug>(e: E) -> String {
    format!("{:?}", e)
}

/// run a `read(&mut Cursor)` style decoder; consumed = cursor position afterwards
pub fn cur<V, E: Debug>(b: &[u8], f: impl FnOnce(&mut Cursor<&[u8]>) -> Result<V, E>) -> Dec<V> {
    let mut c = Cursor::new(b);
    match f(&mut c) {
        Ok(v) => Ok((v, c.position() as usize)),
        Err(e) => Err(dbg(e)),
    }
}

/// `from_slice` style result (value, rest)
pub fn sl<V, E: Debug>(b: &[u8], r: Result<(V, &[u8]), E>) -> Dec<V> {
    match r {
        Ok((v, rest)) => Ok((v, b.len() - rest.len())),
        Err(e) => Err(dbg(e)),
    }
}

pub fn wr(f: impl FnOnce(&mut Vec<u8>)) -> Vec<u8> {
    let mut v = Vec::with_capacity(64);
    f(&mut v);
    v
}

// ---- alphabets ----------------------------------------------------------------------------------

fn mid_pattern(salt: u64) -> u64 {
    let mut v = 0u64;
    for i in 0..8u64 {
        v = (v << 8) | ((0x5a + salt.wrapping_mul(0x11) + i) & 0xff);
    }
    v
}

/// {min, min+1, mid pattern 0x5A5B.. (distinct bytes, so that byte order errors show), max-1, max};
/// thorough adds every single one bit and every single zero bit
pub fn ints(bits: u32, salt: u64, th: bool) -> Vec<u64> {
    let max = if bits == 64 { u64::MAX } else { (1u64 << bits) - 1 };
    let mid = (mid_pattern(salt) >> (64 - bits)) & max;
    let mut v = vec![0, 1.min(max), mid, max.saturating_sub(1), max];
    if th {
        for k in 0..bits {
            v.push(1u64 << k);
            v.push(max ^ (1u64 << k));
        }
    }
    v.sort();
    v.dedup();
    v
}

pub fn with(mut v: Vec<u64>, extra: &[u64]) -> Vec<u64> {
    v.extend_from_slice(extra);
    v.sort();
    v.dedup();
    v
}

pub fn range(n: u64) -> Vec<u64> {
    (0..n).collect()
}

pub fn bools() -> Vec<u64> {
    vec![0, 1]
}

/// byte string pattern codes: 0 all 00, 1 00..01, 2 5A 5B 5C.. (salted), 3 FF..FE, 4 all FF; thorough: 5 80 00.., 6 A5 A4 A3..
pub fn pats(th: bool) -> Vec<u64> {
    if th {
        range(7)
    } else {
        range(5)
    }
}
/// three patterns only (min, mid, max) for the content of big variable parts
pub fn pats3() -> Vec<u64> {
    vec![0, 2, 4]
}

pub fn pat(code: u64, salt: u64, n: usize) -> Vec<u8> {
    let mut v = vec![0u8; n];
    if n == 0 {
        return v;
    }
    match code {
        0 => {}
        1 => v[n - 1] = 1,
        2 => {
            for i in 0..n {
                v[i] = (0x5a + salt.wrapping_mul(0x11) + i as u64) as u8;
            }
        }
        3 => {
            for x in v.iter_mut() {
                *x = 0xff;
            }
            v[n - 1] = 0xfe;
        }
        4 => {
            for x in v.iter_mut() {
                *x = 0xff;
            }
        }
        5 => v[0] = 0x80,
        _ => {
            for i in 0..n {
                v[i] = (0xa5u64.wrapping_sub(i as u64).wrapping_add(salt)) as u8;
            }
        }
    }
    v
}

pub fn arr<const N: usize>(code: u64, salt: u64) -> [u8; N] {
    let v = pat(code, salt, N);
    let mut a = [0u8; N];
    a.copy_from_slice(&v);
    a
}

/// variable part alphabet: code = len * 8 + content pattern code; length 0 has one content only
pub fn varpart(lens: &[usize], contents: &[u64]) -> Vec<u64> {
    let mut v = vec![];
    for l in lens {
        for c in contents {
            if *l == 0 && *c != contents[0] {
                continue;
            }
            v.push((*l as u64) * 8 + *c);
        }
    }
    v.sort();
    v
}
pub fn varpart_bytes(code: u64, salt: u64) -> Vec<u8> {
    pat(code % 8, salt, (code / 8) as usize)
}

pub fn ether_types(th: bool) -> Vec<u64> {
    with(ints(16, 9, th), &[0x0800, 0x0806, 0x8100, 0x86dd, 0x88a8, 0x88e5, 0x9100])
}
pub fn ip_numbers(th: bool) -> Vec<u64> {
    with(ints(8, 8, th), &[6, 17, 58, 59])
}
