//! C08 adapters: Ipv4Extensions, Ipv6Extensions, IpHeaders.
//!
//! The extension sets are decoded relative to a start protocol number; the adapters carry it as a
//! "context byte" in front of the byte string (so that the bit flip enumeration also varies it).

use super::refenc as rf;
use super::t_net::{V4H, V6H};
use super::ty::*;
use etherparse::*;

const AUTH: u8 = 51;
const HBH: u8 = 0;
const ROUTE: u8 = 43;
const FRAG: u8 = 44;
const DEST: u8 = 60;

fn ctx_prefix(start: u8, mut b: Vec<u8>) -> Vec<u8> {
    b.insert(0, start);
    b
}

// ---- IPv4 extensions --------------------------------------------------------------------------------

/// (start protocol number, extensions, protocol number after the extensions)
pub type X4 = (u8, Ipv4Extensions, u8);

/// code 0 = no AH; otherwise icv varpart code + 1
fn x4_mk(ah: u64, next: u8, spi: u32, seq: u32) -> Option<(X4, Vec<u8>)> {
    if ah == 0 {
        // without an AH the start number is the payload's number; 51 would announce an AH that is not there
        if next == AUTH || spi != 0 || seq != 0 {
            return None;
        }
        Some(((next, Ipv4Extensions { auth: None }, next), vec![]))
    } else {
        let icv = varpart_bytes(ah - 1, 3);
        let h = IpAuthHeader::new(IpNumber(next), spi, seq, &icv).ok()?;
        Some(((AUTH, Ipv4Extensions { auth: Some(h) }, next), rf::auth(next, spi, seq, &icv)))
    }
}

pub struct Ext4;
impl Ty for Ext4 {
    type V = X4;
    const NAME: &'static str = "Ipv4Extensions";
    const HEAVY: u64 = 8;
    const DEC0: &'static str = "from_slice(start, ..)";
    fn alphabets(th: bool, _: usize) -> Vec<Vec<u64>> {
        let mut ah = vec![0u64];
        ah.extend(varpart(&[0, 4, 12, 1016], &pats3()).iter().map(|c| c + 1));
        vec![ah, ip_numbers(th), ints(32, 0, th), ints(32, 1, th)]
    }
    fn build(_: bool, _: usize, v: &[u64]) -> Option<(Self::V, Vec<u8>)> {
        let (x, r) = x4_mk(v[0], v[1] as u8, v[2] as u32, v[3] as u32)?;
        let s = x.0;
        Some((x, ctx_prefix(s, r)))
    }
    fn header_len(v: &Self::V) -> usize {
        1 + v.1.header_len()
    }
    fn ser(v: &Self::V) -> Vec<(&'static str, Vec<u8>)> {
        vec![("write", ctx_prefix(v.0, wr(|w| v.1.write(w, IpNumber(v.0)).unwrap())))]
    }
    fn dec0(b: &[u8]) -> Dec<Self::V> {
        if b.is_empty() {
            return Err("no context byte".into());
        }
        let (e, n, rest) = Ipv4Extensions::from_slice(IpNumber(b[0]), &b[1..]).map_err(dbg)?;
        Ok(((b[0], e, n.0), b.len() - rest.len()))
    }
    fn dec_more(b: &[u8]) -> Vec<(&'static str, Dec<Self::V>)> {
        let s = b[0];
        vec![
            ("read", cur(&b[1..], |c| Ipv4Extensions::read(c, IpNumber(s))).map(|((e, n), k)| ((s, e, n.0), k + 1))),
            ("from_slice_lax", {
                let (e, n, rest, err) = Ipv4Extensions::from_slice_lax(IpNumber(s), &b[1..]);
                match err {
                    None => Ok(((s, e, n.0), b.len() - rest.len())),
                    Some(x) => Err(dbg(x)),
                }
            }),
        ]
    }
    fn mask(b: &[u8], m: &mut [u8]) {
        if !b.is_empty() && b[0] == AUTH && m.len() > 1 {
            rf::mask_auth(&mut m[1..]);
        }
    }
    fn extra_bases(_th: bool) -> Vec<(usize, Vec<u64>)> {
        vec![(0, vec![12 * 8 + 2 + 1, 17, 0x5a5b5c5d, 0x6b6c6d6e]), (0, vec![1, 6, 1, 2])]
    }
}

// ---- IPv6 extensions --------------------------------------------------------------------------------

#[derive(Clone, Copy, Debug, PartialEq)]
pub enum Tok {
    Hbh,
    Dest,
    Route,
    Frag,
    Auth,
    FDest,
}

impl Tok {
    fn number(self) -> u8 {
        match self {
            Tok::Hbh => HBH,
            Tok::Dest | Tok::FDest => DEST,
            Tok::Route => ROUTE,
            Tok::Frag => FRAG,
            Tok::Auth => AUTH,
        }
    }
}

/// every order of extension headers `Ipv6Extensions` can represent: hop-by-hop only first; destination options
/// before the routing header go to `destination_options`, after it to `routing.final_destination_options`;
/// every header at most once
pub fn chains() -> Vec<Vec<Tok>> {
    fn rec(cur: &mut Vec<Tok>, out: &mut Vec<Vec<Tok>>) {
        out.push(cur.clone());
        let has = |t: Tok| cur.contains(&t);
        let mut cands = vec![];
        if !has(Tok::Route) && !has(Tok::Dest) {
            cands.push(Tok::Dest);
        }
        if !has(Tok::Route) {
            cands.push(Tok::Route);
        }
        if !has(Tok::Frag) {
            cands.push(Tok::Frag);
        }
        if !has(Tok::Auth) {
            cands.push(Tok::Auth);
        }
        if has(Tok::Route) && !has(Tok::FDest) {
            cands.push(Tok::FDest);
        }
        for c in cands {
            cur.push(c);
            rec(cur, out);
            cur.pop();
        }
    }
    let mut out = vec![];
    rec(&mut vec![], &mut out);
    let mut with_hbh = vec![];
    for c in &out {
        let mut x = vec![Tok::Hbh];
        x.extend(c.iter().copied());
        with_hbh.push(x);
    }
    out.extend(with_hbh);
    out
}

/// protocol numbers after the chain: upper layer numbers, plus extension numbers the chain can not continue with
pub const LASTS: [u8; 13] = [1, 6, 17, 58, 59, 0x5a, 135, 254, 255, ROUTE, FRAG, AUTH, DEST];

fn last_allowed(chain: &[Tok], last: u8) -> bool {
    let has = |t: Tok| chain.contains(&t);
    match last {
        HBH => false,
        ROUTE => has(Tok::Route),
        FRAG => has(Tok::Frag),
        AUTH => has(Tok::Auth),
        DEST => (has(Tok::Route) && has(Tok::FDest)) || (!has(Tok::Route) && has(Tok::Dest)),
        _ => true,
    }
}

/// variant: 0 minimal sizes, 1 second sizes, 2 mixed sizes / all-ones content, 3 maximum sizes
pub fn x6_mk(chain: &[Tok], variant: u64, last: u8) -> Option<((u8, Ipv6Extensions, u8), Vec<u8>)> {
    if !last_allowed(chain, last) {
        return None;
    }
    let mut e = Ipv6Extensions::default();
    let mut r = vec![];
    for (i, t) in chain.iter().enumerate() {
        let next = if i + 1 < chain.len() { chain[i + 1].number() } else { last };
        let raw_len = match variant {
            0 => 6,
            1 => 14,
            2 => {
                if i % 2 == 0 {
                    22
                } else {
                    6
                }
            }
            _ => 2046,
        };
        let content = if variant == 2 { 4 } else { 2 };
        match t {
            Tok::Hbh | Tok::Dest | Tok::Route | Tok::FDest => {
                let p = pat(content, i as u64, raw_len);
                let h = Ipv6RawExtHeader::new_raw(IpNumber(next), &p).ok()?;
                r.extend(rf::raw_ext(next, &p));
                match t {
                    Tok::Hbh => e.hop_by_hop_options = Some(h),
                    Tok::Dest => e.destination_options = Some(h),
                    Tok::Route => e.routing = Some(Ipv6RoutingExtensions { routing: h, final_destination_options: None }),
                    _ => e.routing.as_mut()?.final_destination_options = Some(h),
                }
            }
            Tok::Frag => {
                let (off, m, id) = match variant {
                    0 => (0u16, false, 0u32),
                    2 => (0x0b4b, true, 0x5a5b5c5d),
                    _ => (0x1fff, true, 0xffff_ffff),
                };
                e.fragment = Some(Ipv6FragmentHeader::new(IpNumber(next), IpFragOffset::try_new(off).unwrap(), m, id));
                r.extend(rf::frag(next, off, m, id));
            }
            Tok::Auth => {
                let (spi, seq, icv_len) = match variant {
                    0 => (0u32, 0u32, 0usize),
                    1 => (0xffff_ffff, 0xffff_fffe, 4),
                    2 => (0x5a5b5c5d, 0x6b6c6d6e, 12),
                    _ => (0xffff_ffff, 0xffff_ffff, 1016),
                };
                let icv = pat(content, 7, icv_len);
                e.auth = Some(IpAuthHeader::new(IpNumber(next), spi, seq, &icv).ok()?);
                r.extend(rf::auth(next, spi, seq, &icv));
            }
        }
    }
    let start = if chain.is_empty() { last } else { chain[0].number() };
    Some(((start, e, last), r))
}

/// chains that also get the maximum size variant: the longest ones
fn max_variant_allowed(chain: &[Tok]) -> bool {
    chain.len() >= 6
}

pub struct Ext6;
impl Ty for Ext6 {
    type V = (u8, Ipv6Extensions, u8);
    const NAME: &'static str = "Ipv6Extensions";
    const HEAVY: u64 = 32;
    const DEC0: &'static str = "from_slice(start, ..)";
    fn alphabets(_th: bool, _: usize) -> Vec<Vec<u64>> {
        vec![range(chains().len() as u64), range(4), LASTS.iter().map(|x| *x as u64).collect()]
    }
    fn build(_: bool, _: usize, v: &[u64]) -> Option<(Self::V, Vec<u8>)> {
        thread_local! { static CH: Vec<Vec<Tok>> = chains(); }
        CH.with(|ch| {
            let chain = &ch[v[0] as usize];
            if v[1] == 3 && !max_variant_allowed(chain) {
                return None;
            }
            if chain.is_empty() && v[1] != 0 {
                return None;
            }
            let (x, r) = x6_mk(chain, v[1], v[2] as u8)?;
            let s = x.0;
            Some((x, ctx_prefix(s, r)))
        })
    }
    fn header_len(v: &Self::V) -> usize {
        1 + v.1.header_len()
    }
    fn ser(v: &Self::V) -> Vec<(&'static str, Vec<u8>)> {
        vec![("write", ctx_prefix(v.0, wr(|w| v.1.write(w, IpNumber(v.0)).unwrap())))]
    }
    fn dec0(b: &[u8]) -> Dec<Self::V> {
        if b.is_empty() {
            return Err("no context byte".into());
        }
        let (e, n, rest) = Ipv6Extensions::from_slice(IpNumber(b[0]), &b[1..]).map_err(dbg)?;
        Ok(((b[0], e, n.0), b.len() - rest.len()))
    }
    fn dec_more(b: &[u8]) -> Vec<(&'static str, Dec<Self::V>)> {
        let s = b[0];
        vec![
            ("read", cur(&b[1..], |c| Ipv6Extensions::read(c, IpNumber(s))).map(|((e, n), k)| ((s, e, n.0), k + 1))),
            ("from_slice_lax", {
                let (e, n, rest, err) = Ipv6Extensions::from_slice_lax(IpNumber(s), &b[1..]);
                match err {
                    None => Ok(((s, e, n.0), b.len() - rest.len())),
                    Some(x) => Err(dbg(x)),
                }
            }),
        ]
    }
    fn mask(b: &[u8], m: &mut [u8]) {
        if !b.is_empty() {
            rf::mask_ipv6_exts(b[0], &b[1..], &mut m[1..]);
        }
    }
    fn extra_bases(_th: bool) -> Vec<(usize, Vec<u64>)> {
        // [hbh, dest, route, frag, auth, final dest] and [frag, auth] and [route, final dest]
        let ch = chains();
        let find = |c: &[Tok]| ch.iter().position(|x| x == c).unwrap() as u64;
        vec![
            (0, vec![find(&[Tok::Hbh, Tok::Dest, Tok::Route, Tok::Frag, Tok::Auth, Tok::FDest]), 1, 17]),
            (0, vec![find(&[Tok::Frag, Tok::Auth]), 2, 6]),
            (0, vec![find(&[Tok::Route, Tok::FDest]), 0, 58]),
        ]
    }
}

// ---- IpHeaders ------------------------------------------------------------------------------------------

/// (headers, protocol number of the payload)
pub type IpV = (IpHeaders, u8);

fn ip_dec0(b: &[u8]) -> Dec<IpV> {
    match IpHeaders::from_slice(b) {
        Ok((h, p)) => {
            let consumed = p.payload.as_ptr() as usize - b.as_ptr() as usize;
            Ok(((h, p.ip_number.0), consumed))
        }
        Err(e) => Err(dbg(e)),
    }
}
fn ip_dec_more(b: &[u8]) -> Vec<(&'static str, Dec<IpV>)> {
    let mut v = vec![("read", cur(b, |c| IpHeaders::read(c)).map(|((h, n), k)| ((h, n.0), k)))];
    if !b.is_empty() && b[0] >> 4 == 4 {
        v.push(("from_ipv4_slice", IpHeaders::from_ipv4_slice(b).map(|(h, p)| ((h, p.ip_number.0), p.payload.as_ptr() as usize - b.as_ptr() as usize)).map_err(dbg)));
    } else {
        v.push(("from_ipv6_slice", IpHeaders::from_ipv6_slice(b).map(|(h, p)| ((h, p.ip_number.0), p.payload.as_ptr() as usize - b.as_ptr() as usize)).map_err(dbg)));
    }
    v
}
/// `IpHeaders::write` recomputes the IPv4 header checksum: the value is stable up to that field
fn ip_same(a: &IpV, b: &IpV) -> bool {
    let norm = |x: &IpV| {
        let mut y = x.clone();
        if let IpHeaders::Ipv4(h, _) = &mut y.0 {
            h.header_checksum = 0;
        }
        y
    };
    norm(a) == norm(b)
}
/// IPv4: reserved flag bit, the header checksum (`IpHeaders::write` recomputes it) and the AH reserved field;
/// IPv6: the reserved fields of the fragment / authentication headers in the chain
fn ip_mask(b: &[u8], m: &mut [u8]) {
    if b.is_empty() {
        return;
    }
    if b[0] >> 4 == 4 && b.len() >= 20 {
        rf::mask_ipv4(m);
        m[10] = 0xff;
        m[11] = 0xff;
        let hl = (b[0] & 0xf) as usize * 4;
        if b[9] == AUTH && b.len() >= hl + 12 {
            rf::mask_auth(&mut m[hl..]);
        }
    } else if b[0] >> 4 == 6 && b.len() >= 40 {
        rf::mask_ipv6_exts(b[6], &b[40..], &mut m[40..]);
    }
}

pub struct Ip4;
impl Ty for Ip4 {
    type V = IpV;
    const NAME: &'static str = "IpHeaders";
    const HEAVY: u64 = 8;
    fn alphabets(th: bool, _: usize) -> Vec<Vec<u64>> {
        let mut ah = vec![0u64];
        ah.extend(varpart(&[0, 12, 1016], &[2, 4]).iter().map(|c| c + 1));
        vec![
            ints(6, 0, th),
            range(4),
            ints(16, 2, th),
            bools(),
            bools(),
            ints(13, 3, th),
            ints(8, 4, th),
            pats(th),
            pats(th),
            varpart(&[0, 4, 40], &[2, 4]),
            ah,
            vec![1, 6, 17, 0x5a, 255],
            ints(32, 0, false),
        ]
    }
    fn build(_: bool, _: usize, v: &[u64]) -> Option<(Self::V, Vec<u8>)> {
        // fields: dscp ecn id df mf frag ttl src dst options | ah next spi(=seq)
        let (x, xr) = if v[10] == 0 {
            if v[12] != 0 {
                return None; // no AH: no SPI
            }
            x4_mk(0, v[11] as u8, 0, 0)?
        } else {
            x4_mk(v[10], v[11] as u8, v[12] as u32, !(v[12] as u32))?
        };
        let opts_len = (v[9] / 8) as usize;
        let total = 20 + opts_len + xr.len();
        // consistent: total_len covers exactly the headers (no payload), protocol announces the AH, checksum is the RFC 1071 value
        let fv = [v[0], v[1], total as u64, v[2], v[3], v[4], v[5], v[6], x.0 as u64, 0, v[7], v[8], v[9]];
        let (mut h, mut r) = V4H::mk(&fv);
        let c = rf::ipv4_checksum_of(&rf::ipv4(&r));
        r.csum = c;
        h.header_checksum = c;
        let mut bytes = rf::ipv4(&r);
        bytes.extend(xr);
        Some(((IpHeaders::Ipv4(h, x.1), x.2), bytes))
    }
    fn header_len(v: &Self::V) -> usize {
        v.0.header_len()
    }
    fn ser(v: &Self::V) -> Vec<(&'static str, Vec<u8>)> {
        vec![("write", wr(|w| v.0.write(w).unwrap()))]
    }
    fn dec0(b: &[u8]) -> Dec<Self::V> {
        ip_dec0(b)
    }
    fn dec_more(b: &[u8]) -> Vec<(&'static str, Dec<Self::V>)> {
        ip_dec_more(b)
    }
    fn mask(b: &[u8], m: &mut [u8]) {
        ip_mask(b, m)
    }
    fn same_after_reenc(a: &Self::V, b: &Self::V) -> bool {
        ip_same(a, b)
    }
    fn extra_bases(_th: bool) -> Vec<(usize, Vec<u64>)> {
        vec![(0, vec![0x16, 1, 0x5a5b, 1, 0, 0x0b4b, 64, 2, 2, 4 * 8 + 2, 12 * 8 + 2 + 1, 17, 0x5a5b5c5d]), (0, vec![0, 0, 1, 0, 0, 0, 1, 2, 2, 0 * 8 + 2, 0, 6, 0])]
    }
}

pub struct Ip6;
impl Ty for Ip6 {
    type V = IpV;
    const NAME: &'static str = "IpHeaders";
    const HEAVY: u64 = 32;
    fn alphabets(th: bool, _: usize) -> Vec<Vec<u64>> {
        vec![ints(8, 0, th), ints(20, 1, th), ints(8, 3, th), pats(th), pats(th), range(chains().len() as u64), range(4), LASTS.iter().map(|x| *x as u64).collect()]
    }
    fn build(_: bool, _: usize, v: &[u64]) -> Option<(Self::V, Vec<u8>)> {
        thread_local! { static CH: Vec<Vec<Tok>> = chains(); }
        CH.with(|ch| {
            let chain = &ch[v[5] as usize];
            if (v[6] == 3 && !max_variant_allowed(chain)) || (chain.is_empty() && v[6] != 0) {
                return None;
            }
            let (x, xr) = x6_mk(chain, v[6], v[7] as u8)?;
            // consistent: payload_length covers exactly the extension headers, next_header starts the chain
            let (h, mut bytes) = V6H::mk(v[0], v[1], xr.len() as u64, x.0 as u64, v[2], v[3], v[4]);
            bytes.extend(xr);
            Some(((IpHeaders::Ipv6(h, x.1), x.2), bytes))
        })
    }
    fn header_len(v: &Self::V) -> usize {
        v.0.header_len()
    }
    fn ser(v: &Self::V) -> Vec<(&'static str, Vec<u8>)> {
        vec![("write", wr(|w| v.0.write(w).unwrap()))]
    }
    fn dec0(b: &[u8]) -> Dec<Self::V> {
        ip_dec0(b)
    }
    fn dec_more(b: &[u8]) -> Vec<(&'static str, Dec<Self::V>)> {
        ip_dec_more(b)
    }
    fn mask(b: &[u8], m: &mut [u8]) {
        ip_mask(b, m)
    }
    fn same_after_reenc(a: &Self::V, b: &Self::V) -> bool {
        ip_same(a, b)
    }
    fn extra_bases(_th: bool) -> Vec<(usize, Vec<u64>)> {
        let ch = chains();
        let find = |c: &[Tok]| ch.iter().position(|x| x == c).unwrap() as u64;
        vec![(0, vec![0x5a, 0x5a5b5, 64, 2, 2, find(&[Tok::Hbh, Tok::Dest, Tok::Route, Tok::Frag, Tok::Auth, Tok::FDest]), 1, 17]), (0, vec![0xa5, 0xa5a5a, 1, 2, 2, find(&[Tok::Frag, Tok::Auth]), 2, 6])]
    }
}
